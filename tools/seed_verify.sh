#!/bin/bash
# usage: tools/seed_verify.sh <ID> <worktree> <patch.diff> <demo_test.go> <pkgdir> [run-regexp]
# Confirms a seeded change in a scratch worktree of /repo (never in /repo itself):
#   1. the worktree is reset to HEAD, the patch applies and the whole suite passes with it
#   2. the demonstration fails with the patch
#   3. the demonstration passes without the patch
# Prints SEED-OK or SEED-BAD <reason>. The worktree is left clean.
export GOFLAGS=-mod=mod GOPROXY=off GOSUMDB=off GOTOOLCHAIN=local
id=$1; wt=$2; patch=$3; demo=$4; pkgdir=$5; run=${6:-.}
cd "$wt" || { echo "SEED-BAD no worktree"; exit 2; }
git checkout -q -- . ; git clean -fdq
git apply --check "$patch" || { echo "SEED-BAD patch does not apply"; exit 1; }
git apply "$patch"
go1.26.8 build ./... || { echo "SEED-BAD does not build"; git checkout -q -- .; exit 1; }
if ! go1.26.8 test -count=1 -vet=off ./... > /tmp/seed_suite_$id.log 2>&1; then
  echo "SEED-BAD suite fails with the change"; tail -20 /tmp/seed_suite_$id.log; git checkout -q -- .; git clean -fdq; exit 1
fi
echo "suite passes with the change: $(grep -c '^ok' /tmp/seed_suite_$id.log) packages ok"
rm -f /tmp/seed_suite_$id.log
cp "$demo" "$pkgdir/zz_seed_demo_test.go"
if go1.26.8 test -count=1 -vet=off -run "$run" "./$pkgdir" > /tmp/seed_demo_$id.log 2>&1; then
  echo "SEED-BAD demonstration passes with the change"; git checkout -q -- .; git clean -fdq; exit 1
fi
echo "demonstration fails with the change:"; grep -m5 -E '^\s+.*(_test.go:|panic|FAIL)' /tmp/seed_demo_$id.log | cut -c1-300
git checkout -q -- .
if ! go1.26.8 test -count=1 -vet=off -run "$run" "./$pkgdir" > /tmp/seed_demo_$id.log 2>&1; then
  echo "SEED-BAD demonstration fails without the change"; tail -20 /tmp/seed_demo_$id.log; git clean -fdq; exit 1
fi
echo "demonstration passes without the change"
rm -f /tmp/seed_demo_$id.log
git clean -fdq
echo "SEED-OK $id"
