#!/bin/bash
# usage: tools/with_revert.sh <commit>|<patch.diff> -- <command...>
# Applies the reverse of a fix commit (or a seeded patch) to /repo's working tree, runs
# the command, and restores /repo afterwards (always).
set -u
what="$1"; shift; shift
cd /repo || exit 2
if ! git diff --quiet HEAD; then echo "/repo working tree is dirty" >&2; exit 2; fi
restore() { git -C /repo reset -q --hard HEAD; git -C /repo clean -fdq; }
trap restore EXIT
if [ -f "$what" ]; then
  git apply "$what" || { echo "patch does not apply" >&2; exit 2; }
else
  git show "$what" | git apply -R 2>/dev/null || { restore; git show "$what" | git apply -R -C1 2>/dev/null; } || { restore; git show "$what" | git apply -R -3 2>/dev/null; } \
    || { echo "cannot revert $what (conflicts with later commits)" >&2; exit 2; }
  if git -C /repo diff --name-only --diff-filter=U | grep -q .; then echo "revert of $what conflicts" >&2; exit 2; fi
fi
cd /verif
"$@"
exit $?
