#!/usr/bin/env python3
"""Prints the quick-tier cost paragraph of DESIGN.md 9.7 from evidence/*.json (wall_s, evaluations)."""
import json, glob
rows = []
total = 0.0
for p in sorted(glob.glob("/verif/evidence/C*.json")):
    d = json.load(open(p))
    if d.get("tier") != "quick":
        continue
    total += d["wall_s"]
    rows.append(f"{d['property_id']} {d['wall_s']:.0f} s ({d['coverage']['evaluations']:,} cases)".replace(",", " "))
print("Quick tier on the 16-core sandbox, idle machine (wall clock of the run that wrote the committed\n"
      "evidence, build included): " + ", ".join(rows) + f"; {total / 60:.0f} minutes for all twenty, two to three times that\n"
      "with the machine busy. The slow ones sleep on purpose (C06, C08, C12: cost profiles that force the\n"
      "timing-based parallel switch; grace periods for goroutines; the error-path shapes of C12 wait for\n"
      "200 000 counted calls).")
