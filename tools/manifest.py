#!/usr/bin/env python3
"""Regenerates MANIFEST.json from the claims below (kept in one place so that the
manifest is always valid and in step with checkconf.py)."""
import json, subprocess, sys
sys.path.insert(0, "/verif")
from checkconf import PROPS

CLAIMS = {
 "C19": dict(level="exploration",
   text="bounded-exhaustive enumeration of all bool expressions up to 3 (quick) / 4 (thorough) operator nodes and all float expressions up to 2 / 3 nodes against direct evaluation, plus rapid sampling of larger trees; complete inside the stated bounds, sampling beyond",
   note="trusts the tree evaluator (operators' Go definitions, big.Rat for floats) and the harness renderer; float cases whose exact arithmetic leaves 12.12 fixed point are outside the quantifier",
   tech="bounded-exhaustive enumeration + property-based sampling against a direct-evaluation oracle"),
 "C02": dict(level="exploration",
   text="three-way differential property-based testing: the same generated program (constant-rich profile, pure/impure host functions with call counters) is generated with the optimizer on and off and interpreted by the reference; values and impure-call counts must agree; plus optimizer on/off sampling on the float and bool instantiations; sampled, not complete",
   note="trusts the reference interpreter for the expected value and call count; rounding differences are tolerated only where the reference saw a rounded float product",
   tech="property-based differential/metamorphic testing (optimizer on vs off vs reference interpreter), call-counting host functions"),
 "C16": dict(level="exploration",
   text="differential property-based testing: GenerateWithMap(exp,m) vs Generate(exp',m) vs the reference interpreter, exp' derived from the generator's binding structure; maps in several storage representations; sampled, not complete",
   note="trusts the scoping analysis of the rewriter (harness/lang/attr.go) and the reference interpreter",
   tech="property-based differential testing (implicit vs explicit attribute form vs reference interpreter)"),
 "C10": dict(level="exploration",
   text="stateful property-based testing: generated histories of evaluations, held/partially consumed lazy results and re-generations on one generator; each outcome is compared with the reference outcome of its own arguments; whole histories shrink as one value; sampled, not complete",
   note="trusts the reference interpreter; concurrency is out of scope here (C11)",
   tech="stateful property-based testing (generated operation histories against a reference model)"),
 "C03": dict(level="exploration",
   text="property-based testing against an independent reference parser: random operator tables and expression trees in three parenthesisations (the minimal one derived with the reference parser), and token-level mutations of valid programs where the reference decides accept/reject and the expected tree; sampled, not complete",
   note="trusts the reference parser in harness/pratt (written from the grammar stated in the property) and the lexical joiner",
   tech="property-based testing with a reference parser (precedence climbing) as oracle, mutation of token lists"),
 "C15": dict(level="exploration",
   text="metamorphic property-based testing: generated separators (white space, both comment kinds, tight or spaced) between the tokens of valid programs must leave the AST unchanged and report the lines the layout engine predicts; literal round trips for random unicode strings and quoted identifiers; alias vs ASCII spelling; omitted vs explicit multiplication in comfort mode; sampled, not complete",
   note="trusts the layout engine's line model (a line break is LF) and the lexical predicate deciding where no separator is needed",
   tech="metamorphic property-based testing (layout variants vs canonical layout), literal round-trip"),
 "C01": dict(level="exploration",
   text="differential property-based testing: programs from a typed grammar generator are evaluated by the implementation (optimizer on and off) and by an independent reference interpreter and compared deeply; shrunk counterexamples become replay files; sampled, not complete",
   note="trusts the reference interpreter and eager reference library in harness/ref (written from documentation, property text and repository tests) and the harness renderer; unspecified edges are skipped, not asserted",
   tech="property-based differential testing against a reference interpreter (pgregory.net/rapid, typed program generator, shrinking)"),
}

def main():
    props = [json.loads(l) for l in open('/verif/properties.jsonl')]
    hooks = subprocess.run(["git", "-C", "/repo", "log", "--format=%h", "--grep=^verif hook"], capture_output=True, text=True).stdout.split()
    man = {
     "version": 1,
     "setup_cmd": "./check --setup",
     "hooks": {"guard": "verif", "enable": "go build tag: the harness builds /repo through a replace directive with -tags verif",
               "baseline_off_cmd": "cd /repo && GOFLAGS=-mod=mod GOPROXY=off GOSUMDB=off GOTOOLCHAIN=local go1.26.8 test -json -vet=off -count=1 -timeout 25m ./...",
               "source_commits": hooks, "add_only": True},
     "engines": [{"name": "check", "path": "check", "serves_properties": sorted(c for c in CLAIMS if c in PROPS),
                  "kind_free_text": "python driver over Go test binaries (pgregory.net/rapid properties, exhaustive enumerators, native fuzz targets, replay tests) built from /verif/harness against /repo's working tree"}],
     "checks": [], "not_applicable": [],
     "notes": "see DESIGN.md; known_findings.json lists fixed and open findings; replay/<ID>/ holds regression cases",
    }
    for p in props:
        i = p['id']
        if i in CLAIMS and i in PROPS:
            c = CLAIMS[i]
            man["checks"].append({"property_id": i, "quick_cmd": "./check %s quick" % i, "thorough_cmd": "./check %s thorough" % i,
                                  "evidence_file": "evidence/%s.json" % i, "replay_cmd_template": "./check %s replay {path}" % i, "engine": "check",
                                  "level_claimed": {"category": c["level"], "text": c["text"], "design_ref": "DESIGN.md section 3, " + i},
                                  "level_note": c["note"], "technique": c["tech"]})
        else:
            man["not_applicable"].append({"property_id": i, "reason": "check under construction in this session (planned as a property-based test per DESIGN.md section 3); not claimed until it runs clean"})
    json.dump(man, open('/verif/MANIFEST.json', 'w'), indent=1)

main()
