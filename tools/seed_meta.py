#!/usr/bin/env python3
"""Descriptions of the seeded changes under /verif/seeded and the checks each one is run
against. `seed_meta.py --checks <name>` prints that list (used by seed_matrix.sh);
without arguments it (re)writes seeded/<name>/meta.json from these descriptions and from
the results recorded in seeded/RESULTS.txt (written by seed_matrix.sh)."""
import json, os, sys
M = {
 "C01": dict(change="funcGen/generator.go createClosureLiteralFunc: a new closure looks a captured outer name up in the enclosing function's closure store before its stack frame (two branches swapped)",
   needs="a name that is in both at once: the enclosing function (a closure or func) reads a non-constant name captured from further outside and then redeclares it with a non-constant let in the same body (let y = y*10), and a nested closure created behind that let uses the name; then the nested closure sees the stale outer value",
   demo=("value", "TestSeedC01"), ran=["C01", "C10", "C02"],
   first="missed by C01, C02 and C10 (the generator never redeclared a name of an enclosing function inside a closure body)",
   strengthened="lang generator: with 15 % a fresh name is taken from the names visible from an enclosing function (arguments, outer lets, funcs, parameters); classes let_redeclares_a_name_of_an_enclosing_function, let_value_reads_the_outer_name_it_redeclares, closure_captures_a_redeclared_name; two C01 exemplars"),
 "C02": dict(change="funcGen/generator.go createClosureLiteralFunc: a closure literal that captures something (or is recursive) is always reported as pure",
   needs="an impure function called inside an inner closure that captures a variable of the enclosing closure (or is recursive), the inner closure is invoked inside the enclosing closure, and the enclosing closure captures nothing and is applied to constants: the optimizer folds the call, the impure function runs during Generate and never again",
   demo=("value", "TestC02"), ran=["C02", "C01", "C10"],
   first="missed by C02 (impure host calls almost never sat in a nested capturing closure of an argument-independent closure)",
   strengthened="lang generator (Host profile): closures without captures applied to argument-independent values with host calls inside (closedLam), and templates of nested closures / recursive funcs that capture nothing from the program and call ik in the inner closure (closedNest); classes; three C02 exemplars"),
 "C03": dict(change="parser2.go Parser.Parse: the binary position of a prefix operator is recorded only for the first prefix operator that is also a binary operator",
   needs="an operator table with at least two prefix operators that are both also binary, the later one followed by a higher-priority binary operator or another prefix operator: -a*b is grouped as (-a)*b, -+a*b is rejected",
   demo=(".", "TestC03"), ran=["C03"], first="caught by C03 quick (tables with several prefix operators that are also binary are generated)", strengthened=""),
 "C04": dict(change="parser2.go Identifiers.AddArgs: the enclosing scope is asked twice per level for an outer identifier",
   needs="a few dozen nested closure literals or func bodies whose innermost body uses an outer, global or unknown identifier: 2^depth lookups, Parse does not return (234 bytes suffice)",
   demo=(".", "TestC04"), ran=["C04", "C12"], first="caught by C04 quick (nesting templates; watchdog + scaling measurement); C12 does not see it (no goroutine is left, the call just does not return)", strengthened=""),
 "C05": dict(change="value/list.go Merge: an operand whose size is known is handed to iterator.Merge without the panic guard (mergeOperand fast path)",
   needs="a merge operand or receiver that is a sized lazy stage which does not guard itself (iir, iirCombine, fsm, number ...) and a real panic (host function, stack guard) or an error the stage is pulled past: the panic happens on the iterator.ToChan goroutine and kills the process",
   demo=("value", "TestC05Demo$"), ran=["C05", "C06", "C07"],
   first="missed by C05 (merge operands were always map stages), caught by C06 and C07 (process death attributed through the pending-case file)",
   strengthened="C05: stage contexts - the fault is raised by the closure of every kind of list stage (map accept number iir iirInitial iirCombine combine combine3 combineN compact cross fsm) as merge operand / merge receiver / merge with an early stopping consumer / multiUse source / multiUse consumer / behind a parallel stage / lazy result; four exemplars"),
 "C06": dict(change="value/list.go Map/Accept: the source list is iterated on the consumer's stack when its size is known (sourceStack fast path)",
   needs="a sized closure-calling stage (number, iir, iirCombine, fsm ...) directly in front of a map/accept that switches to parallel workers (>12 items, >200 us per item) and a consumer behind it that uses the stack (reduce, mapReduce ...): wrong, varying results and race reports",
   demo=("value", "TestC06"), ran=["C06", "C05"], first="caught by C06 quick (the race detector halts the process, attributed through the pending-case file)", strengthened=""),
 "C07": dict(change="value/list.go List.Number: the index counter lives per producer object instead of per run of the producer",
   needs="a lazy, not yet evaluated result of number(...) passed as the other list of cross with a receiver of at least two items (cross replays its second operand): the indices keep counting",
   demo=("value", "TestC07"), ran=["C07"], first="missed by C07 (list arguments of built-ins were always literals, numbers(n) or an argument)",
   strengthened="C07 generator: the other list of cross, merge and + is a lazy pipeline of 1..2 stages in half of the cases (class lazy_pipeline_as_list_argument); the reference flags unordered list arguments; exemplar"),
 "C08": dict(change="value/list.go containsAllItems: the 'nothing left to look for' exit is taken only when the next source element arrives",
   needs="the list form [..] ~ pipeline, a lazy stage in front whose closure fails, and the only failing element exactly one behind the decisive element: its error is reported (the extra demand of one element is within the read-ahead tolerance)",
   demo=("value", "TestC08"), ran=["C08", "C07"],
   first="missed by C08 (no sub-list membership consumer; failing elements were only placed behind the read-ahead window), caught by C07",
   strengthened="C08: consumer containsAll; failing element directly behind the decisive prefix (fail_near) - this also exposed the genuine defect F29 in multiUse, fixed; three exemplars"),
 "C09": dict(change="value/list.go Append: the spare-capacity test is made before the list is evaluated",
   needs="a lazily produced, not yet evaluated parent (map, accept, +, numbers) whose length is not a power of two, appended to twice: the second append overwrites the slot of the first child (also across two evaluations on a constant-folded parent)",
   demo=("value", "TestC09"), ran=["C09", "C10", "C11"], first="caught by C09 quick and C10 quick", strengthened=""),
 "C10": dict(change="value/list.go containsAllItems: ToSlice instead of CopyToSlice - the search list is edited in place",
   needs="the list form a ~ b whose search list outlives the evaluation (a folded constant or an argument that is used again) and a match of an element that is not the last one looked for: later evaluations see a corrupted list",
   demo=("value", "TestC10"), ran=["C10", "C09", "C01", "C11", "C07", "C14"],
   first="missed by C10, C09, C11, C07 and C14 (the list form of ~ was only generated by C07, on literals evaluated once)",
   strengthened="lang generator: list ~ list; C09: observers (containsAll, containsItem, equalTo, string, last, minMax, max, mean, reduce, mapReduce, indexWhere, present, visit, mapGet) and more derivations as operations - an operation never changes its operands"),
 "C11": dict(change="value/value.go AccessList: one scratch stack per FunctionGenerator instead of a fresh one per index access",
   needs="concurrent evaluations that index a still lazy list whose pipeline has a stage running its closure on the consumer's stack (iir, combine, number, compact, cross, fsm, merge ...): the goroutines overwrite each other's closure arguments",
   demo=("value", "TestC11Demo"), ran=["C11", "C10", "C06"], first="caught by C11 quick through the race detector (report attributed to the case by the VERIF-CASE marker)", strengthened=""),
 "C12": dict(change="parser2.go Parser.Parse: tokenizer.Stop() only on the error path of the expression, not when tokens are left behind the expression",
   needs="a complete expression followed by at least two surplus tokens: the tokenizer goroutine blocks forever on the second one, one goroutine per call",
   demo=("value", "TestC12"), ran=["C12", "C04"], first="caught by C12 quick (exemplar F10-trailing-tokens and the search)", strengthened=""),
 "C13": dict(change="value/map.go ReplaceMap.createFlat: copies orig and overlays every entry of rep instead of iterating the restricted view",
   needs="a replace chain whose length is a multiple of 11 (the flattening step) and a replacement map with a key outside the original key set at exactly that step: the key set grows",
   demo=("value", "TestC13"), ran=["C13"], first="caught by C13 quick (exemplar F13-outside-key-through-deep-chain and the search)", strengthened=""),
 "C14": dict(change="value/list.go List.Equals: identity shortcut - the same *List on both sides is equal without looking at the elements",
   needs="the same list object on both sides (let a=..; a=a, one value passed twice, an inner list shared by two containers) and an element for which element-wise comparison is not true: NaN (= must be false) or a closure (= must fail)",
   demo=("value", "TestC14"), ran=["C14", "C07", "C13"], first="missed by C14 (both operands were always built separately)",
   strengthened="C14: checkSameObject - a op a, [1,a] op [1,a], {k:a} op {k:a}, let l=[a,1]; l op l, let m={k:a}; m op m on the run-time and on the constant-folding path must agree with the model of two separately built copies; exemplar"),
 "C15": dict(change="token.go parseOperator: the look-ahead behind an operator reads the next rune without comment skipping and alias mapping",
   needs="comments enabled and a comment tight behind an operator (a+/*c*/b), or a typographic alias directly behind an operator",
   demo=(".", "TestC15"), ran=["C15", "C03"], first="caught by C15 quick (exemplars F15 and the search)", strengthened=""),
 "C16": dict(change="parser2.go AddArgs + funcGen createClosureLiteralFunc: duplicate check before the attribute is renamed to the map name; recursive closures rebuild their context list with the duplicate-rejecting addAll",
   needs="implicit-attribute mode and a recursive func with two or more attribute lookups in its body: GenerateWithMap fails with redeclaration of 'm'",
   demo=("value", "TestC16"), ran=["C16", "C01"], first="caught by C16 quick", strengthened=""),
 "C17": dict(change="value/export/json.go: control characters are written as \\u00 + unpadded hex",
   needs="a string or key with a control character below U+0010 other than tab, LF, CR: three hex digits - invalid JSON, or silently a different character when a hex digit follows",
   demo=("value/export", "TestC17"), ran=["C17"], first="caught by C17 quick (exemplar F20-control-characters and the search)", strengthened=""),
 "C18": dict(change="xmlWriter.IsName: upper bound of the upper-case range typed as 'z'",
   needs="a map whose values are all scalars and a key made of name characters plus one of [ \\ ] ^ `: the raw key is written as an attribute name",
   demo=("value/export", "TestC18"), ran=["C18"], first="caught by C18 quick", strengthened=""),
 "C19": dict(change="token.go: comfort mode no longer inserts * between two number literals separated by a blank",
   needs="the float instantiation (comfort mode) and one number literal following another with only white space between them",
   demo=("example", "TestC19"), ran=["C19", "C15"], first="caught by C19 quick and C15 quick (juxtaposition)", strengthened=""),
 "C20": dict(change="value/binning.go axis.getIndex: rewritten with pos <= 0 as the underflow test",
   needs="an element exactly equal to start: it lands in the underflow bin (mass is conserved and additivity holds, only the bin assignment is wrong)",
   demo=("value", "TestC20"), ran=["C20"], first="caught by C20 quick (exemplar edges-and-additivity and the search)", strengthened=""),
}

# ---- second round: the sub-agent was told which change had been seeded before ----
M.update({
 "C02b": dict(change="value/value.go New(): the operator & is registered as regroupable (commutative flag true)",
   needs="a chain true & X & false where the first operand is a constant true, a later one a constant false and X has an observable evaluation (fails, is no bool, calls an impure function): the optimizer regroups, the short-circuit never evaluates X",
   demo=("value", "TestC02b"), ran=["C02", "C19"], first="caught by C02 quick (exemplar F3-and-chain-keeps-throw and the search); C19 does not see it (it checks the float and bool example configurations, not value.New)", strengthened=""),
 "C03b": dict(change="token.go Tokenizer.run: the 'last token was a number' marker is set also when comfort mode is off",
   needs="comfort mode off, an operator table that contains *, and a number literal directly followed by an identifier, a number or '(' : a+2 b is accepted as a+(2*b), 2(a) becomes 2*a instead of a call",
   demo=(".", "TestC03b"), ran=["C03", "C15", "C04"], first="caught by C03 quick (a call on a number literal; malformed input accepted); C15 and C04 do not see it", strengthened=""),
 "C05b": dict(change="value/value.go New(): <= evaluates equal before less and returns true for equal operands",
   needs="the operator <= exactly, both operands of a type that has equality but no order (bool, list, map), and equal values: true instead of an error",
   demo=("value", "TestC05b"), ran=["C05", "C14"], first="caught by C05 quick (operator matrix: true <= true) and C14 quick", strengthened=""),
 "C07b": dict(change="value/string.go String.Cut: the copy loop stops on the byte length of the output instead of the number of runes copied",
   needs="a selected range that contains a multi-byte rune which is not the last one selected, and a positive length: the result is silently too short",
   demo=("value", "TestC07b"), ran=["C07"], first="caught by C07 quick (unicode receivers)", strengthened=""),
 "C09b": dict(change="value/list.go List.CopyToSlice: lists with fewer than two elements return their own backing slice",
   needs="set(0, x) on a list with exactly one element: the write goes through to the parent and to every list sharing the array (also a folded constant across evaluations)",
   demo=("value", "TestC09b"), ran=["C09", "C10"], first="caught by C09 quick and C10 quick", strengthened=""),
})

M.update({
 "C01b": dict(change="value/value.go GenerateCustom: the compiled code for | with a non-boolean left operand fetches the operator implementation of &",
   needs="the operator | on two integers of which at least one is not a compile-time constant (all-constant operands are folded with the right table) and whose values differ",
   demo=("value", "TestC01b"), ran=["C01", "C02"], first="caught by C01 quick and C02 quick (exemplar F2-int-or-at-run-time and the search)", strengthened=""),
 "C04b": dict(change="parser2.go simpleNumber: the continuation predicate of a number is unicode.IsDigit while a number still starts on any unicode.IsNumber rune",
   needs="a rune of category No/Nl that is no decimal digit (1/2, circled or roman numerals, subscripts) at a token start: the tokenizer emits empty number tokens forever, Parse never returns (2 bytes suffice)",
   demo=(".", "TestC04b"), ran=["C04", "C12"], first="caught by C04 quick (watchdog; hostile unicode constants are part of the soups); C12 is inconclusive (its shards hang, exit 2)", strengthened=""),
 "C06b": dict(change="value/list.go Merge: both operands are iterated on one shared stack",
   needs="both operands contain a lazy stage that calls its closure on the stack the operand is handed (number, iir, combine, cross, fsm ...) and the closures overlap in time (merge reads one item ahead): wrong element values, wrong merge order, race reports",
   demo=("value", "TestSeedC06b"), ran=["C06"], first="caught by C06 quick (race detector; sub-pipelines as second operand of merge)", strengthened=""),
 "C08b": dict(change="value/list.go Single: the 'more than one item' error is formatted with %v of the list, which re-runs the lazy pipeline for up to 11 items",
   needs="single() on a lazy list that lets at least two items through: closures of the items 2..10 are evaluated, their errors show up, and behind a filter on a 1e11 source the call does not return",
   demo=("value", "TestC08b"), ran=["C08"], first="missed by C08 (single() was only used behind top(1), where it succeeds)",
   strengthened="C08: consumer singleMany - single() on a list with more than one item is an error that is decided by the second item; exemplar"),
 "C10b": dict(change="value/list.go List.Eval: a failing evaluation stores the items in front of the failing one as the list's content",
   needs="a lazy list that outlives an evaluation (constant-folded pipeline, argument used again) with an item whose computation fails, forced as a whole (size, index, =, append ...) and used again: the second evaluation succeeds on the truncated list",
   demo=("value", "TestC10b"), ran=["C10", "C09", "C01"], first="missed by C10 and C09 (closures over constant lists that fail at one item were practically never generated)",
   strengthened="lang generator: lazy lists over constants whose closure fails at one item (throw token or 12 % item), in programs that may fail; C10 exemplar failing-item-in-a-shared-lazy-list; C10 also passes the same argument objects again (reuse_args)"),
 "C11b": dict(change="value/list.go Order: ToSlice instead of CopyToSlice - order/orderRev sort the receiver's own backing array",
   needs="an already evaluated list shared between evaluations (a literal folded into the function, one argument object) ordered with a key that depends on the evaluation, and overlapping evaluations (or a result inspected after a later evaluation)",
   demo=("value", "TestC11b"), ran=["C11", "C09", "C10"], first="caught by C11 quick (race report), C09 quick and C10 quick (the parent is reordered)", strengthened=""),
 "C12b": dict(change="value/multiUse.go MultiUse: each consumer goroutine is started as soon as its own map entry is validated",
   needs="a multiUse map with a valid one-argument function in front of an entry that is rejected: MultiUse returns the error before the distributor runs, the consumers already started block forever",
   demo=("value", "TestC12b"), ran=["C12"], first="missed by C12 (no error paths of multiUse were generated)",
   strengthened="pipes/C12: terminals multiUseRejected (valid consumers followed by an int, a two-parameter closure or a string) and multiUseFailingConsumer; five pipeline exemplars"),
 "C13b": dict(change="value/map.go Merge (+): small list maps are merged by appending onto the left operand's slice without copying it",
   needs="a left operand with spare capacity (result of an earlier small merge or of an accept that dropped an entry) used as left operand of two merges, and the first result observed after the second merge",
   demo=("value", "TestC13b"), ran=["C13", "C09"], first="missed by C13 and C09 (merges of two handles overlap too often to build chains; no repeated derivation from one operand in C13)",
   strengthened="C13: operation plusFresh (merge with a one-entry map whose key is new) and re-derivation from the operand of the previous step in a third of the steps; C09: mapPlusFresh"),
 "C14b": dict(change="value/operations.go Equal: the element comparison of containers returns false for elements of different type before the operator matrix is consulted",
   needs="operands inside a list or map with different types: [1]=[1.0] is false, [1]=['1'] is false instead of an error",
   demo=("value", "TestC14b"), ran=["C14", "C07"], first="caught by C14 quick", strengthened=""),
 "C15b": dict(change="token.go peek: a carriage return inside a block comment counts as a line break",
   needs="comments enabled and a CR (e.g. CR LF line ends) inside a block comment: every later token and error reports a line that is too high",
   demo=(".", "TestC15b"), ran=["C15"], first="missed by C15 (block comments only contained line feeds)",
   strengthened="C15: line ends of every convention (LF, CR LF, CR) inside block comments; exemplar"),
 "C16b": dict(change="funcGen/generator.go FunctionCall on a closure value: the arguments are compiled without reserving the slots of the pending arguments (partial revert of the repair F1)",
   needs="an attribute of the implicit map that holds a closure, used as callee, and a let inside a non-first argument of that call",
   demo=("value", "TestC16b"), ran=["C16", "C01"], first="caught by C16 quick and C01 quick (exemplar F1)", strengthened=""),
 "C17b": dict(change="value/export/export.go Export: a 'skip a key that is delivered twice' guard whose sentinel is the empty string",
   needs="a map (any representation, any depth) with the key \"\": the entry is dropped",
   demo=("value/export", "TestC17b"), ran=["C17"], first="caught by C17 quick (empty keys are generated)", strengthened=""),
 "C18b": dict(change="value/export/html.go toHtml: in the list branch the !ok check comes before the err check",
   needs="a failure one level down while an item of a list is rendered (failing lazy list as table row or entry, failing ToString, failing style closure): ToHtml reports success with a truncated fragment",
   demo=("value/export", "TestC18b"), ran=["C18"], first="caught by C18 quick", strengthened=""),
 "C19b": dict(change="funcGen/optimizer.go: the regrouping test compares operator priorities instead of operators, and the regrouped node no longer carries its priority",
   needs="optimizer on, the lowest-priority operator flagged commutative (bool ^) on top of a chain of a different commutative operator with constants on both sides of a variable: true&a&true^true",
   demo=("example", "TestC19b"), ran=["C19", "C02"], first="caught by C19 quick (inside the exhaustive bool domain); C02 does not see it (value.New has no commutative lowest-priority operator)", strengthened=""),
 "C20b": dict(change="value/binning.go collectBinning1d: the sums adopt the first part's values slice and later parts are added in place",
   needs="a 1d binning with at least two parts whose first part's binning value is used again (collected a second time, inspected): the part changes, a second collectBinning differs",
   demo=("value", "TestC20b"), ran=["C20"], first="missed by C20 (the parts handed to collectBinning were rebuilt copies, collected once)",
   strengthened="C20: collectBinning over the implementation's own binning values, twice; the parts must stay unchanged and both sums equal the binning of the whole"),
})

# ---- third round: the sub-agent was told about both earlier changes and asked for an untouched clause ----
M.update({
 "C01c": dict(change="funcGen/generator.go MethodCall: on the closure-field path the receiver is no longer pushed before the arguments are evaluated",
   needs="a closure stored in a map called with method syntax m.f(...), an argument that declares a non-constant local (let y = x*2; y) and reads it: the local is read one slot off",
   demo=("value", "TestC01c"), ran=["C01", "C16"], first="caught by C01 quick (exemplar F1-let-in-map-field-closure-arg and the search) and C16 quick", strengthened=""),
 "C02c": dict(change="funcGen/optimizer.go: the arity guard of the constant-closure call folding only rejects too few arguments",
   needs="a constant closure without captures, not recursive, applied to constant arguments, at least one too many: folded to a value, the unoptimized program reports the wrong number of arguments",
   demo=("value", "TestC02c"), ran=["C02", "C01"], first="caught by C02 quick and C01 quick (ill-typed calls are generated in 20 % of the programs)", strengthened=""),
 "C03c": dict(change="parser2.go parseLiteral: only a wrong KEYWORD in the else position is rejected, any other token is swallowed as if it were else",
   needs="an else branch that starts with a token that can be dropped and still leave an expression: a pure prefix operator (if c then a else !b with else deleted), or a comma inside a list or call",
   demo=(".", "TestC03c"), ran=["C03"], first="caught by C03 quick (token mutations: a deleted else in front of a lambda/prefix form is accepted)", strengthened=""),
 "C04c": dict(change="funcGen/optimizer.go: constant-if folding returns nil instead of the unchanged AST when the constant condition is no bool",
   needs="a complete if whose condition folds to a constant that toBool refuses (if 1 then 2 else 3): Parse returns neither AST nor error, a nested one panics in Generate",
   demo=("value", "TestC04c"), ran=["C04", "C01", "C02"], first="caught by C04 quick (panic of Generate on a mutated valid program); C01/C02 do not generate ill-typed constant conditions", strengthened=""),
 "C05c": dict(change="funcGen/optimizer.go: same arity guard as C02c (seeded independently)",
   needs="a constant pure closure applied to constant arguments, one too many: a value instead of an error; try does not see a fault",
   demo=("value", "TestC05c"), ran=["C05", "C02"], first="caught by C05 quick (call fault sources: closures applied to boundary argument lists) and C02 quick", strengthened=""),
 "C06c": dict(change="value/list.go deepEvalLists: in the map branch the error of a nested list is assigned to a shadowed variable and lost",
   needs="a multiUse consumer whose result is a map (or a list holding a map) with a lazy list derived from the multiUse list, and an element that fails while multiUse forces it: multiUse succeeds with an empty list where sequential evaluation fails",
   demo=("value", "TestC06c"), ran=["C06", "C07"], first="missed by C06 and C07 (multiUse consumers only returned scalars and lists)",
   strengthened="pipes/C06: terminal multiUseNested - consumers return {x: lazy list}, {k:1, m:{x: lazy list}}, [{x: lazy list}, 7] with the failing closure inside"),
 "C07c": dict(change="value/list.go MovingWindow: the windows keep spare capacity reaching into the receiver's backing array",
   needs="append on a window that is not the last one (l.movingWindow(f).map(w->w.append(k))): the appended item overwrites the neighbour behind the window in the source and in the other windows",
   demo=("value", "TestC07c"), ran=["C07", "C09"], first="missed by C07 and C09 (windows were only measured, never appended to)",
   strengthened="C07: what is done with each window includes append/append-append/set; C09: operations movingWindowAppend, movingWindowRemoveAppend, combineNAppend, groupValuesAppend (sub-lists a built-in hands out are lists of their own)"),
 "C08c": dict(change="value/operations.go Add: two lists whose sizes are known and small are concatenated into a materialised list at once",
   needs="a + of a lazy list with known size (numbers(n).map(...)) and another list of known size, together at most 16 items: building the pipeline evaluates every closure, consumers behind the + see full demand and later errors",
   demo=("value", "TestC08c"), ran=["C08"], first="caught by C08 quick (pipeline only built: calls must be 0; demand bound)", strengthened=""),
 "C09c": dict(change="value/list.go CombineN: when the ring buffer is already in order it is wrapped without a copy",
   needs="a combineN function that retains the window (returns it, stores it) and a source longer than n: every n-th window shares the ring buffer and changes later",
   demo=("value", "TestC09c"), ran=["C09", "C07"], first="caught by C09 quick (exemplar F9-combineN-windows-alias-one-buffer and the search); C07 uses the windows at once and does not see it", strengthened=""),
 "C10c": dict(change="value/list.go Compact: lastPublished is declared once per list instead of once per iteration",
   needs="a compact list that outlives an evaluation and is iterated again by a consumer that does not cache it (~, indexWhere, map ...) after an iteration that ended on an item equal to its first item: the first item is dropped",
   demo=("value", "TestC10c"), ran=["C10", "C07", "C09"], first="missed by C10 (the program generator had no compact); caught by C07 (second evaluation with the same argument objects, added one round earlier) and C09",
   strengthened="lang generator: compact with an equivalence relation (equal, equal modulo 2)"),
 "C11c": dict(change="funcGen/generator.go Func.Eval: the evaluation stack is the caller's variadic slice itself instead of a copy",
   needs="an argument slice with spare capacity (rows of one argument table, a reused buffer), a program that pushes behind its arguments, and evaluations on the same or an adjacent slice: they overwrite each other's locals and the caller's table",
   demo=("value", "TestC11c"), ran=["C11", "C10"], first="missed by C11 and C10 (every evaluation got a freshly made argument slice)",
   strengthened="C10: with reuse_args the tuples of a program are rows of ONE table and the rows are passed (capacity reaching over the following rows); C11: arg_table - the arguments of all goroutines are rows of one table"),
 "C12c": dict(change="value/list.go guardProducer: an operand that delivers an error is no longer stopped behind that error",
   needs="a merge operand that fails at some item and has a long tail behind it: the evaluation returns the error, the operand is pulled to its end in the background",
   demo=("value", "TestC12c"), ran=["C12", "C05"], first="missed by C12 and C05 (sources of at most 1500 items drain within the grace period)",
   strengthened="C12: job error_path - merge operands/receivers that fail at the 3rd/4th item with 4 000 000 items behind them; 150 ms after the evaluation returned their counting closure must have stopped"),
 "C13c": dict(change="value/wrapper.go ToMap.Attr: iteration order is kept in a name slice to which a name registered again is appended again",
   needs="a NewToMap wrapper with an attribute name registered twice: Iter visits the key twice (list(), string(), export), Get and Size see it once",
   demo=("value", "TestC13c"), ran=["C13"], first="missed by C13 (attribute sets were de-duplicated before registration)",
   strengthened="C13: struct wrapper attributes are registered as drawn; a later registration of a name overrides the earlier one in the model"),
 "C14c": dict(change="value/value.go New(): <= and >= test equality first (variant of C05b, seeded independently)",
   needs="equal operands of a type without order (bool, list, map): true instead of an error",
   demo=("value", "TestC14c"), ran=["C14", "C05"], first="caught by C14 quick and C05 quick", strengthened=""),
 "C15c": dict(change="token.go run: a line feed no longer sets lastWasBlank",
   needs="comfort mode, an identifier and only line feeds (or a line comment) in front of '(': a\\n(b+1) parses as the call a(b+1) instead of a*(b+1)",
   demo=(".", "TestC15c"), ran=["C15", "C19"], first="missed by C15 and C19 (juxtaposed factors were only set off by one blank)",
   strengthened="C15 juxtaposition: the separator between juxtaposed factors is any white space (blank, LF, LF LF, tab, CR LF, CR, mixed); four exemplars"),
 "C16c": dict(change="funcGen/generator.go GenerateWithMap: the identifier resolver is cached per map name and never invalidated",
   needs="on one generator: GenerateWithMap with map name X, then AddConstant(k), then GenerateWithMap with X again and a map that has an attribute k: implicit mode reads the attribute instead of the constant",
   demo=("value", "TestC16c"), ran=["C16"], first="missed by C16 (constants were fixed when the generator was made)",
   strengthened="C16: late_constant - in a fifth of the cases a generator of its own first generates a function with the map name, then an attribute name of the program is registered as a constant; the reference and the explicit form treat it as the constant"),
 "C17c": dict(change="value/export/json.go jsonListExporter.Add: numbers that are direct list items are written as shortest float strings",
   needs="an Int of magnitude >= 1 000 000 as a direct list item: 1e+06 instead of 1000000 (digits lost above 2^53)",
   demo=("value/export", "TestC17c"), ran=["C17"], first="caught by C17 quick (large ints are generated)", strengthened=""),
 "C18c": dict(change="xmlWriter.writeEsc: strings without markup characters are written as they are",
   needs="a string with CR (or tab/LF/CR in an attribute) and none of < > & ' \": the white space is not written as a character reference and does not decode back",
   demo=("value/export", "TestC18c"), ran=["C18"], first="caught by C18 quick (exemplar F22-carriage-return-in-text and the search)", strengthened=""),
 "C19c": dict(change="funcGen/generator.go argsList.copyAndAdd: the redeclaration check of let compares against an empty copy and never fires",
   needs="two nested lets with the same name whose values are both non-constant: accepted, and the inner use reads the outer slot (let x=a; let x=b; x gives a)",
   demo=("example", "TestC19c"), ran=["C19", "C01"], first="missed by C19 and C01 (generators never declare a name twice in one function body: the unchanged tree rejects that)",
   strengthened="C19: enumerated forms let x=E1; let x=E2; E3 - every generator either rejects them as redeclaration or the inner declaration is the one in scope"),
 "C20c": dict(change="value/binning.go getDescr: the bin bounds are rounded to nks(size)+2 decimals",
   needs="a grid whose exact bounds have more decimals: a fine size (1/64) or a start much finer than the size (0.0625 with size 1): min/max of the description no longer match the bin",
   demo=("value", "TestC20c"), ran=["C20"], first="missed by C20 (axes started on a 1/4 grid with sizes >= 1/8)",
   strengthened="C20: a quarter of the axes are fine grids: start on a 1/1024 grid, sizes 1/64, 1/256, 1/1024"),
})

# ---- fourth round: three earlier changes known, asked for inputs a foreign generator would not produce ----
M.update({
 "C01d": dict(change="funcGen/optimizer.go: arity guard of the constant-closure call folding only rejects too few arguments (same slip as C02c/C05c, seeded independently)",
   needs="a constant pure closure called with too many constant arguments: folded to a value instead of the arity error",
   demo=("value", "TestC01d"), ran=["C01"], first="caught by C01 quick", strengthened=""),
 "C02d": dict(change="funcGen/generator.go Switch: the purity of the case label expressions no longer enters the purity of the switch",
   needs="an impure static function as a case LABEL inside a closure or func that captures nothing, applied to constants, optimizer on: the impure function runs during Generate and never again",
   demo=("value", "TestC02d"), ran=["C02"], first="missed by C02 (case labels were literals or small pure expressions)",
   strengthened="lang generator: inside closures that capture nothing 40 % of the int case labels are host calls ik(c)/pk(c), and switch is produced more often there (class host_call_in_a_case_label)"),
 "C03d": dict(change="token.go NewOperatorDetector: the remainder of an operator spelling is cut off by one BYTE instead of one character",
   needs="an operator table with an operator that contains a character outside ASCII: every expression using it is rejected",
   demo=(".", "TestC03d"), ran=["C03"], first="missed by C03 (operator alphabet was ASCII only)",
   strengthened="C03: the operator alphabet also holds the symbols <= (U+2264), and, not, approx, xor (U+2227 U+00AC U+2248 U+2295); spelling length is counted in characters"),
 "C04d": dict(change="parser2.go parseLet: the closure of a func statement is optimized with the internal helper that has no recover",
   needs="an argument independent sub-expression directly in the body of a func statement whose parse-time evaluation panics (self-application w(w) runs into the stack guard): the panic escapes Parse/Generate",
   demo=("value", "TestC04d"), ran=["C04", "C05"], first="missed by C04 and C05 (no generated constant panicked while being folded, none sat in a func body)",
   strengthened="inputs (C04, C12): hostile constants - 13 argument independent expressions that panic, fail or diverge when folded - in 22 grammar positions (func body, nested func body, let value, closure body, case label, catch branch ...), also as mutation seeds; C05: contexts funcBody, funcBodyNeverCalled, nestedFuncBody and the recursion fault 'constant self-application'"),
 "C05d": dict(change="value/map.go Map.Map: the error of the closure is assigned to a shadowed variable inside the Iter callback and lost",
   needs="a fault raised inside the closure of the map method OF A MAP ({a:1,b:0}.map((k,v)->6%v)): a truncated map instead of the error, not catchable",
   demo=("value", "TestC05d"), ran=["C05", "C07"], first="missed by C05 and C07 (faults were never placed in the closures of map methods)",
   strengthened="C05: contexts mapMethodMap, mapMethodAccept, mapMethodReplace, mapMethodCombine"),
 "C06d": dict(change="value/operations.go Add: two evaluated lists are concatenated by appending onto the left operand's slice without clipping it",
   needs="a left operand with spare capacity (evaluated item by item, result of append, group values) and two concatenations onto it that are alive at the same time or run on parallel workers",
   demo=("value", "TestC06d"), ran=["C06", "C09"], first="missed by C06 (stage closures never concatenate onto a captured evaluated list); caught by C09 quick (two derivations by + from one parent)",
   strengthened=""),
 "C07d": dict(change="value/map.go ReplaceMap.createFlat: a replacement map of the same size as the original is returned as the flattened result",
   needs="a chain of at least 11 replace calls and, at the flattening call, a replacement of the same size as the original with a key the original does not have",
   demo=("value", "TestC07d"), ran=["C07", "C13"], first="missed by C07 (no deep replace chains); caught by C13 quick",
   strengthened="C07: map method template numbers(8..13).mapReduce(m,(a,b)->a.replace(..)).replace(e->R) with replacement maps of 1..4 keys inside and outside the key set"),
 "C08d": dict(change="value/list.go Cross: the second list is materialised with Eval the first time it is needed again",
   needs="a cross whose second list is lazy and a short-circuit consumer whose decisive element lies in the second row: the whole inner pipeline runs, the demand bound is exceeded",
   demo=("value", "TestC08d"), ran=["C08"], first="missed by C08 (no cross in the counted pipelines)",
   strengthened="C08: cross_rows - in an eighth of the cases the counted list is the second operand of numbers(R).cross(.., (a,b)->b); the demand model repeats the inner sequence per row, every pull costs one call; exemplar"),
 "C09d": dict(change="value/list.go containsAllItems: ToSlice instead of CopyToSlice (the change C10 of round one, seeded independently for C09)",
   needs="list ~ list whose left operand is observed again",
   demo=("value", "TestC09d"), ran=["C09"], first="caught by C09 quick (observer operations added after round one)", strengthened=""),
 "C10d": dict(change="funcGen/generator.go MethodCall: a per-call-site flag switches the closure-field check off for good after the first map receiver without that key",
   needs="one call site m.name(..) executed on a map without the key first and on a map that stores a closure under name later (on the same generated function)",
   demo=("value", "TestC10d"), ran=["C10", "C01"], first="missed by C10 (the receiver of a closure-field call always had the field)",
   strengthened="lang generator: ONE call site (if cond then {v:.., get: s->..} else {v:..}).get('v') whose receiver has the closure field for some arguments only; C10 exemplar"),
 "C11d": dict(change="value/value.go createLowPass: the filter closure caches its coefficient in two variables shared by all uses of the closure",
   needs="a low pass filter built from constants (folded, shared by all evaluations), used through iirApply in overlapping evaluations on signals whose sampling intervals are not all identical",
   demo=("value", "TestC11d"), ran=["C11"], first="missed by C11 (generated programs never use library-built closures)",
   strengthened="C11: job library_closures - five fixed programs with constants the library builds (createLowPass, createInterpolation, linearReg, filter maps) on irregularly sampled signals; oracle: isolated evaluation of a fresh function; race detector"),
 "C12d": dict(change="token.go Tokenizer.Stop/run: Stop receives exactly one token and sets a flag instead of draining the channel",
   needs="parsing stops early and the character behind the offending token is a superscript digit (sent as two tokens) or starts an implicit multiplication in comfort mode: the tokenizer blocks in its second send",
   demo=("value", "TestC12d"), ran=["C12", "C04"], first="caught by C12 quick (token soups with superscripts)", strengthened=""),
 "C13d": dict(change="value/map.go Map.IsAvail: early false when more keys are requested than the map holds",
   needs="isAvail with more arguments than the map has entries, all of them keys of the map (so some are repeated)",
   demo=("value", "TestC13d"), ran=["C13"], first="missed by C13 (isAvail was only observed with one key)",
   strengthened="C13: observer isAvail with 2..5 keys, repeated keys included, against the single key observers"),
 "C14d": dict(change="value/list.go containsAllItems: ToSlice instead of CopyToSlice (third independent seeding of this change)",
   needs="list ~ list with the left operand observed again, or the same list on both sides",
   demo=("value", "TestC14d"), ran=["C14", "C09"], first="missed by C14 (the list form of ~ was not modelled: skipped); caught by C09 quick",
   strengthened="C14: model of the list form of ~ (every item of the left list is found in the right one, each right item serves once); with it a ~ a on the same object is checked"),
 "C15d": dict(change="token.go readStr: utf8.RuneError is rejected as invalid UTF-8 without looking at the width",
   needs="a string literal that contains the validly encoded character U+FFFD",
   demo=(".", "TestC15d"), ran=["C15"], first="caught by C15 quick (U+FFFD is in the weighted character set)", strengthened=""),
 "C16d": dict(change="parser2.go parseLet func branch: the rest of the scope is parsed with the resolver of the func BODY, so the parameters stay bound behind the func",
   needs="a func that is not folded (uses an attribute or is recursive) and, behind it in the same scope, an attribute named like one of its parameters",
   demo=("value", "TestC16d"), ran=["C16"], first="caught by C16 quick (attribute names collide with local names)", strengthened=""),
 "C17d": dict(change="value/export/json.go: the map exporter counts down m.Size() to place the commas",
   needs="a map whose Size() over-counts its entries - on the tree of that round a function map with a declared but absent key",
   demo=("value/export", "TestC17d"), ran=["C17", "C13"], first="missed by C17 and C13 (function maps with optional keys were excluded as a precondition) - the over-count it exploits is a genuine defect of the unchanged tree (F31, fixed); with that repair the demonstration passes, the change can no longer manifest through any map the library builds",
   strengthened="C13 creates function maps with declared but absent keys, the export trees of C17/C18 use them as a fourth map representation"),
 "C18d": dict(change="value/export/xml.go isSimpleMap: a type switch instead of ToMap/ToList - a list or map wrapped by a Link is no collection any more",
   needs="an XML export of a map with name keys and scalar values that also holds a Link around a list or map: the collection is written as one flat attribute",
   demo=("value/export", "TestC18d"), ran=["C18"], first="caught by C18 quick (Link wrappers around containers are generated)", strengthened=""),
 "C19d": dict(change="parser2.go parseUnary: opPos > 0 instead of >= 0",
   needs="an operator table in which the binary twin of a prefix operator is the FIRST (lowest priority) entry: -a^2 is grouped as (-a)^2",
   demo=("funcGen", "TestC19d"), ran=["C19", "C03"], first="missed by C19 (only the priorities of example/minimal.go); caught by C03 quick",
   strengthened="C19 float_sampled: a third of the cases use a permutation of the eight binary operators as declared priorities (a third of those with '-' first), generators rebuilt per case, optimizer on and off"),
 "C20d": dict(change="value/binning.go Binning2d: rows whose total is 0 share one list of zeros",
   needs="a two-dimensional binning in which the values of one x bin cancel to exactly 0 across different y bins",
   demo=("value", "TestC20d"), ran=["C20"], first="caught by C20 quick (negative weights, exact sums)", strengthened=""),
})

def results():
    res = {}
    p = "/verif/seeded/RESULTS.txt"
    if os.path.exists(p):
        for line in open(p):
            f = line.split()
            if len(f) >= 4 and f[0] == "SEED-RESULT":
                res.setdefault(f[1], {})[f[2]] = {"exit=1": "caught (VIOLATION)", "exit=0": "not caught", "exit=2": "inconclusive"}.get(f[3], f[3])
    return res


def main():
    if len(sys.argv) == 3 and sys.argv[1] == "--checks":
        print(" ".join(M[sys.argv[2]]["ran"]))
        return
    res = results()
    for k, m in M.items():
        d = f"/verif/seeded/{k}"
        if not os.path.exists(d + "/patch.diff"):
            continue
        prop = k[:3]
        found = sorted(f for f in os.listdir(d) if f.startswith("found_by_"))
        meta = {
            "property": prop,
            "origin": f"sub-agent that was given only the text of property {prop} and a scratch git worktree of /repo (/tmp/seed/{prop}); nothing from /verif"
                      + ("; second round: it was also told which change had been seeded before and asked for a different function and clause" if k.endswith("b") else ""),
            "change": m["change"],
            "needs_to_manifest": m["needs"],
            "demonstration": {"file": "demo_test.go", "package_dir": m["demo"][0], "run": m["demo"][1]},
            "what_i_ran": [
                f"tools/seed_verify.sh {k} /tmp/seed/{prop} patch.diff demo_test.go {m['demo'][0]} '{m['demo'][1]}': in the scratch worktree reset to HEAD the patch applies, builds, 'go1.26.8 test -count=1 ./...' passes with it (8 packages ok), the demonstration fails with it and passes without it",
                f"tools/seed_run.sh {k} quick {' '.join(m['ran'])}: git -C /repo apply patch.diff; ./check <ID> quick; git -C /repo checkout -- .",
            ],
            "first_result": m["first"],
            "strengthened": m["strengthened"],
            "final_result_quick": res.get(k, {}),
            "violation_exemplars": found,
        }
        json.dump(meta, open(d + "/meta.json", "w"), indent=1, ensure_ascii=False)
    table()
    print("ok")


def table():
    """seeded/README.md: the catch matrix (also pasted into DESIGN.md section 9.6)."""
    res = results()
    rows = ["| change | breaks | what it needs to manifest | first run of the checks | final (quick tier) |", "|---|---|---|---|---|"]
    for k in sorted(M):
        if not os.path.exists(f"/verif/seeded/{k}/patch.diff"):
            continue
        m = M[k]
        fin = ", ".join(f"{c}: {'caught' if r.startswith('caught') else r}" for c, r in sorted(res.get(k, {}).items())) or "-"
        first = m["first"] + (" -> strengthened: " + m["strengthened"] if m["strengthened"] else "")
        rows.append(f"| {k} | {k[:3]} | {m['change']}; needs {m['needs']} | {first} | {fin} |".replace("\n", " "))
    open("/verif/seeded/README.md", "w").write(
        "# Seeded changes and which check catches them\n\nGenerated by tools/seed_meta.py from its descriptions and seeded/RESULTS.txt "
        "(tools/seed_matrix.sh).\n\n" + "\n".join(rows) + "\n")


if __name__ == "__main__":
    main()
