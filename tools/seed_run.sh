#!/bin/bash
# usage: tools/seed_run.sh <seed-dir-name> <tier> <ID> [<ID> ...]
# Applies /verif/seeded/<name>/patch.diff to /repo's working tree, runs the given checks,
# and restores /repo (always). Prints one line per check: SEED-RESULT <name> <ID> exit=<n> <first VIOLATION line>
name=$1; tier=$2; shift 2
patch=/verif/seeded/$name/patch.diff
cd /repo || exit 2
if ! git diff --quiet HEAD; then echo "/repo working tree is dirty" >&2; exit 2; fi
restore() { git -C /repo checkout -q -- .; git -C /repo clean -fdq; }
trap restore EXIT
git apply "$patch" || { echo "patch does not apply" >&2; exit 2; }
cd /verif
mkdir -p /tmp/seedrun
for id in "$@"; do
  # evidence of a run against a modified tree is not evidence: keep the committed file
  cp evidence/$id.json /tmp/seedrun/$id.evidence.keep 2>/dev/null
  ./check $id $tier > /tmp/seedrun/$name.$id.log 2>&1
  rc=$?
  cp /tmp/seedrun/$id.evidence.keep evidence/$id.json 2>/dev/null
  echo "SEED-RESULT $name $id exit=$rc $(grep -m1 '^VIOLATION' /tmp/seedrun/$name.$id.log)"
  if [ $rc -eq 1 ]; then
    f=$(grep -m1 '^VIOLATION' /tmp/seedrun/$name.$id.log | sed 's/.*replay=//')
    [ -f "$f" ] && cp "$f" /verif/seeded/$name/found_by_$id.json
    python3 - "$f" <<'EOF'
import json,sys
try:
    d=json.load(open('/verif/'+sys.argv[1]) if not sys.argv[1].startswith('/') else open(sys.argv[1]))
    print('   message:', str(d.get('message'))[:600].replace('\n','\n      '))
except Exception as e:
    print('   (no readable replay file:', e, ')')
EOF
  fi
done
