#!/usr/bin/env python3
"""Rewrites the condensed catch matrix between the matrix markers of DESIGN.md (section 9.6)
from tools/seed_meta.py (descriptions) and seeded/RESULTS.txt (last run of seed_matrix.sh)."""
import os, re, sys
sys.path.insert(0, "/verif/tools")
import seed_meta

BEGIN, END = "<!-- matrix:begin -->", "<!-- matrix:end -->"


def short(txt, n):
    txt = txt.replace("|", "/")
    return txt if len(txt) <= n else txt[: n - 3].rsplit(" ", 1)[0] + "..."


def main():
    res = seed_meta.results()
    rows = ["| change | what is changed | first run | final run (quick) |", "|---|---|---|---|"]
    stats = {}
    for k in sorted(seed_meta.M):
        if not os.path.exists(f"/verif/seeded/{k}/patch.diff"):
            continue
        m = seed_meta.M[k]
        first = re.split(r" \(|;", m["first"])[0]
        fin = ", ".join(f"{c} {'caught' if r.startswith('caught') else r}" for c, r in sorted(res.get(k, {}).items())) or "-"
        rows.append(f"| {k} | {short(m['change'], 110)} | {short(first, 60)} | {fin} |")
        rnd = k[3:] or "a"
        st = stats.setdefault(rnd, [0, 0, 0])
        st[0] += 1
        own = res.get(k, {}).get(k[:3], "")
        if own.startswith("caught"):
            st[1] += 1
        if any(r.startswith("caught") for r in res.get(k, {}).values()):
            st[2] += 1
    summary = "; ".join(f"round {i + 1}: {v[1]} of {v[0]} caught by the property's own check, {v[2]} by some check" for i, (r, v) in enumerate(sorted(stats.items())))
    block = BEGIN + "\n\n" + "\n".join(rows) + "\n\nFinal run, " + summary + ".\n\n" + END
    p = "/verif/DESIGN.md"
    s = open(p).read()
    if BEGIN in s:
        s = s[: s.index(BEGIN)] + block + s[s.index(END) + len(END):]
    else:
        s = s.replace("@@MATRIX@@", block)
    open(p, "w").write(s)
    print(summary)


if __name__ == "__main__":
    main()
