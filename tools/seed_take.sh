#!/bin/bash
# usage: tools/seed_take.sh <name> <worktree-id> <pkgdir> <run-regexp> <tier> <ID> [<ID> ...]
# Takes /tmp/seed/out/<name>.patch.diff and .demo_test.go, confirms them in the scratch
# worktree /tmp/seed/<worktree-id> (seed_verify.sh), stores them as /verif/seeded/<name>/ and
# runs the given checks against the change (seed_run.sh).
name=$1; wid=$2; pkgdir=$3; run=$4; tier=$5; shift 5
out=/tmp/seed/out
/verif/tools/seed_verify.sh $name /tmp/seed/$wid $out/$name.patch.diff $out/$name.demo_test.go "$pkgdir" "$run" || exit 1
mkdir -p /verif/seeded/$name
cp $out/$name.patch.diff /verif/seeded/$name/patch.diff
cp $out/$name.demo_test.go /verif/seeded/$name/demo_test.go
/verif/tools/seed_run.sh $name $tier "$@"
for id in "$@"; do rm -rf /verif/replay/$id/found; done
