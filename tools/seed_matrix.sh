#!/bin/bash
# usage: tools/seed_matrix.sh <tier> [name ...]
# Runs every seeded change (or the named ones) against the checks listed for it in
# tools/seed_meta.py, one after the other, through seed_run.sh (apply the patch to /repo,
# run the check, restore /repo). The SEED-RESULT lines replace seeded/RESULTS.txt entries.
tier=${1:-quick}; shift
names="$@"
[ -z "$names" ] && names=$(cd /verif/seeded && ls -d C* | sort)
touch /verif/seeded/RESULTS.txt
for n in $names; do
  ids=$(python3 /verif/tools/seed_meta.py --checks $n) || continue
  grep -v "^SEED-RESULT $n " /verif/seeded/RESULTS.txt > /tmp/seed_results.tmp; mv /tmp/seed_results.tmp /verif/seeded/RESULTS.txt
  /verif/tools/seed_run.sh $n $tier $ids | tee -a /tmp/seed_matrix.log | grep "^SEED-RESULT" | sed 's/ replay=.*//' >> /verif/seeded/RESULTS.txt
  for id in $ids; do rm -rf /verif/replay/$id/found; done
done
sort -o /verif/seeded/RESULTS.txt /verif/seeded/RESULTS.txt
python3 /verif/tools/seed_meta.py
