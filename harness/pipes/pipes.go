// Package pipes generates lazy list pipelines (source -> lazy stages -> terminal) with
// a cost profile per closure, for the checks that quantify over pipelines and schedules
// (C06, C08, C12, and the contexts of C05).
package pipes

import (
	"fmt"

	"pgregory.net/rapid"

	. "verif/harness/lang"
)

// Stage of a pipeline.
type Stage struct {
	Name    string `json:"name"`
	Profile string `json:"profile,omitempty"` // fast probe slow slowTo jitter
	P       int    `json:"p,omitempty"`
	Other   *Spec  `json:"other,omitempty"` // second operand of merge, cross, +
	// Fail: the closure of this stage throws at the element with this value (-1: never)
	Fail int `json:"fail"`
	// Panic: the failing closure does not throw, it calls a host function that panics
	Panic bool `json:"panic,omitempty"`
	// LazyIndex: the closure reads its element through an index into a lazy list it builds
	// itself, numbers(3).number((i, k) -> k + e)[0] (the value is e; number evaluates its
	// closure on the stack it is handed): every call evaluates a list
	// of its own
	LazyIndex bool `json:"lazy_index,omitempty"`
}

// el is the element as the closure of this stage reads it.
func (st Stage) el(x *Expr) *Expr {
	if st.LazyIndex {
		return Index(MCall(SCall("numbers", Int(3)), "number", lam([]string{"i", "k"}, Bin("+", Var("k"), x))), Int(0))
	}
	return x
}

// Spec describes a pipeline.
type Spec struct {
	N        int     `json:"n"`      // numbers(N)
	Stages   []Stage `json:"stages"` // lazy stages
	Terminal Stage   `json:"terminal"`
}

var e, a, b, c, l, s = Var("e"), Var("a"), Var("b"), Var("c"), Var("l"), Var("s")

func lam(params []string, body *Expr) *Expr { return Lam(params, body) }

// wrap applies the cost profile to an element expression.
func wrap(profile string, x *Expr) *Expr {
	switch profile {
	case "probe":
		return SCall("probe", x)
	case "slow":
		return SCall("slow", x)
	case "slowTo":
		return SCall("slowTo", x, Int(14))
	case "jitter":
		return SCall("jitter", x)
	case "cnt":
		return SCall("cnt", x)
	}
	return x
}

// guard makes the closure body throw at the failing element.
func guard(st Stage, elem *Expr, body *Expr) *Expr {
	if st.Fail < 0 {
		return body
	}
	if st.Panic {
		return If(Bin("=", elem, Int(st.Fail)), Index(List(SCall("boom", Int(0)), body), Int(1)), body)
	}
	return If(Bin("=", elem, Int(st.Fail)), SCall("throw", Str("T#0#")), body)
}

func mod(x *Expr) *Expr { return Bin("%", x, Int(100003)) }

// apply builds the expression of one stage on the receiver.
func (st Stage) apply(recv *Expr) *Expr {
	w := func(x *Expr) *Expr { return wrap(st.Profile, st.el(x)) }
	switch st.Name {
	case "map":
		return MCall(recv, "map", lam([]string{"e"}, guard(st, e, mod(Bin("+", Bin("*", w(e), Int(3)), Int(1))))))
	case "accept":
		return MCall(recv, "accept", lam([]string{"e"}, guard(st, e, Bin("!=", Bin("%", w(e), Int(3)), Int(0)))))
	case "combine":
		return MCall(recv, "combine", lam([]string{"a", "b"}, guard(st, a, mod(Bin("+", Bin("*", w(a), Int(2)), b)))))
	case "combine3":
		return MCall(recv, "combine3", lam([]string{"a", "b", "c"}, guard(st, a, mod(Bin("+", Bin("+", w(a), Bin("*", b, Int(2))), Bin("*", c, Int(3)))))))
	case "combineN":
		return MCall(recv, "combineN", Int(2+st.P%3), lam([]string{"l"}, mod(w(MCall(l, "reduce", lam([]string{"a", "b"}, Bin("+", Bin("*", a, Int(2)), b)))))))
	case "iir":
		return MCall(recv, "iir", lam([]string{"e"}, w(e)), lam([]string{"a", "b"}, guard(st, a, mod(Bin("+", w(a), Bin("*", b, Int(2)))))))
	case "iirCombine":
		return MCall(recv, "iirCombine", lam([]string{"e"}, e), lam([]string{"a", "b", "c"}, guard(st, b, mod(Bin("+", Bin("-", w(b), a), Bin("*", c, Int(2)))))))
	case "number":
		return MCall(recv, "number", lam([]string{"a", "b"}, guard(st, b, mod(Bin("+", Bin("*", w(b), Int(5)), a)))))
	case "compact":
		return MCall(recv, "compact", lam([]string{"a", "b"}, guard(st, b, Bin("=", Bin("%", w(a), Int(4)), Bin("%", b, Int(4))))))
	case "cross":
		return MCall(recv, "cross", List(Int(1), Int(2)), lam([]string{"a", "b"}, guard(st, a, mod(Bin("+", Bin("*", w(a), Int(10)), b)))))
	case "merge":
		return MCall(recv, "merge", st.Other.ListExpr(), lam([]string{"a", "b"}, guard(st, a, Bin("<", w(a), b))))
	case "plus":
		return Bin("+", recv, st.Other.ListExpr())
	case "top":
		return MCall(recv, "top", Int(st.P))
	case "skip":
		return MCall(recv, "skip", Int(st.P))
	case "fsm":
		return MCall(MCall(recv, "fsm", lam([]string{"s", "e"}, guard(st, e, SCall("goto", Bin("%", Bin("+", Member(s, "state"), w(e)), Int(7)))))), "map",
			lam([]string{"e"}, Member(e, "state")))
	}
	panic("pipes: unknown stage " + st.Name)
}

// terminal builds the consuming expression.
func (st Stage) terminal(recv *Expr) *Expr {
	w := func(x *Expr) *Expr { return wrap(st.Profile, x) }
	switch st.Name {
	case "reduce":
		return MCall(recv, "reduce", lam([]string{"a", "b"}, guard(st, b, mod(Bin("+", Bin("*", a, Int(3)), w(b))))))
	case "mapReduce":
		return MCall(recv, "mapReduce", Int(7), lam([]string{"a", "b"}, guard(st, b, mod(Bin("+", Bin("*", a, Int(5)), w(b))))))
	case "sum":
		return MCall(recv, "sum")
	case "size":
		return MCall(recv, "size")
	case "string":
		return MCall(recv, "string")
	case "first":
		return MCall(recv, "first")
	case "last":
		return MCall(recv, "last")
	case "minMax":
		return MCall(recv, "minMax", lam([]string{"e"}, guard(st, e, Bin("%", w(e), Int(1000)))))
	case "visit":
		return MCall(recv, "visit", Int(0), lam([]string{"a", "b"}, guard(st, b, mod(Bin("+", Bin("*", a, Int(7)), w(b))))))
	case "order":
		return MCall(recv, "order", lam([]string{"e"}, w(e)))
	case "orderTop":
		return MCall(MCall(recv, "orderRev", lam([]string{"e"}, e)), "top", Int(5))
	case "groupByInt":
		return MCall(recv, "groupByInt", lam([]string{"e"}, Bin("%", w(e), Int(5))))
	case "multiUse":
		return MCall(recv, "multiUse", Map([]string{"n", "s", "t"}, []*Expr{
			lam([]string{"l"}, MCall(l, "size")),
			lam([]string{"l"}, MCall(MCall(l, "map", lam([]string{"e"}, mod(Bin("*", w(e), Int(2))))), "sum")),
			lam([]string{"l"}, MCall(MCall(l, "accept", lam([]string{"e"}, Bin("=", Bin("%", e, Int(2)), Int(0)))), "top", Int(3))),
		}))
	case "multiUseNested":
		// consumers that return lazy lists inside maps and lists: multiUse has to force them
		// while the source is fed, a failing element must still make the evaluation fail
		inner := func() *Expr { return MCall(l, "map", lam([]string{"e"}, guard(st, e, mod(Bin("*", w(e), Int(2)))))) }
		return MCall(recv, "multiUse", Map([]string{"a", "b", "c", "n"}, []*Expr{
			lam([]string{"l"}, Map([]string{"x"}, []*Expr{inner()})),
			lam([]string{"l"}, Map([]string{"k", "m"}, []*Expr{Int(1), Map([]string{"x"}, []*Expr{MCall(l, "accept", lam([]string{"e"}, guard(st, e, Bin("=", Bin("%", e, Int(2)), Int(0)))))})})),
			lam([]string{"l"}, List(Map([]string{"x"}, []*Expr{inner()}), Int(7))),
			lam([]string{"l"}, MCall(l, "size")),
		}))
	case "multiUseRejected":
		// error path: consumers that are fine, followed by an entry that multiUse rejects
		size := lam([]string{"l"}, MCall(l, "size"))
		sum := lam([]string{"l"}, MCall(l, "reduce", lam([]string{"a", "b"}, Bin("+", a, b))))
		switch st.P % 3 {
		case 0:
			return MCall(recv, "multiUse", Map([]string{"n", "bad"}, []*Expr{size, Int(3)}))
		case 1:
			return MCall(recv, "multiUse", Map([]string{"s", "bad"}, []*Expr{sum, lam([]string{"x", "y"}, Bin("*", Var("x"), Var("y")))}))
		}
		return MCall(recv, "multiUse", Map([]string{"n", "s", "bad"}, []*Expr{lam([]string{"l"}, MCall(l, "first")), sum, Str("c")}))
	case "multiUseListUsedTwice":
		// error path: a consumer uses its list a second time (that is an error) while the
		// other consumers still have work to do
		twice := lam([]string{"l"}, Bin("+", MCall(MCall(l, "map", lam([]string{"e"}, e)), "size"), MCall(MCall(l, "map", lam([]string{"e"}, e)), "size")))
		if st.P%2 == 1 {
			twice = lam([]string{"l"}, Bin("+", MCall(l, "first"), MCall(l, "first")))
		}
		return MCall(recv, "multiUse", Map([]string{"a", "b", "c"}, []*Expr{twice,
			lam([]string{"l"}, MCall(MCall(l, "map", lam([]string{"e"}, mod(Bin("*", w(e), Int(2))))), "sum")),
			lam([]string{"l"}, MCall(l, "size"))}))
	case "multiUseFailingConsumer":
		// error path: one consumer fails at once, the others still want the whole list
		return MCall(recv, "multiUse", Map([]string{"n", "f", "s"}, []*Expr{
			lam([]string{"l"}, MCall(l, "size")),
			lam([]string{"l"}, SCall("throw", Str("T#0#"))),
			lam([]string{"l"}, MCall(MCall(l, "map", lam([]string{"e"}, mod(Bin("*", w(e), Int(2))))), "sum")),
		}))
	case "list":
		return recv // the lazy list itself is the result (forced by the host)
	case "eval":
		return MCall(recv, "eval")
	case "topSize":
		return MCall(MCall(recv, "top", Int(st.P)), "size")
	case "present":
		return MCall(recv, "present", lam([]string{"e"}, guard(st, e, Bin("=", w(e), Int(st.P)))))
	case "indexWhere":
		return MCall(recv, "indexWhere", lam([]string{"e"}, guard(st, e, Bin("=", w(e), Int(st.P)))))
	}
	panic("pipes: unknown terminal " + st.Name)
}

// ListExpr is the lazy list of the pipeline (without the terminal).
func (sp *Spec) ListExpr() *Expr {
	var cur *Expr = SCall("numbers", Int(sp.N))
	for _, st := range sp.Stages {
		cur = st.apply(cur)
	}
	return cur
}

// Expr is the whole pipeline.
func (sp *Spec) Expr() *Expr { return sp.Terminal.terminal(sp.ListExpr()) }

var closureStages = []string{"map", "map", "accept", "combine", "combine3", "combineN", "iir", "iirCombine", "number", "compact", "cross", "merge", "fsm"}
var plainStages = []string{"top", "skip", "plus"}
var terminals = []string{"reduce", "mapReduce", "sum", "size", "string", "first", "last", "minMax", "visit", "order", "orderTop", "groupByInt", "multiUse", "multiUseNested", "list", "eval"}
var profiles = []string{"fast", "probe", "slow", "slowTo", "slowTo", "jitter"}

// Config steers the generator.
type PipeConfig struct {
	MaxN      int
	MaxStages int
	// Slow: cost profiles that force the switch to parallel execution may be used.
	Slow bool
	// FailPercent: chance that one closure throws at some element.
	FailPercent int
	// EarlyStop: prefer terminals that stop early (C12).
	EarlyStop bool
}

// Gen draws a pipeline.
func GenSpec(t *rapid.T, cfg PipeConfig, depth int) *Spec {
	sp := &Spec{}
	sp.N = rapid.IntRange(0, cfg.MaxN).Draw(t, "n")
	if rapid.IntRange(0, 3).Draw(t, "smallN") == 0 {
		sp.N = rapid.IntRange(0, 30).Draw(t, "n2")
	}
	ns := rapid.IntRange(0, cfg.MaxStages).Draw(t, "stages")
	size := sp.N // rough upper bound of the current length (cross multiplies)
	for i := 0; i < ns; i++ {
		st := Stage{Fail: -1}
		if rapid.IntRange(0, 4).Draw(t, "plain") == 0 {
			st.Name = plainStages[rapid.IntRange(0, len(plainStages)-1).Draw(t, "plainStage")]
		} else {
			st.Name = closureStages[rapid.IntRange(0, len(closureStages)-1).Draw(t, "stage")]
		}
		if st.Name == "cross" && size > 1500 {
			st.Name = "map"
		}
		if (st.Name == "merge" || st.Name == "plus") && depth <= 0 {
			st.Name = "accept"
		}
		st.Profile = "fast"
		if cfg.Slow {
			st.Profile = profiles[rapid.IntRange(0, len(profiles)-1).Draw(t, "profile")]
		} else if rapid.Bool().Draw(t, "probe") {
			st.Profile = "probe"
		}
		st.P = rapid.IntRange(0, 40).Draw(t, "p")
		st.LazyIndex = rapid.IntRange(0, 5).Draw(t, "lazyIndex") == 0
		if st.Name == "top" && rapid.Bool().Draw(t, "bigTop") {
			st.P = rapid.IntRange(0, cfg.MaxN).Draw(t, "topN")
		}
		switch st.Name {
		case "merge", "plus":
			sub := cfg
			sub.MaxStages = 2
			if sub.MaxN > 400 {
				sub.MaxN = 400
			}
			st.Other = GenSpec(t, sub, depth-1)
			st.Other.Terminal = Stage{Name: "list", Fail: -1}
			size += st.Other.N
		case "cross":
			size *= 2
		}
		sp.Stages = append(sp.Stages, st)
	}
	term := terminals
	if cfg.EarlyStop {
		term = []string{"first", "topSize", "present", "indexWhere", "first", "topSize", "size", "multiUse", "reduce", "multiUseRejected", "multiUseFailingConsumer", "multiUseListUsedTwice"}
	}
	sp.Terminal = Stage{Name: term[rapid.IntRange(0, len(term)-1).Draw(t, "terminal")], Fail: -1, Profile: "fast", P: rapid.IntRange(0, 60).Draw(t, "tp")}
	if cfg.Slow && rapid.IntRange(0, 3).Draw(t, "slowTerminal") == 0 {
		sp.Terminal.Profile = profiles[rapid.IntRange(0, len(profiles)-1).Draw(t, "tprofile")]
	}
	if sp.Terminal.Name == "string" && size > 300 {
		sp.Terminal.Name = "sum"
	}
	if rapid.IntRange(0, 99).Draw(t, "fail") < cfg.FailPercent && sp.N > 0 {
		// one closure fails at an element value that may or may not occur
		idx := rapid.IntRange(0, len(sp.Stages)).Draw(t, "failStage")
		v := rapid.IntRange(0, sp.N*2).Draw(t, "failValue")
		// (C12: in a third of these the closure panics in a host function instead of throwing)
		pan := cfg.EarlyStop && rapid.IntRange(0, 2).Draw(t, "failByPanic") == 0
		if idx == len(sp.Stages) {
			sp.Terminal.Fail, sp.Terminal.Panic = v, pan
		} else {
			sp.Stages[idx].Fail, sp.Stages[idx].Panic = v, pan
		}
	}
	return sp
}

// Describe summarises the pipeline.
func (sp *Spec) Describe() string {
	s := fmt.Sprintf("numbers(%d)", sp.N)
	for _, st := range sp.Stages {
		s += "." + st.Name
		if st.Profile != "" && st.Profile != "fast" {
			s += "<" + st.Profile + ">"
		}
	}
	s += "." + sp.Terminal.Name
	if sp.Terminal.Profile != "" && sp.Terminal.Profile != "fast" {
		s += "<" + sp.Terminal.Profile + ">"
	}
	return s
}

// HasSlow reports whether some closure uses a profile that can force the parallel switch.
func (sp *Spec) HasSlow() bool {
	for _, st := range sp.Stages {
		if st.Profile == "slow" || st.Profile == "slowTo" || st.Profile == "jitter" {
			return true
		}
		if st.Other != nil && st.Other.HasSlow() {
			return true
		}
	}
	return false
}

// ClosureStages counts the stages that call a closure.
func (sp *Spec) ClosureStages() int {
	n := 0
	for _, st := range sp.Stages {
		switch st.Name {
		case "top", "skip", "plus":
		default:
			n++
		}
		if st.Other != nil {
			n += st.Other.ClosureStages()
		}
	}
	return n
}

// HasLazyIndex reports whether a closure stage reads its element through an index into
// a lazy list of its own.
func (sp *Spec) HasLazyIndex() bool {
	for _, st := range sp.Stages {
		switch st.Name {
		case "top", "skip", "plus":
		default:
			if st.LazyIndex {
				return true
			}
		}
		if st.Other != nil && st.Other.HasLazyIndex() {
			return true
		}
	}
	return false
}

// Has reports whether a stage of the given name occurs (also in sub pipelines).
func (sp *Spec) Has(name string) bool {
	for _, st := range sp.Stages {
		if st.Name == name {
			return true
		}
		if st.Other != nil && st.Other.Has(name) {
			return true
		}
	}
	return sp.Terminal.Name == name
}
