// Package c15: token layout, comments and literal escapes do not change meaning.
package c15

import (
	"fmt"
	"regexp"
	"strconv"
	"strings"
	"testing"
	"unicode/utf8"

	"github.com/hneemann/parser2"
	"github.com/hneemann/parser2/example"
	"github.com/hneemann/parser2/funcGen"
	"github.com/hneemann/parser2/value"
	"pgregory.net/rapid"

	"verif/harness/astdump"
	"verif/harness/evid"
	"verif/harness/lang"
	"verif/harness/pratt"
)

const prop = "C15"

func newValueGen(comments bool) *value.FunctionGenerator {
	g := value.New()
	g.SetOptimizer(nil)
	if comments {
		g.GetParser().AllowComments()
	}
	return g
}

var genPlain = newValueGen(false)
var genComments = newValueGen(true)

func valueConst(v value.Value) string {
	switch x := v.(type) {
	case value.Int:
		return fmt.Sprintf("(num %q)", fmt.Sprint(int(x)))
	case value.Float:
		return fmt.Sprintf("(num %q)", lang.FloatLit(float64(x)))
	case value.String:
		return fmt.Sprintf("(str %q)", string(x))
	}
	return fmt.Sprintf("(const %v)", v)
}

// LayoutCase: a token list with one separator per gap (Seps[i] stands in front of
// token i; Seps[len(Toks)] is the trailer).
type LayoutCase struct {
	Toks     []pratt.Tok `json:"tokens"`
	Seps     []string    `json:"separators"`
	Comments bool        `json:"comments_enabled"`
	ArgNames []string    `json:"arg_names"`
}

func (c LayoutCase) text() (string, []int) {
	var b strings.Builder
	lines := make([]int, len(c.Toks))
	line := 1
	for i, t := range c.Toks {
		b.WriteString(c.Seps[i])
		line += strings.Count(c.Seps[i], "\n")
		lines[i] = line
		tt := pratt.TokText(t)
		b.WriteString(tt)
		line += strings.Count(tt, "\n")
	}
	b.WriteString(c.Seps[len(c.Toks)])
	return b.String(), lines
}

func parseDump(g *value.FunctionGenerator, text string, idents parser2.Identifiers[value.Value]) (dump string, lines []astdump.NodeLine, err error, pan string) {
	defer func() {
		if r := recover(); r != nil {
			pan = fmt.Sprint(r)
		}
	}()
	ast, err := g.CreateAst(text, idents)
	if err != nil {
		return "", nil, err, ""
	}
	d, l := astdump.DumpLines[value.Value](ast, valueConst)
	return d, l, nil, ""
}

var lineRe = regexp.MustCompile(`in line (\d+)`)

// checkLayout returns a failure message or "".
func checkLayout(c LayoutCase) string {
	g := genPlain
	if c.Comments {
		g = genComments
	}
	any := astdump.AnyIdent[value.Value]()
	canonical := lang.ValueTable.Join(c.Toks, true)
	want, _, err, pan := parseDump(g, canonical, any)
	if pan != "" || err != nil {
		return fmt.Sprintf("canonical layout %q does not parse: %v %s", canonical, err, pan)
	}
	// one token per line: the implementation itself tells which token a node refers to
	perLine := LayoutCase{Toks: c.Toks, Seps: make([]string, len(c.Toks)+1), Comments: c.Comments}
	for i := range perLine.Seps {
		if i > 0 {
			perLine.Seps[i] = "\n"
		}
	}
	plText, _ := perLine.text()
	_, tokenOf, err, pan := parseDump(g, plText, any)
	if pan != "" || err != nil {
		return fmt.Sprintf("one-token-per-line layout %q does not parse: %v %s", plText, err, pan)
	}
	text, lines := c.text()
	got, gotLines, err, pan := parseDump(g, text, any)
	if pan != "" {
		return fmt.Sprintf("layout variant %q panics: %s", text, pan)
	}
	if err != nil {
		return fmt.Sprintf("layout variant %q is rejected (%v) although the single-blank layout %q parses", text, err, canonical)
	}
	if got != want {
		return fmt.Sprintf("layout variant %q parses to %s, the single-blank layout %q to %s", text, got, canonical, want)
	}
	if len(gotLines) != len(tokenOf) {
		return "harness: node lists differ in length"
	}
	for i, nl := range gotLines {
		ti := tokenOf[i].Line - 1
		if ti < 0 || ti >= len(lines) {
			return fmt.Sprintf("node %s reports line %d in the one-token-per-line layout (%d tokens)", nl.Node, tokenOf[i].Line, len(lines))
		}
		if nl.Line != lines[ti] {
			return fmt.Sprintf("node %s (token %d) starts on line %d of %q but reports line %d", nl.Node, ti, lines[ti], text, nl.Line)
		}
	}
	// a syntax error must name the line of the offending token: a stray ')' as last token
	stray := LayoutCase{Toks: append(append([]pratt.Tok{}, c.Toks...), pratt.Tok{Kind: ")"}), Seps: append(append([]string{}, c.Seps...), ""), Comments: c.Comments}
	stray.Seps[len(c.Toks)] = c.Seps[len(c.Toks)]
	if stray.Seps[len(c.Toks)] == "" && len(c.Toks) > 0 {
		stray.Seps[len(c.Toks)] = " "
	}
	if strings.HasSuffix(stray.Seps[len(c.Toks)], "/") || lineCommentOpen(stray.Seps[len(c.Toks)]) {
		stray.Seps[len(c.Toks)] += "\n"
	}
	stText, stLines := stray.text()
	_, _, err, pan = parseDump(g, stText, any)
	if pan != "" {
		return fmt.Sprintf("input %q panics: %s", stText, pan)
	}
	if err == nil {
		return fmt.Sprintf("input %q with a stray ')' is accepted", stText)
	}
	if m := lineRe.FindStringSubmatch(err.Error()); m != nil {
		n, _ := strconv.Atoi(m[1])
		if n != stLines[len(stLines)-1] {
			return fmt.Sprintf("the stray ')' stands on line %d of %q, the error says: %v", stLines[len(stLines)-1], stText, err)
		}
	}
	return ""
}

// lineCommentOpen: the separator ends inside a line comment (no line break behind it).
func lineCommentOpen(sep string) bool {
	i := strings.LastIndex(sep, "//")
	if i < 0 {
		return false
	}
	return !strings.ContainsAny(sep[i:], "\n\r")
}

var commentChars = []string{"c", "x", " ", "\"", "'", "*", "/", "let", "(", "•", "1"}

func genComment(t *rapid.T, block bool) string {
	var b strings.Builder
	n := rapid.IntRange(0, 5).Draw(t, "commentLen")
	for i := 0; i < n; i++ {
		s := commentChars[rapid.IntRange(0, len(commentChars)-1).Draw(t, "commentChar")]
		if block && rapid.IntRange(0, 4).Draw(t, "commentBreak") == 0 {
			// line ends of every convention: only the line feed counts as a line break
			s = rapid.SampledFrom([]string{"\n", "\n", "\r\n", "\r"}).Draw(t, "commentBreakKind")
		}
		b.WriteString(s)
	}
	txt := b.String()
	if block {
		txt = strings.ReplaceAll(txt, "*/", "* /")
		if strings.HasSuffix(txt, "/") && false {
			txt += " "
		}
		return "/*" + txt + "*/"
	}
	return "//" + txt + "\n"
}

func genWhite(t *rapid.T) string {
	return rapid.SampledFrom([]string{" ", " ", "\t", "\n", "\r\n", "  ", " \n ", "\n\n", "\r"}).Draw(t, "white")
}

// genSep draws a separator. mayBeEmpty: no separator is lexically possible.
// prevSlash: the previous token ends with '/', so a comment must not follow tightly.
func genSep(t *rapid.T, comments, mayBeEmpty, prevSlash bool) string {
	k := rapid.IntRange(0, 9).Draw(t, "sepKind")
	if !comments && k >= 5 {
		k = 1
	}
	switch {
	case k == 0 && mayBeEmpty:
		return ""
	case k < 5:
		return genWhite(t)
	}
	// comments: tight against both neighbours, set off by blanks, two in a row
	var b strings.Builder
	if prevSlash || rapid.Bool().Draw(t, "blankBefore") {
		b.WriteString(genWhite(t))
	}
	b.WriteString(genComment(t, rapid.Bool().Draw(t, "block")))
	if k >= 8 {
		if rapid.Bool().Draw(t, "blankBetween") {
			b.WriteString(genWhite(t))
		}
		b.WriteString(genComment(t, rapid.Bool().Draw(t, "block2")))
	}
	if rapid.Bool().Draw(t, "blankAfter") {
		b.WriteString(genWhite(t))
	}
	return b.String()
}

func endsWithSlash(t pratt.Tok) bool {
	return strings.HasSuffix(pratt.TokText(t), "/")
}

func nontrivialSeps(seps []string) (bool, []string) {
	var cls []string
	nt := false
	for i, s := range seps {
		switch {
		case strings.Contains(s, "/*") || strings.Contains(s, "//"):
			nt = true
			cls = append(cls, "gap_with_comment")
			if !strings.ContainsAny(s[:1], " \t\r\n") && !strings.ContainsAny(s[len(s)-1:], " \t\r\n") {
				cls = append(cls, "comment_tight_on_both_sides")
			}
			if strings.Count(s, "/*")+strings.Count(s, "//") >= 2 {
				cls = append(cls, "two_comments_in_a_gap")
			}
			if strings.Contains(s, "\n") && strings.Contains(s, "/*") {
				cls = append(cls, "comment_or_gap_with_line_break")
			}
		case s == "" && i > 0 && i < len(seps)-1:
			nt = true
			cls = append(cls, "gap_without_separator")
		case strings.Contains(s, "\n"):
			nt = true
			cls = append(cls, "gap_with_line_break")
		}
	}
	return nt, cls
}

func dedup(s []string) []string {
	seen := map[string]bool{}
	var out []string
	for _, x := range s {
		if !seen[x] {
			seen[x] = true
			out = append(out, x)
		}
	}
	return out
}

func TestPropLayout(t *testing.T) {
	defer evid.R.Flush()
	cfg := lang.Config{MaxDepth: 4, MaxNodes: 30, FailPercent: 10}
	if evid.Thorough() {
		cfg.MaxDepth, cfg.MaxNodes = 6, 70
	}
	rapid.Check(t, func(t *rapid.T) {
		g := lang.NewGen(t, cfg)
		p := g.GenProgram()
		toks := lang.Tokens(p.Body)
		comments := rapid.IntRange(0, 3).Draw(t, "commentsEnabled") != 0
		c := LayoutCase{Toks: toks, Comments: comments, ArgNames: p.ArgNames}
		for i := 0; i <= len(toks); i++ {
			mayBeEmpty := i == 0 || i == len(toks) || !lang.ValueTable.NeedBlank(toks[i-1], toks[i])
			prevSlash := i > 0 && comments && endsWithSlash(toks[i-1])
			if i > 0 && i < len(toks) && comments && endsWithSlash(toks[i-1]) {
				// "/" directly followed by a token or comment starting with "/" or "*" would open a comment
				nt := pratt.TokText(toks[i])
				if strings.HasPrefix(nt, "/") || strings.HasPrefix(nt, "*") {
					mayBeEmpty = false
				}
			}
			c.Seps = append(c.Seps, genSep(t, comments, mayBeEmpty, prevSlash))
		}
		if msg := checkLayout(c); msg != "" {
			evid.Fail(t, prop, "layout", "", c, "%s", msg)
		}
		nt, cls := nontrivialSeps(c.Seps)
		if comments {
			cls = append(cls, "comments_enabled")
		} else {
			cls = append(cls, "comments_disabled")
		}
		text, _ := c.text()
		evid.R.Case(nt, text, func() any { return map[string]any{"kind": "layout", "comments_enabled": comments, "text": text} }, dedup(cls)...)
	})
}

// ---- comfort mode: layout and juxtaposition ----------------------------------------------

var comfortTable = pratt.Table{Bin: []string{"=", "<", ">", "+", "-", "*", "/", "^"}, Prefix: []string{"-"}}

func newComfortParser(comfort bool) *parser2.Parser[string] {
	p := parser2.NewParser[string]().
		SetNumberParser(parser2.NumberParserFunc[string](func(n string) (string, error) { return n, nil })).
		Comfort(comfort)
	p.Op(comfortTable.Bin...)
	p.Unary(comfortTable.Prefix...)
	return p
}

func constString(s string) string { return fmt.Sprintf("(num %q)", s) }

func parseComfort(p *parser2.Parser[string], text string) (string, error, string) {
	var pan string
	var dump string
	var err error
	func() {
		defer func() {
			if r := recover(); r != nil {
				pan = fmt.Sprint(r)
			}
		}()
		var ast parser2.AST
		ast, err = p.Parse(text, astdump.AnyIdent[string]())
		if err == nil {
			dump = astdump.Dump[string](ast, constString)
		}
	}()
	return dump, err, pan
}

// JuxtCase: explicit form as tokens; Drop lists the indices of '*' tokens that are
// omitted in the juxtaposed form; Sep is the separator written instead ("" or " ").
type JuxtCase struct {
	Toks []pratt.Tok    `json:"tokens"`
	Drop map[int]string `json:"dropped_mul"`
	Seps []string       `json:"separators"`
}

func (c JuxtCase) texts() (explicit, juxt string) {
	var a, b strings.Builder
	for i, t := range c.Toks {
		if i > 0 {
			a.WriteString(c.Seps[i])
		}
		a.WriteString(pratt.TokText(t))
		if sep, ok := c.Drop[i]; ok {
			b.WriteString(sep)
			continue
		}
		if i > 0 {
			if _, prevDropped := c.Drop[i-1]; !prevDropped {
				b.WriteString(c.Seps[i])
			}
		}
		b.WriteString(pratt.TokText(t))
	}
	return a.String(), b.String()
}

func checkJuxt(c JuxtCase) string {
	explicit, juxt := c.texts()
	for _, p := range []struct {
		name string
		f    func(string) (string, error, string)
	}{
		{"generic comfort parser", func(s string) (string, error, string) { return parseComfort(newComfortParser(true), s) }},
		{"example.minimal", func(s string) (d string, err error, pan string) {
			defer func() {
				if r := recover(); r != nil {
					pan = fmt.Sprint(r)
				}
			}()
			m := example.VerifMinimal()
			ast, err := m.CreateAst(s, astdump.AnyIdent[float64]())
			if err != nil {
				return "", err, ""
			}
			return astdump.Dump[float64](ast, func(f float64) string { return fmt.Sprintf("(num %q)", strconv.FormatFloat(f, 'g', -1, 64)) }), nil, ""
		}},
	} {
		want, err, pan := p.f(explicit)
		if err != nil || pan != "" {
			return fmt.Sprintf("%s: explicit form %q does not parse: %v %s", p.name, explicit, err, pan)
		}
		got, err, pan := p.f(juxt)
		if pan != "" {
			return fmt.Sprintf("%s: juxtaposed form %q panics: %s", p.name, juxt, pan)
		}
		if err != nil {
			return fmt.Sprintf("%s: juxtaposed form %q is rejected (%v), the explicit form %q parses", p.name, juxt, err, explicit)
		}
		if got != want {
			return fmt.Sprintf("%s: juxtaposed form %q parses to %s, explicit form %q to %s", p.name, juxt, got, explicit, want)
		}
	}
	return ""
}

type jnode struct {
	kind string
	text string
	kids []*jnode
}

func genJ(t *rapid.T, d int) *jnode {
	if d <= 0 || rapid.IntRange(0, 9).Draw(t, "leaf") < 3 {
		if rapid.Bool().Draw(t, "num") {
			return &jnode{kind: "num", text: rapid.SampledFrom([]string{"2", "3", "10", "0.5", "1.25"}).Draw(t, "n")}
		}
		return &jnode{kind: "id", text: rapid.SampledFrom([]string{"a", "b", "x", "y1", "pi"}).Draw(t, "i")}
	}
	k := rapid.IntRange(0, 9).Draw(t, "kind")
	switch {
	case k < 5:
		return &jnode{kind: "bin", text: "*", kids: []*jnode{genJ(t, d-1), genJ(t, d-1)}}
	case k < 8:
		return &jnode{kind: "bin", text: rapid.SampledFrom([]string{"+", "-", "/", "^", "<"}).Draw(t, "op"), kids: []*jnode{genJ(t, d-1), genJ(t, d-1)}}
	case k < 9:
		return &jnode{kind: "un", text: "-", kids: []*jnode{genJ(t, d-1)}}
	default:
		return &jnode{kind: "call", text: rapid.SampledFrom([]string{"sin", "sqr"}).Draw(t, "fn"), kids: []*jnode{genJ(t, d-1)}}
	}
}

func prio(op string) int {
	for i, o := range comfortTable.Bin {
		if o == op {
			return i
		}
	}
	return -1
}

// emitJ renders with the parentheses the grammar needs (unary minus operands and
// mixed priorities are simply parenthesised: juxtaposition is the subject here).
func emitJ(n *jnode, out *[]pratt.Tok, parent string, right bool) {
	wrap := false
	switch n.kind {
	case "bin":
		if parent == "un" || (parent != "" && parent != "arg" && (prio(n.text) < prio(parent) || (prio(n.text) == prio(parent) && right) || prio(n.text) != prio(parent))) {
			wrap = true
		}
	case "un":
		wrap = parent != "" && parent != "arg"
	}
	if wrap {
		*out = append(*out, pratt.Tok{Kind: "("})
	}
	switch n.kind {
	case "num", "id":
		*out = append(*out, pratt.Tok{Kind: n.kind, Text: n.text})
	case "bin":
		emitJ(n.kids[0], out, n.text, false)
		*out = append(*out, pratt.Tok{Kind: "op", Text: n.text})
		emitJ(n.kids[1], out, n.text, true)
	case "un":
		*out = append(*out, pratt.Tok{Kind: "op", Text: "-"})
		emitJ(n.kids[0], out, "un", true)
	case "call":
		*out = append(*out, pratt.Tok{Kind: "id", Text: n.text}, pratt.Tok{Kind: "(", Text: "call"})
		emitJ(n.kids[0], out, "arg", false)
		*out = append(*out, pratt.Tok{Kind: ")"})
	}
	if wrap {
		*out = append(*out, pratt.Tok{Kind: ")"})
	}
}

func TestPropJuxtaposition(t *testing.T) {
	defer evid.R.Flush()
	rapid.Check(t, func(t *rapid.T) {
		tree := genJ(t, rapid.IntRange(1, 4).Draw(t, "depth"))
		var toks []pratt.Tok
		emitJ(tree, &toks, "", false)
		c := JuxtCase{Toks: toks, Drop: map[int]string{}, Seps: make([]string, len(toks))}
		// explicit form: blanks everywhere except in front of a call's '(' (in comfort
		// mode a blank there means multiplication)
		for i := range toks {
			if i > 0 {
				c.Seps[i] = " "
				if toks[i].Kind == "(" && toks[i].Text == "call" {
					c.Seps[i] = ""
				}
			}
		}
		for i := range c.Toks {
			if c.Toks[i].Kind == "(" {
				c.Toks[i].Text = ""
			}
		}
		for i, tk := range toks {
			if tk.Kind != "op" || tk.Text != "*" || i == 0 || i+1 >= len(toks) {
				continue
			}
			l, r := toks[i-1], toks[i+1]
			lk := l.Kind
			rk := r.Kind
			leftOK := lk == "num" || lk == "id" || lk == ")"
			rightOK := rk == "num" || rk == "id" || rk == "("
			if !leftOK || !rightOK || !rapid.Bool().Draw(t, "dropMul") {
				continue
			}
			// which separators keep the tokens apart and still mean multiplication
			var seps []string
			switch {
			case rk == "(":
				if lk == "id" {
					seps = []string{" "} // "a(" is a call
				} else {
					seps = []string{"", " "}
				}
			case rk == "num":
				if lk == ")" {
					seps = []string{"", " "}
				} else {
					seps = []string{" "}
				}
			default: // identifier
				if lk == "id" {
					seps = []string{" "}
				} else if lk == "num" {
					if strings.HasPrefix(r.Text, "e") {
						seps = []string{" "}
					} else {
						seps = []string{"", " "}
					}
				} else {
					seps = []string{"", " "}
				}
			}
			c.Drop[i] = seps[rapid.IntRange(0, len(seps)-1).Draw(t, "juxtSep")]
			if c.Drop[i] == " " {
				// any white space sets the two factors apart like a blank does
				c.Drop[i] = rapid.SampledFrom([]string{" ", " ", " ", "\n", "\t", "\r\n", "  ", "\n\n", " \n", "\n ", "\r"}).Draw(t, "juxtWhite")
			}
		}
		if msg := checkJuxt(c); msg != "" {
			evid.Fail(t, prop, "juxt", "", c, "%s", msg)
		}
		_, juxt := c.texts()
		evid.R.Case(len(c.Drop) > 0, "juxt:"+juxt, func() any {
			e, j := c.texts()
			return map[string]any{"kind": "juxtaposition", "explicit": e, "juxtaposed": j}
		}, "juxtaposition")
	})
}

// ---- literals, quoted identifiers, aliases ---------------------------------------------------

type StringCase struct {
	S      string `json:"string"`
	Quoted bool   `json:"as_quoted_identifier"`
}

var hardRunes = []rune{'\\', '"', '\n', '\r', '\t', '\'', '/', '*', '•', '×', '÷', '–', 'ˆ', '²', '³', '⁰', 0x01, 0x07, 0x1f, 0x7f, ' ', 'a', 'n', 't', 'r',
	'ä', '€', 0x1F600, 0x2028, 0xFFFD, '(', ')', '{', ':', ';', ','}

func genString(t *rapid.T, quotedIdent bool) string {
	n := rapid.IntRange(0, 12).Draw(t, "len")
	var b strings.Builder
	for i := 0; i < n; i++ {
		var r rune
		if rapid.IntRange(0, 3).Draw(t, "hard") != 0 {
			r = hardRunes[rapid.IntRange(0, len(hardRunes)-1).Draw(t, "hr")]
		} else {
			r = rapid.Rune().Draw(t, "r")
		}
		if r == 0 || !utf8.ValidRune(r) {
			continue
		}
		if quotedIdent && (r == '\'' || r == '\n' || r == '\r') {
			continue
		}
		b.WriteRune(r)
	}
	return b.String()
}

func checkString(c StringCase) string {
	for _, g := range []*value.FunctionGenerator{genPlain, genComments} {
		if c.Quoted {
			src := "{'" + c.S + "':1}"
			f, _, err := g.Generate(src)
			if err != nil {
				return fmt.Sprintf("%q is rejected: %v", src, err)
			}
			v, err := f.Eval()
			if err != nil {
				return fmt.Sprintf("%q fails: %v", src, err)
			}
			m, ok := v.ToMap()
			if !ok {
				return fmt.Sprintf("%q is no map", src)
			}
			var keys []string
			m.Iter(func(k string, _ value.Value) bool { keys = append(keys, k); return true })
			if len(keys) != 1 || keys[0] != c.S {
				return fmt.Sprintf("%q has the keys %q, want exactly %q", src, keys, c.S)
			}
			continue
		}
		src := lang.QuoteStr(c.S)
		f, _, err := g.Generate(src)
		if err != nil {
			return fmt.Sprintf("literal %s (for the string %q) is rejected: %v", src, c.S, err)
		}
		v, err := f.Eval()
		if err != nil {
			return fmt.Sprintf("literal %s fails: %v", src, err)
		}
		if s, ok := v.(value.String); !ok || string(s) != c.S {
			return fmt.Sprintf("literal %s denotes %q, want %q", src, v, c.S)
		}
	}
	return ""
}

func TestPropStrings(t *testing.T) {
	defer evid.R.Flush()
	rapid.Check(t, func(t *rapid.T) {
		c := StringCase{Quoted: rapid.IntRange(0, 3).Draw(t, "quotedIdent") == 0}
		c.S = genString(t, c.Quoted)
		if msg := checkString(c); msg != "" {
			evid.Fail(t, prop, "strings", "", c, "%s", msg)
		}
		nt := strings.ContainsAny(c.S, "\\\"\n\r\t•×÷–ˆ²³/*") || strings.IndexFunc(c.S, func(r rune) bool { return r < 0x20 }) >= 0
		cls := "string_literal"
		if c.Quoted {
			cls = "quoted_identifier"
		}
		evid.R.Case(nt, fmt.Sprint(c.Quoted, c.S), func() any { return map[string]any{"kind": cls, "content": c.S} }, cls)
	})
}

// AliasCase: a token list; Alias[i] gives the typographic spelling of token i.
type AliasCase struct {
	Toks  []pratt.Tok    `json:"tokens"`
	Alias map[int]string `json:"alias_spelling"`
}

var aliasOf = map[string][]string{"*": {"•", "×"}, "/": {"÷"}, "-": {"–"}, "^": {"ˆ"}}
var superscripts = []string{"⁰", "¹", "²", "³", "⁴", "⁵", "⁶", "⁷", "⁸", "⁹"}

func (c AliasCase) texts() (ascii, typo string) {
	var a, b strings.Builder
	skip := false
	for i, t := range c.Toks {
		if i > 0 {
			a.WriteByte(' ')
		}
		a.WriteString(pratt.TokText(t))
		if skip {
			skip = false
			continue
		}
		if i > 0 {
			b.WriteByte(' ')
		}
		if s, ok := c.Alias[i]; ok {
			b.WriteString(s)
			if t.Kind == "op" && t.Text == "^" && strings.ContainsAny(s, "⁰¹²³⁴⁵⁶⁷⁸⁹") {
				skip = true // the superscript stands for "^" and the digit
			}
			continue
		}
		b.WriteString(pratt.TokText(t))
	}
	return a.String(), b.String()
}

func checkAlias(c AliasCase) string {
	ascii, typo := c.texts()
	any := astdump.AnyIdent[value.Value]()
	for _, g := range []*value.FunctionGenerator{genPlain, genComments} {
		want, _, err, pan := parseDump(g, ascii, any)
		if err != nil || pan != "" {
			return fmt.Sprintf("ASCII spelling %q does not parse: %v %s", ascii, err, pan)
		}
		got, _, err, pan := parseDump(g, typo, any)
		if pan != "" {
			return fmt.Sprintf("typographic spelling %q panics: %s", typo, pan)
		}
		if err != nil {
			return fmt.Sprintf("typographic spelling %q is rejected (%v), ASCII spelling %q parses", typo, err, ascii)
		}
		if got != want {
			return fmt.Sprintf("typographic spelling %q parses to %s, ASCII spelling %q to %s", typo, got, ascii, want)
		}
	}
	return ""
}

func TestPropAliases(t *testing.T) {
	defer evid.R.Flush()
	cfg := lang.Config{MaxDepth: 4, MaxNodes: 30, FailPercent: 5}
	rapid.Check(t, func(t *rapid.T) {
		g := lang.NewGen(t, cfg)
		p := g.GenProgram()
		// make sure the operators in question occur: wrap the body into an arithmetic frame
		body := lang.Bin("-", lang.Bin("*", lang.Var("x"), lang.Bin("^", lang.Var("x"), lang.Int(rapid.IntRange(0, 9).Draw(t, "exp")))),
			lang.Bin("/", lang.Index(lang.List(p.Body), lang.Int(0)), lang.Un("-", lang.Int(2))))
		toks := lang.Tokens(body)
		c := AliasCase{Toks: toks, Alias: map[int]string{}}
		for i, tk := range toks {
			if tk.Kind != "op" {
				continue
			}
			if al, ok := aliasOf[tk.Text]; ok && rapid.Bool().Draw(t, "useAlias") {
				c.Alias[i] = al[rapid.IntRange(0, len(al)-1).Draw(t, "which")]
				if tk.Text == "^" && i+1 < len(toks) && toks[i+1].Kind == "num" && len(toks[i+1].Text) == 1 && rapid.Bool().Draw(t, "superscript") {
					c.Alias[i] = superscripts[toks[i+1].Text[0]-'0']
				}
			}
		}
		if msg := checkAlias(c); msg != "" {
			evid.Fail(t, prop, "alias", "", c, "%s", msg)
		}
		_, typo := c.texts()
		evid.R.Case(len(c.Alias) > 0, "alias:"+typo, func() any {
			a, ty := c.texts()
			return map[string]any{"kind": "alias", "ascii": a, "typographic": ty}
		}, "alias_spelling")
	})
}

var _ = funcGen.NewEmptyStack[value.Value]

func TestReplay(t *testing.T) {
	for _, path := range evid.ReplayFiles("layout") {
		var c LayoutCase
		if _, err := evid.ReadFailure(path, &c); err != nil {
			t.Fatalf("cannot read %s: %v", path, err)
		}
		if msg := checkLayout(c); msg != "" {
			evid.ReplayFailed(t, path, msg)
		}
	}
	for _, path := range evid.ReplayFiles("juxt") {
		var c JuxtCase
		if _, err := evid.ReadFailure(path, &c); err != nil {
			t.Fatalf("cannot read %s: %v", path, err)
		}
		if msg := checkJuxt(c); msg != "" {
			evid.ReplayFailed(t, path, msg)
		}
	}
	for _, path := range evid.ReplayFiles("strings") {
		var c StringCase
		if _, err := evid.ReadFailure(path, &c); err != nil {
			t.Fatalf("cannot read %s: %v", path, err)
		}
		if msg := checkString(c); msg != "" {
			evid.ReplayFailed(t, path, msg)
		}
	}
	for _, path := range evid.ReplayFiles("alias") {
		var c AliasCase
		if _, err := evid.ReadFailure(path, &c); err != nil {
			t.Fatalf("cannot read %s: %v", path, err)
		}
		if msg := checkAlias(c); msg != "" {
			evid.ReplayFailed(t, path, msg)
		}
	}
}
