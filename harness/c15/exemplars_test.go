package c15

import (
	"os"
	"path/filepath"
	"testing"

	"verif/harness/evid"
	"verif/harness/pratt"
)

func id(s string) pratt.Tok  { return pratt.Tok{Kind: "id", Text: s} }
func op(s string) pratt.Tok  { return pratt.Tok{Kind: "op", Text: s} }
func kw(s string) pratt.Tok  { return pratt.Tok{Kind: "kw", Text: s} }
func pu(s string) pratt.Tok  { return pratt.Tok{Kind: s} }
func num(s string) pratt.Tok { return pratt.Tok{Kind: "num", Text: s} }

func TestMakeExemplars(t *testing.T) {
	dir := os.Getenv("VERIF_MAKE_EXEMPLARS")
	if dir == "" {
		t.Skip("VERIF_MAKE_EXEMPLARS not set")
	}
	layouts := map[string]LayoutCase{
		"F15-comment-behind-operator":      {Toks: []pratt.Tok{id("a"), op("+"), id("b")}, Seps: []string{"", "", "/*c*/", ""}, Comments: true},
		"F15-line-comment-behind-operator": {Toks: []pratt.Tok{id("a"), op("+"), id("b")}, Seps: []string{"", "", "//c\n", ""}, Comments: true},
		"F15-two-comments-in-a-row":        {Toks: []pratt.Tok{id("a"), op("+"), id("b")}, Seps: []string{"", " /*c*//*d*/ ", " ", ""}, Comments: true},
		"F15-comment-as-only-separator": {Toks: []pratt.Tok{kw("let"), id("x"), op("="), id("a"), pu(";"), id("x")},
			Seps: []string{"", "/*c*/", "", "", "", "", ""}, Comments: true},
		"F15-empty-comment-before-keyword": {Toks: []pratt.Tok{kw("if"), id("a"), kw("then"), id("b"), kw("else"), id("x")},
			Seps: []string{"", " ", "/**/", " ", " ", " ", ""}, Comments: true},
		"carriage-returns-inside-a-block-comment":     {Toks: []pratt.Tok{id("a"), op("+"), id("b"), op("*"), id("c")}, Seps: []string{"", "\r\n/* one\r\n   two\r three */\r\n", " ", "\r\n", " ", ""}, Comments: true},
		"F16-line-of-token-before-multiline-comment":  {Toks: []pratt.Tok{id("a"), op("+"), id("b")}, Seps: []string{"", "/*\n\n*/", "", ""}, Comments: true},
		"F16-line-of-number-before-multiline-comment": {Toks: []pratt.Tok{num("12"), op("+"), id("b")}, Seps: []string{"\n", "/*\n*/", "\n", "\n"}, Comments: true},
		"comment-at-end-of-input":                     {Toks: []pratt.Tok{id("a"), op("+"), id("b")}, Seps: []string{"", " ", " ", " // the end"}, Comments: true},
	}
	for name, c := range layouts {
		os.Setenv("VERIF_FAILFILE", filepath.Join(dir, name+".json"))
		evid.WriteFailure(evid.Failure{Property: prop, Test: "layout", Message: "regression exemplar", Case: c})
	}
	// a * ( b + 1 ) with the '*' omitted and only a line feed (two, a tab, CR LF) between the factors
	mul := []pratt.Tok{id("a"), op("*"), pu("("), id("b"), op("+"), num("1"), pu(")")}
	juxt := map[string]JuxtCase{}
	for name, sep := range map[string]string{"line-feed": "\n", "two-line-feeds": "\n\n", "tab": "\t", "cr-lf": "\r\n"} {
		juxt["factor-set-off-by-"+name] = JuxtCase{Toks: mul, Drop: map[int]string{1: sep}, Seps: []string{"", " ", " ", " ", " ", " ", " "}}
	}
	for name, c := range juxt {
		os.Setenv("VERIF_FAILFILE", filepath.Join(dir, name+".json"))
		evid.WriteFailure(evid.Failure{Property: prop, Test: "juxt", Message: "regression exemplar", Case: c})
	}
	strs := map[string]StringCase{
		"F17-alias-characters-in-string":            {S: "a×b÷c–d•eˆf"},
		"F17-alias-characters-in-quoted-identifier": {S: "a×b", Quoted: true},
		"escapes-round-trip":                        {S: "q\"b\\s\nn\rr\tt\\n"},
	}
	for name, c := range strs {
		os.Setenv("VERIF_FAILFILE", filepath.Join(dir, name+".json"))
		evid.WriteFailure(evid.Failure{Property: prop, Test: "strings", Message: "regression exemplar", Case: c})
	}
}
