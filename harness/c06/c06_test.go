// Package c06: lazy list pipelines give the sequential result under every parallel
// schedule (built with -race by the driver).
package c06

import (
	"fmt"
	"runtime"
	"testing"

	"pgregory.net/rapid"

	"verif/harness/evid"
	"verif/harness/host"
	"verif/harness/lang"
	"verif/harness/pipes"
	"verif/harness/progs"
	"verif/harness/ref"
)

const prop = "C06"

var impl = progs.NewImpl(true)
var state = host.NewState()

func init() { host.Register(impl, state) }

// Case: a pipeline and the schedule matrix it is run under.
type Case struct {
	Spec    *pipes.Spec `json:"spec"`
	Text    string      `json:"text"`
	Procs   []int       `json:"gomaxprocs"`
	Repeats int         `json:"repeats"`
	SleepUs int         `json:"sleep_us"`
}

type info struct {
	skip     string
	parallel bool
	failing  bool
	evals    int
}

// clearFail removes every failing closure of the sub-pipeline.
func clearFail(sp *pipes.Spec) {
	for i := range sp.Stages {
		sp.Stages[i].Fail = -1
		if sp.Stages[i].Other != nil {
			clearFail(sp.Stages[i].Other)
		}
	}
	sp.Terminal.Fail = -1
}

func normalise(sp *pipes.Spec) {
	// an error behind an early-stopping consumer's read-ahead window is not claimed:
	// failing elements only with completely consuming terminals
	if sp.Terminal.Name == "first" || sp.Terminal.Name == "orderTop" {
		clearFail(sp)
	}
	for i := range sp.Stages {
		if sp.Stages[i].Other != nil {
			normalise(sp.Stages[i].Other)
		}
	}
	for i := range sp.Stages {
		if sp.Stages[i].Name == "top" {
			// top stops early: what is in front of it may fail unnoticed (also inside the
			// sub-pipelines that earlier stages merge or concatenate: once a stage runs in
			// parallel its read-ahead reaches them - finding F27)
			for j := 0; j < i; j++ {
				sp.Stages[j].Fail = -1
				if sp.Stages[j].Other != nil {
					clearFail(sp.Stages[j].Other)
				}
			}
		}
	}
}

func check(c Case) (string, info) {
	var inf info
	body := c.Spec.Expr()
	pc := progs.Case{Prog: lang.Program{Body: body}, Text: c.Text}
	in := progs.NewRef()
	in.Budget = 30_000_000
	host.RegisterRef(in, host.NewState())
	want := progs.RefRun(in, pc)
	if why := progs.OutOfDomain(in, want); why != "" && why != "inexact_float_product" {
		inf.skip = why
		return "", inf
	}
	inf.failing = want.Err != nil
	f, _, err := impl.Generate(c.Text)
	if err != nil {
		return "Generate rejected the pipeline: " + err.Error(), inf
	}
	state.SleepUs.Store(int64(c.SleepUs))
	old := runtime.GOMAXPROCS(0)
	defer runtime.GOMAXPROCS(old)
	for _, procs := range c.Procs {
		runtime.GOMAXPROCS(procs)
		for r := 0; r < c.Repeats; r++ {
			state.Reset()
			me := host.Gid()
			got := progs.ImplEval(f, pc)
			inf.evals++
			if state.OffCaller(me) {
				inf.parallel = true
			}
			if wl, ok := want.Val.(*ref.List); ok && wl.Err != nil {
				// a failing element: only the fact that the evaluation fails is claimed,
				// not how many elements are delivered before the failure
				gl, isList := got.Val.(*ref.List)
				if got.Err != nil || (isList && gl.Err != nil) {
					continue
				}
				return fmt.Sprintf("GOMAXPROCS=%d, repetition %d: the sequential evaluation fails, the implementation returns %v\npipeline: %s", procs, r+1, got, c.Text), inf
			}
			if msg := progs.Compare(want, got, 0); msg != "" {
				return fmt.Sprintf("GOMAXPROCS=%d, repetition %d: %s\npipeline: %s", procs, r+1, msg, c.Text), inf
			}
		}
	}
	return "", inf
}

func TestPropC06(t *testing.T) {
	defer evid.R.Flush()
	defer evid.ClearPending()
	cfg := pipes.PipeConfig{MaxN: 2000, MaxStages: 6, Slow: true, FailPercent: 15}
	rapid.Check(t, func(t *rapid.T) {
		sp := pipes.GenSpec(t, cfg, 1)
		normalise(sp)
		c := Case{Spec: sp, Repeats: 1, SleepUs: rapid.SampledFrom([]int{250, 300, 400}).Draw(t, "sleepUs")}
		c.Text = lang.Render(sp.Expr())
		c.Procs = []int{rapid.SampledFrom([]int{1, 2, 4, 16}).Draw(t, "procs1"), rapid.SampledFrom([]int{2, 4, 16}).Draw(t, "procs2")}
		if evid.Thorough() {
			c.Procs = []int{1, 2, 4, 16}
			c.Repeats = 3
		}
		evid.Pending(prop, "c06", c)
		msg, inf := check(c)
		if inf.skip != "" {
			evid.R.Skip()
			evid.R.Class("skipped_" + inf.skip)
			return
		}
		if msg != "" {
			evid.Fail(t, prop, "c06", "", c, "%s", msg)
		}
		var cls []string
		if inf.parallel {
			cls = append(cls, "stage_closure_ran_on_another_goroutine")
		}
		if inf.failing {
			cls = append(cls, "failing_element")
		}
		for _, st := range sp.Stages {
			cls = append(cls, "stage_"+st.Name)
		}
		cls = append(cls, "terminal_"+sp.Terminal.Name)
		if sp.HasLazyIndex() {
			cls = append(cls, "closure_indexes_a_lazy_list_of_its_own")
		}
		nt := inf.parallel && sp.ClosureStages()+b2i(closureTerminal(sp.Terminal.Name)) >= 2
		evid.R.Case(nt, c.Text+fmt.Sprint(c.SleepUs), func() any {
			return map[string]any{"pipeline": sp.Describe(), "text": c.Text, "gomaxprocs": c.Procs, "repeats": c.Repeats}
		}, dedup(cls)...)
		evid.R.ClassN("evaluations_under_schedules", int64(inf.evals))
	})
}

func closureTerminal(n string) bool {
	switch n {
	case "reduce", "mapReduce", "minMax", "visit", "order", "groupByInt", "multiUse", "multiUseNested":
		return true
	}
	return false
}

func b2i(b bool) int {
	if b {
		return 1
	}
	return 0
}

func dedup(s []string) []string {
	seen := map[string]bool{}
	var out []string
	for _, x := range s {
		if !seen[x] {
			seen[x] = true
			out = append(out, x)
		}
	}
	return out
}

func TestReplay(t *testing.T) {
	for _, path := range evid.ReplayFiles("c06") {
		var c Case
		if _, err := evid.ReadFailure(path, &c); err != nil {
			t.Fatalf("cannot read %s: %v", path, err)
		}
		if c.Text == "" {
			c.Text = lang.Render(c.Spec.Expr())
		}
		if len(c.Procs) == 0 {
			c.Procs = []int{4, 16}
		}
		if c.Repeats < 3 {
			c.Repeats = 3
		}
		if msg, _ := check(c); msg != "" {
			evid.ReplayFailed(t, path, msg)
		} else {
			evid.ReplayPassed(path)
		}
	}
}
