package c06

import (
	"os"
	"path/filepath"
	"testing"

	"verif/harness/evid"
	"verif/harness/lang"
	"verif/harness/pipes"
)

func TestMakeExemplars(t *testing.T) {
	dir := os.Getenv("VERIF_MAKE_EXEMPLARS")
	if dir == "" {
		t.Skip("VERIF_MAKE_EXEMPLARS not set")
	}
	st := func(name, profile string) pipes.Stage { return pipes.Stage{Name: name, Profile: profile, Fail: -1} }
	other := &pipes.Spec{N: 300, Stages: []pipes.Stage{st("combine", "fast")}, Terminal: st("list", "")}
	specs := map[string]*pipes.Spec{
		"F7-closure-stage-in-front-of-a-parallel-map": {N: 2000, Stages: []pipes.Stage{st("combine", "fast"), st("map", "slow")}, Terminal: st("reduce", "fast")},
		"F7-closure-stage-behind-a-parallel-accept":   {N: 1500, Stages: []pipes.Stage{st("number", "fast"), st("accept", "slowTo"), st("combine3", "fast")}, Terminal: st("visit", "fast")},
		"F7-merge-operands-with-closures":             {N: 600, Stages: []pipes.Stage{st("combine", "fast"), {Name: "merge", Profile: "fast", Other: other, Fail: -1}}, Terminal: st("reduce", "fast")},
		"F5a-failing-fsm-inside-a-merge-operand": {N: 466, Stages: []pipes.Stage{{Name: "fsm", Profile: "slowTo", Fail: 200}, st("map", "probe"),
			{Name: "merge", Profile: "fast", Other: &pipes.Spec{N: 100, Stages: []pipes.Stage{{Name: "fsm", Profile: "slowTo", Fail: 50}, st("map", "slowTo"), st("number", "fast")}, Terminal: st("list", "")}, Fail: -1}},
			Terminal: st("minMax", "fast")},
	}
	for name, sp := range specs {
		c := Case{Spec: sp, Text: lang.Render(sp.Expr()), Procs: []int{2, 4, 16}, Repeats: 3, SleepUs: 300}
		os.Setenv("VERIF_FAILFILE", filepath.Join(dir, name+".json"))
		evid.WriteFailure(evid.Failure{Property: prop, Test: "c06", Message: "regression exemplar: " + c.Text, Case: c})
	}
}
