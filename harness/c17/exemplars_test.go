package c17

import (
	"os"
	"path/filepath"
	"testing"

	"verif/harness/evid"
	"verif/harness/vtree"
)

func TestMakeExemplars(t *testing.T) {
	dir := os.Getenv("VERIF_MAKE_EXEMPLARS")
	if dir == "" {
		t.Skip("VERIF_MAKE_EXEMPLARS not set")
	}
	str := func(s string) vtree.Tree { return vtree.Tree{K: "str", S: s} }
	cases := map[string]Case{
		"F20-backslash":          {Tree: vtree.Tree{K: "list", X: []vtree.Tree{str("a\\b"), str("end\\")}}},
		"F20-control-characters": {Tree: vtree.Tree{K: "map", Keys: []string{"k\x01", "b\\"}, X: []vtree.Tree{str("\x00\x01\x1f\x7f"), str("\b\f")}}},
		"quotes-and-unicode":     {Tree: vtree.Tree{K: "list", Rep: 1, X: []vtree.Tree{str("q\"q"), str("  �😀"), {K: "float", F: 1e21}}}},
	}
	for name, c := range cases {
		os.Setenv("VERIF_FAILFILE", filepath.Join(dir, name+".json"))
		evid.WriteFailure(evid.Failure{Property: prop, Test: "c17", Message: "regression exemplar", Case: c})
	}
}
