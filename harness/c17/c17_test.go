// Package c17: JSON export is always valid JSON that preserves structure and text.
package c17

import (
	"bytes"
	"encoding/json"
	"fmt"
	"io"
	"strings"
	"testing"

	"github.com/hneemann/parser2/funcGen"
	"github.com/hneemann/parser2/value"
	"github.com/hneemann/parser2/value/export"
	"pgregory.net/rapid"

	"verif/harness/evid"
	"verif/harness/vtree"
)

const prop = "C17"

type Case struct {
	Tree vtree.Tree `json:"tree"`
}

func exportJSON(v value.Value) (out []byte, err error, pan string) {
	defer func() {
		if r := recover(); r != nil {
			pan = fmt.Sprint(r)
		}
	}()
	ex := export.JSON()
	err = export.Export(funcGen.NewEmptyStack[value.Value](), v, ex)
	return ex.Result(), err, ""
}

// decode walks the token stream (so that duplicate keys are seen) and compares it
// with the tree.
func decode(dec *json.Decoder, t vtree.Tree, path string) string {
	tok, err := dec.Token()
	if err != nil {
		return fmt.Sprintf("at %s: %v", path, err)
	}
	switch t.K {
	case "list":
		if d, ok := tok.(json.Delim); !ok || d != '[' {
			return fmt.Sprintf("at %s: a list is exported as %v", path, tok)
		}
		for i, x := range t.X {
			if !dec.More() {
				return fmt.Sprintf("at %s: the array ends after %d of %d elements", path, i, len(t.X))
			}
			if m := decode(dec, x, fmt.Sprintf("%s[%d]", path, i)); m != "" {
				return m
			}
		}
		if dec.More() {
			return fmt.Sprintf("at %s: the array has more than %d elements", path, len(t.X))
		}
		_, err := dec.Token()
		if err != nil {
			return fmt.Sprintf("at %s: %v", path, err)
		}
		return ""
	case "map":
		if d, ok := tok.(json.Delim); !ok || d != '{' {
			return fmt.Sprintf("at %s: a map is exported as %v", path, tok)
		}
		want := map[string]vtree.Tree{}
		for i, k := range t.Keys {
			want[k] = t.X[i]
		}
		seen := map[string]bool{}
		for dec.More() {
			kt, err := dec.Token()
			if err != nil {
				return fmt.Sprintf("at %s: %v", path, err)
			}
			k, ok := kt.(string)
			if !ok {
				return fmt.Sprintf("at %s: key token %v", path, kt)
			}
			if seen[k] {
				return fmt.Sprintf("at %s: the key %q occurs twice", path, k)
			}
			seen[k] = true
			sub, ok := want[k]
			if !ok {
				return fmt.Sprintf("at %s: the object has the key %q, the map has the keys %q", path, k, t.Keys)
			}
			if m := decode(dec, sub, path+"."+k); m != "" {
				return m
			}
		}
		if len(seen) != len(want) {
			return fmt.Sprintf("at %s: the object has %d keys, the map %d", path, len(seen), len(want))
		}
		_, err := dec.Token()
		if err != nil {
			return fmt.Sprintf("at %s: %v", path, err)
		}
		return ""
	case "format", "link":
		// wrappers are transparent for the JSON export
		return decodeTok(tok, dec, t.X[0], path)
	}
	s, ok := tok.(string)
	if !ok {
		return fmt.Sprintf("at %s: the scalar %q is exported as %v (%T), want the JSON string of its string form", path, t.ScalarString(), tok, tok)
	}
	if s != t.ScalarString() {
		return fmt.Sprintf("at %s: the string %q decodes to %q", path, t.ScalarString(), s)
	}
	return ""
}

// decodeTok continues decoding with an already read token.
func decodeTok(tok json.Token, dec *json.Decoder, t vtree.Tree, path string) string {
	// re-dispatch: only scalars are generated below wrappers in this check
	s, ok := tok.(string)
	if !ok || s != t.ScalarString() {
		return fmt.Sprintf("at %s: wrapped scalar %q is exported as %v", path, t.ScalarString(), tok)
	}
	return ""
}

// the document of the previous case and a copy of its content
var prevDoc []byte
var prevCopy string

func check(c Case) string {
	v := c.Tree.Impl()
	out, err, pan := exportJSON(v)
	if pan != "" {
		return "the JSON export panics: " + pan
	}
	if err != nil {
		return "the JSON export fails: " + err.Error()
	}
	// a document that was returned stays what it was when further documents are exported
	if prevDoc != nil && string(prevDoc) != prevCopy {
		return fmt.Sprintf("the document returned by the PREVIOUS export changed while this value was exported: it was %q, now it is %q", prevCopy, prevDoc)
	}
	prevDoc, prevCopy = out, string(out)
	// exporting does not consume or change the value: the second export is the first
	if again, err2, pan2 := exportJSON(v); pan2 != "" || err2 != nil || !bytes.Equal(out, again) {
		return fmt.Sprintf("the second export of the same value differs: %q, then %q (%v %s)", out, again, err2, pan2)
	}
	if !json.Valid(out) {
		var v any
		e := json.Unmarshal(out, &v)
		return fmt.Sprintf("the exported document %q is not valid JSON: %v", out, e)
	}
	dec := json.NewDecoder(bytes.NewReader(out))
	if m := decode(dec, c.Tree, "$"); m != "" {
		return fmt.Sprintf("%s; document %q", m, out)
	}
	if _, err := dec.Token(); err != io.EOF {
		return fmt.Sprintf("trailing data in document %q", out)
	}
	return ""
}

func needsEscape(s string) bool {
	return strings.ContainsAny(s, "\\\"") || strings.IndexFunc(s, func(r rune) bool { return r < 0x20 || r == 0x7f || r == 0x2028 || r == 0x2029 }) >= 0
}

func TestPropC17(t *testing.T) {
	defer evid.R.Flush()
	rapid.Check(t, func(t *rapid.T) {
		tree := vtree.Gen(t, vtree.AnyUTF8, rapid.IntRange(0, 5).Draw(t, "depth"), false)
		c := Case{Tree: tree}
		if msg := check(c); msg != "" {
			evid.Fail(t, prop, "c17", "", c, "%s", msg)
		}
		esc := false
		tree.Strings(func(s string, isKey bool) {
			if needsEscape(s) {
				esc = true
			}
		})
		var cls []string
		if esc {
			cls = append(cls, "string_or_key_needs_escape")
		}
		if tree.Depth() >= 3 {
			cls = append(cls, "depth_3plus")
		}
		out, _, _ := exportJSON(tree.Impl())
		evid.R.Case(esc || tree.Depth() >= 3, string(out), func() any { return map[string]any{"json": string(out)} }, cls...)
	})
}

// FuzzStrings: byte-level fuzzing of one string inside a list and as a key.
func FuzzStrings(f *testing.F) {
	for _, s := range []string{"", "a\\b", "q\"q", "\x01", " ", "tab\t", "\x7f", "é😀"} {
		f.Add(s)
	}
	f.Fuzz(func(t *testing.T, s string) {
		if !strings.ContainsRune(s, 0xfffd) && strings.ToValidUTF8(s, "�") != s {
			return // strings are valid UTF-8 text
		}
		if strings.ToValidUTF8(s, "") != s {
			return
		}
		c := Case{Tree: vtree.Tree{K: "list", X: []vtree.Tree{{K: "str", S: s}, {K: "map", Keys: []string{s}, X: []vtree.Tree{{K: "str", S: s}}}}}}
		if msg := check(c); msg != "" {
			evid.WriteFailure(evid.Failure{Property: prop, Test: "c17", Message: msg, Case: c})
			t.Fatal(msg)
		}
	})
}

func TestConvertFuzz(t *testing.T) {
	t.Skip("the fuzz target writes its own replay file")
}

func TestReplay(t *testing.T) {
	for _, path := range evid.ReplayFiles("c17") {
		var c Case
		if _, err := evid.ReadFailure(path, &c); err != nil {
			t.Fatalf("cannot read %s: %v", path, err)
		}
		if msg := check(c); msg != "" {
			evid.ReplayFailed(t, path, msg)
		}
	}
}
