// Package c04: parsing is total - any input yields an AST or an error, never a panic
// or a hang.
package c04

import (
	"encoding/base64"
	"fmt"
	"io"
	"log"
	"math"
	"strconv"
	"strings"
	"testing"
	"time"
	"unicode/utf8"

	"github.com/hneemann/parser2"
	"github.com/hneemann/parser2/funcGen"
	"github.com/hneemann/parser2/value"
	"pgregory.net/rapid"

	"verif/harness/astdump"
	"verif/harness/evid"
	"verif/harness/inputs"
)

const prop = "C04"

func init() { log.SetOutput(io.Discard) }

// Case: an input (base64, it may be any byte string) and a parser configuration.
type Case struct {
	Input  string `json:"input_base64"`
	Config int    `json:"config"`
	Shown  string `json:"input_quoted,omitempty"`
}

func newCase(input string, cfg int) Case {
	sh := input
	if len(sh) > 200 {
		sh = sh[:200] + "..."
	}
	return Case{Input: base64.StdEncoding.EncodeToString([]byte(input)), Config: cfg, Shown: strconv.Quote(sh)}
}

func (c Case) text() string {
	b, _ := base64.StdEncoding.DecodeString(c.Input)
	return string(b)
}

type config struct {
	name string
	run  func(text string) error // returns the error value of Parse/Generate (nil = accepted)
}

func newFloatGen(comfort bool) *funcGen.FunctionGenerator[float64] {
	return funcGen.New[float64]().
		SetComfort(comfort).
		AddConstant("pi", math.Pi).
		AddSimpleOp("=", false, func(a, b float64) (float64, error) { return 0, nil }).
		AddSimpleOp("<", false, func(a, b float64) (float64, error) { return 0, nil }).
		AddSimpleOp("+", true, func(a, b float64) (float64, error) { return a + b, nil }).
		AddSimpleOp("-", false, func(a, b float64) (float64, error) { return a - b, nil }).
		AddSimpleOp("*", true, func(a, b float64) (float64, error) { return a * b, nil }).
		AddSimpleOp("/", false, func(a, b float64) (float64, error) { return a / b, nil }).
		AddSimpleOp("^", false, func(a, b float64) (float64, error) { return math.Pow(a, b), nil }).
		AddUnaryFunc("-", func(a float64) (float64, error) { return -a, nil }).
		AddSimpleFunction("sin", math.Sin).
		AddSimpleFunction("sqr", func(x float64) float64 { return x * x }).
		SetToBool(func(c float64) (bool, bool) { return c != 0, true }).
		SetKeyWords("let", "if", "then", "else", "func").
		SetNumberParser(parser2.NumberParserFunc[float64](func(n string) (float64, error) { return strconv.ParseFloat(n, 64) }))
}

func newBoolGen() *funcGen.FunctionGenerator[bool] {
	return funcGen.New[bool]().
		AddConstant("false", false).
		AddConstant("true", true).
		AddSimpleOp("^", true, func(a, b bool) (bool, error) { return a != b, nil }).
		AddSimpleOp("=", true, func(a, b bool) (bool, error) { return a == b, nil }).
		AddSimpleOp("|", true, func(a, b bool) (bool, error) { return a || b, nil }).
		AddSimpleOp("&", true, func(a, b bool) (bool, error) { return a && b, nil }).
		AddUnaryFunc("!", func(a bool) (bool, error) { return !a, nil }).
		SetToBool(func(c bool) (bool, bool) { return c, true })
}

func genericParser(bin []string, prefix []string, comments, comfort bool, alias map[string]string) *parser2.Parser[string] {
	p := parser2.NewParser[string]().
		SetNumberParser(parser2.NumberParserFunc[string](func(n string) (string, error) { return n, nil })).
		SetStringConverter(parser2.StringConverterFunc[string](func(s string) string { return s })).
		SetKeyWords("let", "if", "then", "else", "try", "catch", "switch", "case", "default", "func").
		Comfort(comfort)
	p.Op(bin...)
	p.Unary(prefix...)
	if comments {
		p.AllowComments()
	}
	if alias != nil {
		p.TextOperator(alias)
	}
	return p
}

var configs []config

// evalOff: generate without optimizer and evaluate once (finding F33, see check).
var evalOff func(text string) error

func init() {
	vOn := value.New()
	vOnC := value.New()
	vOnC.GetParser().AllowComments()
	vOff := value.New()
	vOff.SetOptimizer(nil)
	vOff.GetParser().AllowComments()
	fC := newFloatGen(true)
	fN := newFloatGen(false)
	bG := newBoolGen()
	evalOff = func(s string) error {
		f, _, err := vOff.Generate(s, "x", "y")
		if err != nil {
			return err
		}
		_, err = f.Eval(value.Int(0), value.Int(0))
		return err
	}
	gen := func(g *value.FunctionGenerator) func(string) error {
		return func(s string) error { _, _, err := g.Generate(s, "x", "y"); return err }
	}
	configs = []config{
		{"value.New().Generate", gen(vOn)},
		{"value.New()+comments .Generate", gen(vOnC)},
		{"value.New()+comments, no optimizer .Generate", gen(vOff)},
		{"value.New().GenerateWithMap", func(s string) error { _, _, err := vOnC.GenerateWithMap(s, "m"); return err }},
		{"float generator, comfort on", func(s string) error { _, _, err := fC.Generate(s, "x", "y"); return err }},
		{"float generator, comfort off", func(s string) error { _, _, err := fN.Generate(s, "x", "y"); return err }},
		{"bool generator", func(s string) error { _, _, err := bG.Generate(s, "a", "b"); return err }},
		{"generic parser, operators < << <= <<= + - * prefix - ! ~, comments, comfort", func(s string) error {
			_, err := genericParser([]string{"<", "<<", "<=", "<<=", "+", "-", "*"}, []string{"-", "!", "~"}, true, true, map[string]string{"plus": "+"}).Parse(s, astdump.AnyIdent[string]())
			return err
		}},
		{"generic parser, one operator that is also prefix", func(s string) error {
			_, err := genericParser([]string{"-"}, []string{"-"}, false, false, nil).Parse(s, astdump.AnyIdent[string]())
			return err
		}},
		{"generic parser, no identifiers known", func(s string) error {
			_, err := genericParser([]string{"+", "*", "->", "="}, []string{"+"}, true, false, nil).Parse(s, nil)
			return err
		}},
	}
}

type verdict struct {
	accepted bool
	panic    string
	hang     bool
	seconds  float64
}

// runOne runs the parser under recover and a watchdog.
func runOne(cfg config, text string, limit time.Duration) verdict {
	done := make(chan verdict, 1)
	start := time.Now()
	go func() {
		var v verdict
		defer func() {
			if r := recover(); r != nil {
				v.panic = fmt.Sprint(r)
			}
			v.seconds = time.Since(start).Seconds()
			done <- v
		}()
		v.accepted = cfg.run(text) == nil
	}()
	select {
	case v := <-done:
		return v
	case <-time.After(limit):
		return verdict{hang: true, seconds: limit.Seconds()}
	}
}

// check returns a failure message or "". A slow input is re-measured at n, n/2, n/4
// bytes; only a super-quadratic trend or more than 60 s for <=64 KiB is a violation.
func check(c Case) (string, verdict) {
	text := c.text()
	cfg := configs[c.Config%len(configs)]
	v := runOne(cfg, text, 5*time.Second)
	if v.panic != "" {
		return fmt.Sprintf("%s panics on %d bytes %s: %s", cfg.name, len(text), c.Shown, v.panic), v
	}
	if v.hang && c.Config%len(configs) <= 3 && c.Config%len(configs) != 2 {
		// Finding F33: the optimizer evaluates argument independent sub-expressions while
		// Generate runs, without any budget - a program whose own evaluation takes long
		// ("numbers(1266666666).map(..).string()") takes that long to generate. Attributed
		// only if the same input is parsed at once without the optimizer AND the evaluation
		// of the unoptimized function is what takes the time.
		if p := runOne(configs[2], text, 5*time.Second); !p.hang && p.panic == "" && p.accepted {
			if e := runOne(config{"evaluation of the unoptimized function", evalOff}, text, 3*time.Second); e.hang {
				evid.R.Known("F33")
				evid.R.Class("slow_because_a_constant_is_evaluated_while_generating")
				return "", v
			}
		}
	}
	if v.hang {
		t1 := runOne(cfg, text, 60*time.Second)
		if t1.hang {
			return fmt.Sprintf("%s does not return within 60 s on %d bytes %s", cfg.name, len(text), c.Shown), t1
		}
		t2 := runOne(cfg, text[:len(text)/2], 60*time.Second)
		t4 := runOne(cfg, text[:len(text)/4], 60*time.Second)
		if t1.panic != "" || t2.panic != "" || t4.panic != "" {
			return fmt.Sprintf("%s panics on a prefix of %s: %s%s%s", cfg.name, c.Shown, t1.panic, t2.panic, t4.panic), t1
		}
		worse := func() bool {
			return t2.seconds > 0.05 && t4.seconds > 0.01 && t1.seconds/t2.seconds > 5 && t2.seconds/t4.seconds > 5
		}
		// wall-clock times on a busy machine are noisy (a quadratic input measured 5.2x / 7.4x
		// with three other jobs running): a trend has to show in the minimum of three
		// measurements per size before it counts
		for rep := 0; rep < 2 && worse(); rep++ {
			for _, m := range []struct {
				t *verdict
				n int
			}{{&t1, len(text)}, {&t2, len(text) / 2}, {&t4, len(text) / 4}} {
				if again := runOne(cfg, text[:m.n], 60*time.Second); !again.hang && again.panic == "" && again.seconds < m.t.seconds {
					m.t.seconds = again.seconds
				}
			}
		}
		if worse() {
			return fmt.Sprintf("%s scales worse than quadratically on %s: %.2fs / %.2fs / %.2fs for n, n/2, n/4 bytes (n=%d)", cfg.name, c.Shown,
				t1.seconds, t2.seconds, t4.seconds, len(text)), t1
		}
		evid.R.Class("slow_input_remeasured_ok")
		return "", t1
	}
	return "", v
}

func roughTokens(s string) int {
	n := 0
	prev := 0
	for _, r := range s {
		cl := 3
		switch {
		case r == ' ' || r == '\n' || r == '\t' || r == '\r':
			cl = 0
		case r == '_' || r >= '0' && r <= '9' || r >= 'a' && r <= 'z' || r >= 'A' && r <= 'Z' || r > 127:
			cl = 1
		case strings.ContainsRune("()[]{},;:.", r):
			cl = 4
			n++
			prev = cl
			continue
		}
		if cl != 0 && cl != prev {
			n++
		}
		prev = cl
	}
	return n
}

func classify(text string, v verdict) []string {
	var cls []string
	if v.accepted {
		cls = append(cls, "accepted")
	} else {
		cls = append(cls, "rejected")
	}
	if !utf8.ValidString(text) {
		cls = append(cls, "invalid_utf8")
	}
	if strings.Contains(text, "\x00") {
		cls = append(cls, "contains_nul")
	}
	if len(text) >= 4096 {
		cls = append(cls, "at_least_4KiB")
	}
	depth, max := 0, 0
	for _, r := range text {
		switch r {
		case '(', '[', '{':
			depth++
			if depth > max {
				max = depth
			}
		case ')', ']', '}':
			depth--
		}
	}
	if max >= 100 {
		cls = append(cls, "nesting_depth_at_least_100")
	}
	if strings.Count(text, "\"")%2 == 1 || (strings.Contains(text, "/*") && !strings.Contains(text, "*/")) {
		cls = append(cls, "unterminated_string_or_comment")
	}
	return cls
}

func runCase(t evid.Failer, c Case, test string) {
	evid.Pending(prop, test, c)
	msg, v := check(c)
	if msg != "" {
		evid.Fail(t, prop, test, "", c, "%s", msg)
	}
	text := c.text()
	evid.R.Case(roughTokens(text) >= 3, fmt.Sprint(c.Config, text), func() any {
		return map[string]any{"config": configs[c.Config%len(configs)].name, "input": c.Shown, "bytes": len(text), "accepted": v.accepted}
	}, classify(text, v)...)
}

func TestPropInputs(t *testing.T) {
	defer evid.R.Flush()
	defer evid.ClearPending()
	rapid.Check(t, func(t *rapid.T) {
		var text string
		switch rapid.IntRange(0, 9).Draw(t, "source") {
		case 0, 1:
			n := rapid.IntRange(0, 200).Draw(t, "rawLen")
			if rapid.IntRange(0, 30).Draw(t, "rawBig") == 0 {
				n = rapid.IntRange(200, 65536).Draw(t, "rawLenBig")
			}
			text = string(rapid.SliceOfN(rapid.Byte(), n, n).Draw(t, "raw"))
		case 2, 3, 4:
			text = inputs.Soup(t, 40)
		case 5, 6, 7, 8:
			text = inputs.Mutate(t, inputs.Valid(t))
		default:
			tp := inputs.Templates[rapid.IntRange(0, len(inputs.Templates)-1).Draw(t, "template")]
			size := rapid.IntRange(1, 3000).Draw(t, "templateSize")
			text = tp.Build(size)
			if rapid.Bool().Draw(t, "mutateTemplate") {
				text = inputs.Mutate(t, text)
			}
		}
		if len(text) > 65536 {
			text = text[:65536]
		}
		c := newCase(text, rapid.IntRange(0, len(configs)-1).Draw(t, "config"))
		runCase(t, c, "inputs")
	})
}

// TestTemplates runs the deterministic nesting templates at 8 KiB (quick) and at the
// full 64 KiB (thorough; in quick only a rotating subset) on every configuration.
func TestTemplates(t *testing.T) {
	defer evid.R.Flush()
	defer evid.ClearPending()
	shard, shards := evid.Shard()
	k := 0
	for ti, tp := range inputs.Templates {
		for ci := range configs {
			k++
			if k%shards != shard {
				continue
			}
			sizes := []int{64, 1024, 8192}
			if evid.Thorough() || (ti+ci+evid.EnvInt("VERIF_SEED", 1))%8 == 0 {
				sizes = append(sizes, 65536)
			}
			for _, size := range sizes {
				text := tp.Build(size)
				if len(text) > 65536 {
					text = text[:65536]
				}
				runCase(t, newCase(text, ci), "inputs")
				evid.R.Class("template_" + tp.Name)
			}
		}
	}
}

func TestReplay(t *testing.T) {
	for _, path := range evid.ReplayFiles("inputs") {
		var c Case
		if _, err := evid.ReadFailure(path, &c); err != nil {
			t.Fatalf("cannot read %s: %v", path, err)
		}
		if msg, _ := check(c); msg != "" {
			evid.ReplayFailed(t, path, msg)
		} else {
			evid.ReplayPassed(path)
		}
	}
}

// TestKnownF33 confirms the open finding F33 with a bounded experiment: the time
// Generate needs for "numbers(N).map(i->i).sum()" grows with N although the input has the
// same length (the optimizer evaluates the constant expression while generating). If
// Generate gets a budget for that, the times become flat and the line is not printed.
func TestKnownF33(t *testing.T) {
	defer evid.R.Flush()
	g := value.New()
	measure := func(n int) float64 {
		best := 1e9
		for r := 0; r < 3; r++ {
			start := time.Now()
			if _, _, err := g.Generate(fmt.Sprintf("numbers(%d).map(i->i).sum()", n)); err != nil {
				t.Fatalf("Generate: %v", err)
			}
			if d := time.Since(start).Seconds(); d < best {
				best = d
			}
		}
		return best
	}
	t1, t4 := measure(1000000), measure(4000000)
	evid.R.Case(true, "F33-exemplar-1e6", nil, "known_finding_exemplar")
	evid.R.Case(true, "F33-exemplar-4e6", nil, "known_finding_exemplar")
	fmt.Printf("Generate(numbers(N).map(i->i).sum()): N=1e6 %.3fs, N=4e6 %.3fs\n", t1, t4)
	if t4 > 0.02 && t4 > 2.5*t1 {
		evid.R.Known("F33")
	}
}

// FuzzParse is the native coverage-guided target (thorough tier). The first byte
// selects the configuration.
func FuzzParse(f *testing.F) {
	for i, s := range inputs.RepoSeeds() {
		if i%5 == 0 {
			f.Add(append([]byte{byte(i)}, s...))
		}
	}
	for _, tp := range inputs.Templates {
		f.Add(append([]byte{1}, tp.Build(40)...))
	}
	f.Fuzz(func(t *testing.T, data []byte) {
		if len(data) == 0 {
			return
		}
		text := string(data[1:])
		if len(text) > 65536 {
			text = text[:65536]
		}
		c := newCase(text, int(data[0]))
		if msg, _ := check(c); msg != "" {
			evid.WriteFailure(evid.Failure{Property: prop, Test: "inputs", Message: msg, Case: c})
			t.Fatal(msg)
		}
	})
}

// TestConvertFuzz turns a crasher file written by the Go fuzzer ($VERIF_FUZZ_FILE)
// into a replay file ($VERIF_FAILFILE).
func TestConvertFuzz(t *testing.T) {
	data, ok := evid.ReadFuzzCorpusFile()
	if !ok {
		t.Skip("no fuzz file")
	}
	if len(data) == 0 {
		return
	}
	text := string(data[1:])
	if len(text) > 65536 {
		text = text[:65536]
	}
	c := newCase(text, int(data[0]))
	evid.WriteFailure(evid.Failure{Property: prop, Test: "inputs", Message: "input recorded by the native fuzzer after a worker failure", Case: c})
}
