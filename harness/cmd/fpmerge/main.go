// fpmerge counts the distinct 64-bit fingerprints stored in the given files
// (raw little-endian uint64, each file sorted).
package main

import (
	"encoding/binary"
	"fmt"
	"os"
	"sort"
)

func main() {
	var all []uint64
	for _, p := range os.Args[1:] {
		b, err := os.ReadFile(p)
		if err != nil {
			fmt.Fprintln(os.Stderr, err)
			os.Exit(1)
		}
		for i := 0; i+8 <= len(b); i += 8 {
			all = append(all, binary.LittleEndian.Uint64(b[i:]))
		}
	}
	sort.Slice(all, func(i, j int) bool { return all[i] < all[j] })
	n := 0
	for i, v := range all {
		if i == 0 || v != all[i-1] {
			n++
		}
	}
	fmt.Println(n)
}
