// Package c18: XML and HTML export are well-formed and data can never inject markup.
package c18

import (
	"bytes"
	"encoding/xml"
	"fmt"
	"html/template"
	"io"
	"log"
	"sort"
	"strings"
	"testing"

	"github.com/hneemann/parser2/funcGen"
	"github.com/hneemann/parser2/value"
	"github.com/hneemann/parser2/value/export"
	"pgregory.net/rapid"

	"verif/harness/evid"
	"verif/harness/vtree"
)

const prop = "C18"

func init() { log.SetOutput(io.Discard) }

// ---- a tiny DOM over encoding/xml ---------------------------------------------------------

type node struct {
	name  string
	attrs []xml.Attr
	kids  []*node
	text  string // concatenated character data directly inside this element
}

func parseDoc(doc []byte) (*node, error) {
	dec := xml.NewDecoder(bytes.NewReader(doc))
	dec.Strict = true
	root := &node{name: "#root"}
	stack := []*node{root}
	for {
		tok, err := dec.Token()
		if err == io.EOF {
			break
		}
		if err != nil {
			return nil, err
		}
		switch t := tok.(type) {
		case xml.StartElement:
			n := &node{name: t.Name.Local, attrs: t.Attr}
			if t.Name.Space != "" {
				n.name = t.Name.Space + ":" + t.Name.Local
			}
			top := stack[len(stack)-1]
			top.kids = append(top.kids, n)
			stack = append(stack, n)
		case xml.EndElement:
			stack = stack[:len(stack)-1]
		case xml.CharData:
			stack[len(stack)-1].text += string(t)
		case xml.Comment:
			return nil, fmt.Errorf("the document contains a comment %q", string(t))
		case xml.Directive:
			return nil, fmt.Errorf("the document contains a directive %q", string(t))
		case xml.ProcInst:
			if t.Target != "xml" {
				return nil, fmt.Errorf("the document contains a processing instruction %q", t.Target)
			}
		}
	}
	if len(stack) != 1 {
		return nil, fmt.Errorf("unclosed elements")
	}
	return root, nil
}

// rawAttrWhitespace reports a raw TAB, LF or CR inside an attribute value: an XML
// processor normalises them to blanks (XML 1.0, 3.3.3), so they must be written as
// character references to decode back to the source string.
func rawAttrWhitespace(doc []byte) string {
	inTag, quote := false, byte(0)
	for i := 0; i < len(doc); i++ {
		c := doc[i]
		switch {
		case quote != 0:
			if c == quote {
				quote = 0
			} else if c == '\t' || c == '\n' || c == '\r' {
				return fmt.Sprintf("raw %q inside an attribute value at offset %d", c, i)
			}
		case inTag:
			if c == '"' || c == '\'' {
				quote = c
			} else if c == '>' {
				inTag = false
			}
		case c == '<':
			if bytes.HasPrefix(doc[i:], []byte("<?")) {
				j := bytes.Index(doc[i:], []byte("?>"))
				if j < 0 {
					return ""
				}
				i += j + 1
				continue
			}
			inTag = true
		}
	}
	return ""
}

// rawCR reports a raw carriage return anywhere: a parser turns it into a line feed.
func rawCR(doc []byte) string {
	if i := bytes.IndexByte(doc, '\r'); i >= 0 {
		return fmt.Sprintf("raw carriage return at offset %d (it is read back as a line feed)", i)
	}
	return ""
}

// ---- XML -------------------------------------------------------------------------------------

type Case struct {
	Tree    vtree.Tree `json:"tree"`
	MaxList int        `json:"max_list_size,omitempty"`
	Inline  bool       `json:"inline_style,omitempty"`
	Custom  int        `json:"custom_renderer,omitempty"` // 0 none, 1 panics, 2 fails, 3 renders ints
}

func exportXML(v value.Value) (out []byte, err error, pan string) {
	defer func() {
		if r := recover(); r != nil {
			pan = fmt.Sprint(r)
		}
	}()
	ex := export.XML()
	err = export.Export(funcGen.NewEmptyStack[value.Value](), v, ex)
	return ex.Result(), err, ""
}

func isSpace(s string) bool { return strings.TrimSpace(s) == "" }

// plainListStyle reports whether a wrapper around the value carries the style plainList
// (as a string, or as a key of a style map).
func plainListStyle(t vtree.Tree) bool {
	for t.K == "format" || t.K == "link" {
		if t.K == "format" && t.Style != nil {
			if t.Style.K == "str" && t.Style.S == "plainList" {
				return true
			}
			for _, k := range t.Style.Keys {
				if k == "plainList" {
					return true
				}
			}
		}
		t = t.X[0]
	}
	return false
}

func unwrap(t vtree.Tree) vtree.Tree {
	for t.K == "format" || t.K == "link" {
		t = t.X[0]
	}
	return t
}

// matchXML is the inverse mapping: the element must denote exactly the tree.
func matchXML(n *node, t vtree.Tree, path string) string {
	t = unwrap(t)
	switch t.K {
	case "list":
		if n.name != "list" || len(n.attrs) != 0 {
			return fmt.Sprintf("at %s: a list is exported as <%s> with %d attributes", path, n.name, len(n.attrs))
		}
		if !isSpace(n.text) {
			return fmt.Sprintf("at %s: character data %q directly inside <list>", path, n.text)
		}
		if len(n.kids) != len(t.X) {
			return fmt.Sprintf("at %s: <list> has %d children, the list %d items", path, len(n.kids), len(t.X))
		}
		for i, k := range n.kids {
			if k.name != "entry" || len(k.attrs) != 0 {
				return fmt.Sprintf("at %s: list item %d is <%s> with %d attributes", path, i, k.name, len(k.attrs))
			}
			if m := matchContent(k, t.X[i], fmt.Sprintf("%s[%d]", path, i)); m != "" {
				return m
			}
		}
		return ""
	case "map":
		if n.name != "map" {
			return fmt.Sprintf("at %s: a map is exported as <%s>", path, n.name)
		}
		want := map[string]vtree.Tree{}
		for i, k := range t.Keys {
			want[k] = t.X[i]
		}
		if !isSpace(n.text) {
			return fmt.Sprintf("at %s: character data %q directly inside <map>", path, n.text)
		}
		seen := map[string]bool{}
		if len(n.attrs) > 0 {
			// attribute form
			if len(n.kids) != 0 {
				return fmt.Sprintf("at %s: <map> has attributes and children", path)
			}
			for _, a := range n.attrs {
				key := a.Name.Local
				if a.Name.Space != "" {
					key = a.Name.Space + ":" + a.Name.Local
				}
				sub, ok := want[key]
				if !ok {
					return fmt.Sprintf("at %s: <map> has the attribute %q, the map has the keys %q", path, key, t.Keys)
				}
				if seen[key] {
					return fmt.Sprintf("at %s: attribute %q twice", path, key)
				}
				seen[key] = true
				sub = unwrap(sub)
				if sub.K == "list" || sub.K == "map" {
					return fmt.Sprintf("at %s: container value in attribute form", path)
				}
				if a.Value != sub.ScalarString() {
					return fmt.Sprintf("at %s: the value %q of key %q decodes to %q", path, sub.ScalarString(), key, a.Value)
				}
			}
		} else {
			for i, k := range n.kids {
				if k.name != "entry" || len(k.attrs) != 1 || k.attrs[0].Name.Local != "key" {
					return fmt.Sprintf("at %s: map entry %d is <%s> with attributes %v", path, i, k.name, k.attrs)
				}
				key := k.attrs[0].Value
				sub, ok := want[key]
				if !ok {
					return fmt.Sprintf("at %s: entry with key %q, the map has the keys %q", path, key, t.Keys)
				}
				if seen[key] {
					return fmt.Sprintf("at %s: key %q twice", path, key)
				}
				seen[key] = true
				if m := matchContent(k, sub, path+"."+key); m != "" {
					return m
				}
			}
		}
		if len(seen) != len(want) {
			return fmt.Sprintf("at %s: %d of %d keys exported", path, len(seen), len(want))
		}
		return ""
	}
	return fmt.Sprintf("at %s: scalar at element level", path)
}

// matchContent: the content of an <entry> is a nested element or the text of a scalar.
func matchContent(k *node, t vtree.Tree, path string) string {
	t = unwrap(t)
	if t.K == "list" || t.K == "map" {
		if len(k.kids) != 1 || !isSpace(k.text) {
			return fmt.Sprintf("at %s: expected one nested element, found %d children and text %q", path, len(k.kids), k.text)
		}
		return matchXML(k.kids[0], t, path)
	}
	if len(k.kids) != 0 {
		return fmt.Sprintf("at %s: the scalar %q is exported with %d child elements (<%s>)", path, t.ScalarString(), len(k.kids), k.kids[0].name)
	}
	if k.text != t.ScalarString() {
		return fmt.Sprintf("at %s: the text %q decodes to %q", path, t.ScalarString(), k.text)
	}
	return ""
}

func checkXML(c Case) string {
	t := unwrap(c.Tree)
	if t.K != "list" && t.K != "map" {
		return ""
	}
	v := c.Tree.Impl()
	out, err, pan := exportXML(v)
	if pan != "" {
		return "the XML export panics: " + pan
	}
	if err != nil {
		return "the XML export fails: " + err.Error()
	}
	// exporting does not consume or change the value
	if again, err2, pan2 := exportXML(v); pan2 != "" || err2 != nil || string(again) != string(out) {
		return fmt.Sprintf("the second XML export of the same value differs: %q, then %q (%v %s)", out, again, err2, pan2)
	}
	root, perr := parseDoc(out)
	if perr != nil {
		return fmt.Sprintf("the XML export is not well-formed: %v; document %q", perr, out)
	}
	if len(root.kids) != 1 || !isSpace(root.text) {
		return fmt.Sprintf("the XML export has %d root elements; document %q", len(root.kids), out)
	}
	if m := matchXML(root.kids[0], c.Tree, "$"); m != "" {
		return fmt.Sprintf("%s; document %q", m, out)
	}
	if m := rawAttrWhitespace(out); m != "" {
		return fmt.Sprintf("%s; document %q", m, out)
	}
	if m := rawCR(out); m != "" {
		return fmt.Sprintf("%s; document %q", m, out)
	}
	return ""
}

// ---- HTML ------------------------------------------------------------------------------------

func customFor(k int) export.CustomHTML {
	switch k {
	case 1:
		return func(v value.Value) (template.HTML, bool, error) {
			if _, ok := v.(value.Bool); ok {
				panic("custom renderer panics")
			}
			return "", false, nil
		}
	case 2:
		return func(v value.Value) (template.HTML, bool, error) {
			if _, ok := v.(value.Bool); ok {
				return "", false, fmt.Errorf("custom renderer fails")
			}
			return "", false, nil
		}
	case 3:
		return func(v value.Value) (template.HTML, bool, error) {
			if i, ok := v.(value.Int); ok {
				return template.HTML(fmt.Sprintf("<b>%d</b>", int(i))), true, nil
			}
			return "", false, nil
		}
	}
	return nil
}

func toHTML(c Case, t vtree.Tree) (out string, err error, pan string) {
	defer func() {
		if r := recover(); r != nil {
			pan = fmt.Sprint(r)
		}
	}()
	h, _, err := export.ToHtml(t.Impl(), c.MaxList, customFor(c.Custom), c.Inline)
	return string(h), err, ""
}

// neutral maps every string of the tree to a harmless placeholder that keeps the few
// properties of a string the exporter is allowed to look at (the http://, https://,
// host: prefixes and the style keyword plainList).
type neutral struct {
	back map[string]string // placeholder -> original
	n    int
}

func (nt *neutral) ph(s string) string {
	prefix := ""
	for _, p := range []string{"http://", "https://", "host:"} {
		if strings.HasPrefix(s, p) {
			prefix = p
		}
	}
	if s == "plainList" {
		return s
	}
	nt.n++
	p := fmt.Sprintf("P%dQ", nt.n)
	nt.back[p] = s[len(prefix):]
	return prefix + p
}

func (nt *neutral) tree(t vtree.Tree, isStyle bool) vtree.Tree {
	c := t
	switch t.K {
	case "str":
		c.S = nt.ph(t.S)
	case "link":
		c.S = nt.ph(t.S)
	case "file":
		c.S = nt.ph(t.S)
		c.Keys = []string{nt.ph(t.Keys[0]), t.Keys[1]}
		if t.Keys[0] == "" {
			c.Keys[0] = ""
		}
	case "map":
		c.Keys = make([]string, len(t.Keys))
		for i, k := range t.Keys {
			if isStyle {
				c.Keys[i] = k
			} else {
				// keys are written as text only: no prefix is preserved, the placeholders
				// sort like the (pre-sorted) real keys
				nt.n++
				p := fmt.Sprintf("P%dQ", nt.n)
				nt.back[p] = k
				c.Keys[i] = p
			}
		}
	}
	c.X = make([]vtree.Tree, len(t.X))
	for i, x := range t.X {
		c.X[i] = nt.tree(x, isStyle)
	}
	if t.Style != nil {
		s := nt.tree(*t.Style, true)
		c.Style = &s
	}
	return c
}

var allowedElems = map[string]bool{"r": true, "table": true, "tr": true, "td": true, "a": true, "span": true, "b": true}
var allowedAttrs = map[string]bool{"href": true, "target": true, "style": true, "class": true, "colspan": true, "download": true}

// sameShape compares the element structure of the export of the real tree with the
// export of the neutral tree, and every text / attribute value after substituting the
// placeholders back.
func sameShape(real, neut *node, nt *neutral, sortedKeys bool, path string) string {
	if real.name != neut.name {
		return fmt.Sprintf("at %s: element <%s> where the neutral export has <%s>", path, real.name, neut.name)
	}
	if real.name != "#root" && !allowedElems[real.name] {
		return fmt.Sprintf("at %s: unexpected element <%s>", path, real.name)
	}
	if len(real.attrs) != len(neut.attrs) {
		return fmt.Sprintf("at %s: <%s> has %d attributes, the neutral export %d", path, real.name, len(real.attrs), len(neut.attrs))
	}
	for i, a := range real.attrs {
		b := neut.attrs[i]
		if a.Name != b.Name || !allowedAttrs[a.Name.Local] {
			return fmt.Sprintf("at %s: attribute %q where the neutral export has %q", path, a.Name.Local, b.Name.Local)
		}
		if a.Name.Local == "class" {
			continue // class names are numbered in order of first use
		}
		if want := nt.restore(b.Value); a.Value != want {
			return fmt.Sprintf("at %s: attribute %s decodes to %q, want %q", path, a.Name.Local, a.Value, want)
		}
	}
	if len(real.kids) != len(neut.kids) {
		return fmt.Sprintf("at %s: <%s> has %d child elements, the neutral export %d", path, real.name, len(real.kids), len(neut.kids))
	}
	if want := nt.restore(neut.text); strings.TrimSpace(real.text) != strings.TrimSpace(want) && len(real.kids) > 0 {
		return fmt.Sprintf("at %s: text %q, want %q", path, real.text, want)
	} else if len(real.kids) == 0 && real.text != want {
		return fmt.Sprintf("at %s: text decodes to %q, want %q", path, real.text, want)
	}
	for i := range real.kids {
		if m := sameShape(real.kids[i], neut.kids[i], nt, sortedKeys, fmt.Sprintf("%s/%s[%d]", path, real.kids[i].name, i)); m != "" {
			return m
		}
	}
	return ""
}

func (nt *neutral) restore(s string) string {
	// placeholders are P<n>Q; replace the longest numbers first
	keys := make([]string, 0, len(nt.back))
	for k := range nt.back {
		keys = append(keys, k)
	}
	sort.Slice(keys, func(i, j int) bool { return len(keys[i]) > len(keys[j]) })
	for _, k := range keys {
		s = strings.ReplaceAll(s, k, nt.back[k])
	}
	return s
}

// mapKeysSortStable: the HTML exporter writes map entries sorted by key; sorting the
// placeholders must give the same order as sorting the real keys, otherwise the two
// exports are not comparable position by position. Returns false if not.
func comparable(t vtree.Tree, nt *neutral) bool {
	ok := true
	var walk func(t vtree.Tree)
	walk = func(t vtree.Tree) {
		if t.K == "map" && len(t.Keys) > 1 {
			ok = false // decided below per map
		}
		for _, x := range t.X {
			walk(x)
		}
	}
	_ = walk
	return ok
}

func sortKeys(t vtree.Tree) vtree.Tree {
	// order the entries of every map by key, so that placeholder numbering (assigned in
	// this order) sorts like the real keys do
	c := t
	c.X = make([]vtree.Tree, len(t.X))
	for i, x := range t.X {
		c.X[i] = sortKeys(x)
	}
	if t.K == "map" {
		idx := make([]int, len(t.Keys))
		for i := range idx {
			idx[i] = i
		}
		sort.Slice(idx, func(a, b int) bool { return t.Keys[idx[a]] < t.Keys[idx[b]] })
		keys := make([]string, len(idx))
		xs := make([]vtree.Tree, len(idx))
		for i, j := range idx {
			keys[i] = t.Keys[j]
			xs[i] = c.X[j]
		}
		c.Keys, c.X = keys, xs
	}
	return c
}

func checkHTML(c Case) string {
	tree := sortKeys(c.Tree)
	out, err, pan := toHTML(c, tree)
	if pan != "" {
		return "ToHtml panics instead of returning an error: " + pan
	}
	nt := &neutral{back: map[string]string{}}
	ntree := nt.tree(tree, false)
	// placeholders are numbered in key order per map, but P10Q < P9Q as strings: use
	// fixed-width numbers
	nt2 := &neutral{back: map[string]string{}, n: 100000}
	ntree = nt2.tree(tree, false)
	nt = nt2
	nout, nerr, npan := toHTML(c, ntree)
	if npan != "" {
		return "ToHtml panics on the neutral tree: " + npan
	}
	if (err != nil) != (nerr != nil) {
		return fmt.Sprintf("ToHtml error %v, on the neutral tree %v", err, nerr)
	}
	if err != nil {
		return ""
	}
	root, perr := parseDoc([]byte("<r>" + out + "</r>"))
	if perr != nil {
		return fmt.Sprintf("the HTML export is not well-formed: %v; markup %q", perr, out)
	}
	nroot, perr := parseDoc([]byte("<r>" + nout + "</r>"))
	if perr != nil {
		return fmt.Sprintf("harness: the neutral HTML export is not well-formed: %v; markup %q", perr, nout)
	}
	if m := sameShape(root, nroot, nt, true, ""); m != "" {
		return fmt.Sprintf("%s; markup %q; neutral markup %q", m, out, nout)
	}
	if m := rawAttrWhitespace([]byte(out)); m != "" {
		return fmt.Sprintf("%s; markup %q", m, out)
	}
	if m := rawCR([]byte(out)); m != "" {
		return fmt.Sprintf("%s; markup %q", m, out)
	}
	// structure: a list shows its entries in order, at least the first one and as many as
	// the size limit allows (a limit below one is a limit of one)
	if top := unwrap(tree); top.K == "list" && c.Custom == 0 && !plainListStyle(tree) {
		limit := max(c.MaxList, 1)
		var want []string
		for i, it := range top.X {
			if i >= limit {
				break
			}
			if plainListStyle(it) {
				continue // (the style plainList writes the items one behind the other, without cells and without limit)
			}
			it = unwrap(it)
			if it.K == "list" && len(it.X) > 0 {
				it = unwrap(it.X[0])
			}
			if it.K == "str" && strings.TrimSpace(it.S) != "" && !strings.HasPrefix(it.S, "http://") && !strings.HasPrefix(it.S, "https://") && !strings.HasPrefix(it.S, "host:") {
				want = append(want, it.S) // (link-like strings are written as a link with a fixed text)
			}
		}
		var texts []string
		var walk func(n *node)
		walk = func(n *node) {
			for _, a := range n.attrs {
				texts = append(texts, a.Value) // (a link target is written as an attribute value)
			}
			if n.text != "" {
				texts = append(texts, n.text)
			}
			for _, k := range n.kids {
				walk(k)
			}
		}
		walk(root)
		pos := 0
		for _, w := range want {
			found := false
			for pos < len(texts) {
				pos++
				if texts[pos-1] == w {
					found = true
					break
				}
			}
			if !found {
				return fmt.Sprintf("the list entry %q (one of the first %d entries, size limit %d) is not part of the output in its place; character data %q", w, limit, c.MaxList, texts)
			}
		}
	}
	return ""
}

func check(c Case) string {
	if m := checkXML(c); m != "" {
		return "XML: " + m
	}
	if m := checkHTML(c); m != "" {
		return "HTML: " + m
	}
	return ""
}

func significant(s string) bool {
	return strings.ContainsAny(s, "<>&'\"\r\n\t=") || strings.HasPrefix(s, " ") || strings.HasSuffix(s, " ")
}

func TestPropC18(t *testing.T) {
	defer evid.R.Flush()
	rapid.Check(t, func(t *rapid.T) {
		maxList := rapid.IntRange(-1, 5).Draw(t, "maxList")
		tree := vtree.Gen(t, vtree.LegalXML, rapid.IntRange(1, 4).Draw(t, "depth"), true)
		if rapid.IntRange(0, 2).Draw(t, "listAroundCutoff") == 0 {
			// list sizes around the cut-off: n-1, n, n+1, n+2
			n := max(maxList, 1) + rapid.IntRange(-1, 2).Draw(t, "delta")
			l := vtree.Tree{K: "list"}
			rows := rapid.Bool().Draw(t, "rows")
			for i := 0; i < n; i++ {
				item := vtree.Tree{K: "str", S: vtree.GenString(t, vtree.LegalXML, "item")}
				if rows {
					item = vtree.Tree{K: "list", X: []vtree.Tree{item, {K: "int", I: i}}}
				}
				l.X = append(l.X, item)
			}
			tree = l
		}
		c := Case{Tree: tree, MaxList: maxList, Inline: rapid.Bool().Draw(t, "inline"), Custom: rapid.IntRange(0, 3).Draw(t, "custom")}
		if msg := check(c); msg != "" {
			evid.Fail(t, prop, "c18", "", c, "%s", msg)
		}
		sig := false
		tree.Strings(func(s string, isKey bool) {
			if significant(s) {
				sig = true
			}
		})
		var cls []string
		if sig {
			cls = append(cls, "markup_significant_string_or_key")
		}
		ut := unwrap(tree)
		if ut.K == "list" && len(ut.X) > maxList {
			cls = append(cls, "list_crosses_cutoff")
		}
		if ut.K == "list" || ut.K == "map" {
			cls = append(cls, "xml_checked")
		}
		evid.R.Case(sig || (ut.K == "list" && len(ut.X) >= maxList), fmt.Sprint(c), func() any {
			out, _, _ := exportXML(tree.Impl())
			h, _, _ := toHTML(c, tree)
			return map[string]any{"xml": string(out), "html": h}
		}, cls...)
	})
}

func TestReplay(t *testing.T) {
	for _, path := range evid.ReplayFiles("c18") {
		var c Case
		if _, err := evid.ReadFailure(path, &c); err != nil {
			t.Fatalf("cannot read %s: %v", path, err)
		}
		if msg := check(c); msg != "" {
			evid.ReplayFailed(t, path, msg)
		}
	}
}
