package c18

import (
	"os"
	"path/filepath"
	"testing"

	"verif/harness/evid"
	"verif/harness/vtree"
)

func TestMakeExemplars(t *testing.T) {
	dir := os.Getenv("VERIF_MAKE_EXEMPLARS")
	if dir == "" {
		t.Skip("VERIF_MAKE_EXEMPLARS not set")
	}
	str := func(s string) vtree.Tree { return vtree.Tree{K: "str", S: s} }
	m := func(k string, v vtree.Tree) vtree.Tree {
		return vtree.Tree{K: "map", Keys: []string{k}, X: []vtree.Tree{v}}
	}
	cases := map[string]Case{
		"F21-key-injects-attribute":     {Tree: m("a=\"1\" b", vtree.Tree{K: "int", I: 1}), MaxList: 3},
		"F21-key-with-blank":            {Tree: m("a b", vtree.Tree{K: "int", I: 1}), MaxList: 3},
		"F21-key-not-a-name":            {Tree: m("]]>", str("]]>")), MaxList: 3},
		"F22-carriage-return-in-text":   {Tree: vtree.Tree{K: "list", X: []vtree.Tree{str("x\ry"), str("A\r")}}, MaxList: 3},
		"F22-white-space-in-attribute":  {Tree: vtree.Tree{K: "map", Keys: []string{"a", "b"}, X: []vtree.Tree{str("x\ry"), str("t\tn\nz")}}, MaxList: 3},
		"markup-lookalikes-and-cut-off": {Tree: vtree.Tree{K: "list", X: []vtree.Tree{str("</td><script>"), str("&amp;"), str("<![CDATA["), str("http://x\"y"), str("host:z")}}, MaxList: 3},
	}
	for name, c := range cases {
		os.Setenv("VERIF_FAILFILE", filepath.Join(dir, name+".json"))
		evid.WriteFailure(evid.Failure{Property: prop, Test: "c18", Message: "regression exemplar", Case: c})
	}
}
