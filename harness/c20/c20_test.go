// Package c20: binning conserves mass and is additive.
package c20

import (
	"fmt"
	"math"
	"math/big"
	"testing"

	"github.com/hneemann/parser2/funcGen"
	"github.com/hneemann/parser2/value"
	"pgregory.net/rapid"

	"verif/harness/evid"
	"verif/harness/obs"
	"verif/harness/progs"
	"verif/harness/ref"
)

const prop = "C20"

type Rec struct {
	X, Y, W float64
	// IntX: the record stores x as an int value
	IntX bool
}

type Axis struct {
	Start float64
	Size  float64
	Count int
}

type Case struct {
	Recs  []Rec `json:"records"`
	X     Axis  `json:"x_axis"`
	Y     Axis  `json:"y_axis"`
	TwoD  bool  `json:"two_dimensional"`
	Parts []int `json:"part_lengths"` // consecutive parts for the additivity law
	Lazy  bool  `json:"lazy_source"`
}

var g = progs.NewImpl(true)
var fns = map[string]funcGen.Func[value.Value]{}

func fn(text string, args ...string) funcGen.Func[value.Value] {
	if f, ok := fns[text]; ok {
		return f
	}
	f, _, err := g.Generate(text, args...)
	if err != nil {
		panic(text + ": " + err.Error())
	}
	fns[text] = f
	return f
}

func rat(f float64) *big.Rat { return new(big.Rat).SetFloat64(f) }

// binIndex is the specification: 0 below start, i for start+(i-1)*size <= x <
// start+i*size, count+1 from start+count*size.
func binIndex(a Axis, x float64) int {
	q := new(big.Rat).Quo(new(big.Rat).Sub(rat(x), rat(a.Start)), rat(a.Size))
	// floor
	fl := new(big.Int).Div(q.Num(), q.Denom()) // Div is Euclidean: floor for positive denominators
	idx := new(big.Int).Add(fl, big.NewInt(1))
	if idx.Sign() < 0 {
		return 0
	}
	if idx.Cmp(big.NewInt(int64(a.Count+1))) > 0 {
		return a.Count + 1
	}
	return int(idx.Int64())
}

func recList(recs []Rec, lazy bool) value.Value {
	items := make([]ref.Value, len(recs))
	for i, r := range recs {
		var x ref.Value = ref.Float(r.X)
		if r.IntX {
			x = ref.Int(int(r.X))
		}
		items[i] = &ref.Map{Keys: []string{"x", "y", "w"}, Vals: []ref.Value{x, ref.Float(r.Y), ref.Float(r.W)}}
	}
	l := obs.ToImpl(&ref.List{Items: items})
	if lazy {
		res, err := fn("l.map(e->e)", "l").Eval(l)
		if err != nil {
			panic(err)
		}
		return res
	}
	return l
}

func axisArgs(a Axis) []value.Value {
	return []value.Value{value.Float(a.Start), value.Float(a.Size), value.Int(a.Count)}
}

func floats(v ref.Value) ([]float64, bool) {
	l, ok := v.(*ref.List)
	if !ok || l.Err != nil {
		return nil, false
	}
	out := make([]float64, len(l.Items))
	for i, it := range l.Items {
		f, ok := it.(ref.Float)
		if !ok {
			return nil, false
		}
		out[i] = float64(f)
	}
	return out, true
}

func checkDescr(a Axis, descr ref.Value, what string) string {
	l, ok := descr.(*ref.List)
	if !ok || l.Err != nil || len(l.Items) != a.Count+2 {
		return fmt.Sprintf("%s is %s, want %d descriptions", what, ref.Show(descr), a.Count+2)
	}
	for i, it := range l.Items {
		m, ok := it.(*ref.Map)
		if !ok {
			return fmt.Sprintf("%s[%d] is %s", what, i, ref.Show(it))
		}
		mn, hasMin := m.Get("min")
		mx, hasMax := m.Get("max")
		wantMin := i > 0
		wantMax := i < a.Count+1
		if hasMin != wantMin || hasMax != wantMax {
			return fmt.Sprintf("%s[%d] = %s: the underflow bin has only an upper, the overflow bin only a lower bound, inner bins both", what, i, ref.Show(it))
		}
		lo, _ := new(big.Rat).Add(rat(a.Start), new(big.Rat).Mul(big.NewRat(int64(i-1), 1), rat(a.Size))).Float64()
		hi, _ := new(big.Rat).Add(rat(a.Start), new(big.Rat).Mul(big.NewRat(int64(i), 1), rat(a.Size))).Float64()
		if wantMin && !ref.Same(ref.Float(lo), mn, 0) {
			return fmt.Sprintf("%s[%d] = %s: min should be %v", what, i, ref.Show(it), lo)
		}
		if wantMax && !ref.Same(ref.Float(hi), mx, 0) {
			return fmt.Sprintf("%s[%d] = %s: max should be %v", what, i, ref.Show(it), hi)
		}
		if _, ok := m.Get("str"); !ok {
			return fmt.Sprintf("%s[%d] = %s has no str entry", what, i, ref.Show(it))
		}
		if len(m.Keys) != 1+b2i(wantMin)+b2i(wantMax) {
			return fmt.Sprintf("%s[%d] = %s has unexpected entries", what, i, ref.Show(it))
		}
	}
	return ""
}

func b2i(b bool) int {
	if b {
		return 1
	}
	return 0
}

func exactSum(fs []float64) float64 {
	s := new(big.Rat)
	for _, f := range fs {
		s.Add(s, rat(f))
	}
	r, _ := s.Float64()
	return r
}

func run1d(c Case, recs []Rec) (ref.Value, error) {
	args := append([]value.Value{recList(recs, c.Lazy)}, axisArgs(c.X)...)
	o := progs.Observe(fn("l.binning(s,z,n,e->e.x,e->e.w)", "l", "s", "z", "n").Eval(args...))
	return o.Val, o.Err
}

// runImpl returns the implementation's own binning value (not a rebuilt copy).
func runImpl(c Case, recs []Rec) (value.Value, error) {
	args := append([]value.Value{recList(recs, c.Lazy)}, axisArgs(c.X)...)
	if c.TwoD {
		args = append(args, axisArgs(c.Y)...)
		return fn("l.binning2d(s,z,n,t,u,m,e->e.x,e->e.y,e->e.w)", "l", "s", "z", "n", "t", "u", "m").Eval(args...)
	}
	return fn("l.binning(s,z,n,e->e.x,e->e.w)", "l", "s", "z", "n").Eval(args...)
}

func run2d(c Case, recs []Rec) (ref.Value, error) {
	args := append([]value.Value{recList(recs, c.Lazy)}, axisArgs(c.X)...)
	args = append(args, axisArgs(c.Y)...)
	o := progs.Observe(fn("l.binning2d(s,z,n,t,u,m,e->e.x,e->e.y,e->e.w)", "l", "s", "z", "n", "t", "u", "m").Eval(args...))
	return o.Val, o.Err
}

func check(c Case) string {
	if c.X.Count < 0 || (c.TwoD && c.Y.Count < 0) {
		var err error
		if c.TwoD {
			_, err = run2d(c, c.Recs)
		} else {
			_, err = run1d(c, c.Recs)
		}
		if err == nil {
			return "a negative bin count is accepted"
		}
		return ""
	}
	var whole ref.Value
	var err error
	if c.TwoD {
		whole, err = run2d(c, c.Recs)
	} else {
		whole, err = run1d(c, c.Recs)
	}
	if err != nil {
		return "binning fails: " + err.Error()
	}
	wm, ok := whole.(*ref.Map)
	if !ok {
		return "binning returns " + ref.Show(whole)
	}
	var ws []float64
	for _, r := range c.Recs {
		ws = append(ws, r.W)
	}
	total := exactSum(ws)
	if !c.TwoD {
		vals, _ := wm.Get("values")
		fs, ok := floats(vals)
		if !ok || len(fs) != c.X.Count+2 {
			return fmt.Sprintf("values = %s, want %d floats", ref.Show(vals), c.X.Count+2)
		}
		want := make([][]float64, c.X.Count+2)
		for _, r := range c.Recs {
			i := binIndex(c.X, r.X)
			want[i] = append(want[i], r.W)
		}
		for i := range want {
			if w := exactSum(want[i]); w != fs[i] {
				return fmt.Sprintf("bin %d holds %v, the elements with start+(i-1)*size <= x < start+i*size sum to %v (values %v, start %v size %v count %d, x %v)",
					i, fs[i], w, fs, c.X.Start, c.X.Size, c.X.Count, xs(c.Recs))
			}
		}
		if s := exactSum(fs); s != total {
			return fmt.Sprintf("the bins sum to %v, the element values to %v", s, total)
		}
		d, _ := wm.Get("descr")
		if m := checkDescr(c.X, d, "descr"); m != "" {
			return m
		}
	} else {
		vals, _ := wm.Get("values")
		rows, ok := vals.(*ref.List)
		if !ok || len(rows.Items) != c.X.Count+2 {
			return fmt.Sprintf("values = %s, want %d rows", ref.Show(vals), c.X.Count+2)
		}
		want := make([][][]float64, c.X.Count+2)
		for i := range want {
			want[i] = make([][]float64, c.Y.Count+2)
		}
		for _, r := range c.Recs {
			i, j := binIndex(c.X, r.X), binIndex(c.Y, r.Y)
			want[i][j] = append(want[i][j], r.W)
		}
		var all []float64
		var xds []ref.Value
		for i, it := range rows.Items {
			rm, ok := it.(*ref.Map)
			if !ok {
				return "row is " + ref.Show(it)
			}
			row, _ := rm.Get("row")
			fs, ok := floats(row)
			if !ok || len(fs) != c.Y.Count+2 {
				return fmt.Sprintf("row %d = %s, want %d floats", i, ref.Show(row), c.Y.Count+2)
			}
			for j := range fs {
				if w := exactSum(want[i][j]); w != fs[j] {
					return fmt.Sprintf("bin (%d,%d) holds %v, by the bin inequalities it should hold %v", i, j, fs[j], w)
				}
			}
			all = append(all, fs...)
			xd, _ := rm.Get("xd")
			xds = append(xds, xd)
		}
		if s := exactSum(all); s != total {
			return fmt.Sprintf("the bins sum to %v, the element values to %v", s, total)
		}
		if m := checkDescr(c.X, &ref.List{Items: xds}, "xd"); m != "" {
			return m
		}
		yd, _ := wm.Get("yDescr")
		if m := checkDescr(c.Y, yd, "yDescr"); m != "" {
			return m
		}
	}
	// additivity: collectBinning over the binnings of consecutive parts == binning of the whole
	if len(c.Parts) > 0 {
		var parts []value.Value
		pos := 0
		for _, n := range c.Parts {
			if pos+n > len(c.Recs) {
				n = len(c.Recs) - pos
			}
			var pv ref.Value
			var err error
			if c.TwoD {
				pv, err = run2d(c, c.Recs[pos:pos+n])
			} else {
				pv, err = run1d(c, c.Recs[pos:pos+n])
			}
			if err != nil {
				return "binning of a part fails: " + err.Error()
			}
			parts = append(parts, obs.ToImpl(pv))
			pos += n
		}
		if pos < len(c.Recs) {
			var pv ref.Value
			if c.TwoD {
				pv, _ = run2d(c, c.Recs[pos:])
			} else {
				pv, _ = run1d(c, c.Recs[pos:])
			}
			parts = append(parts, obs.ToImpl(pv))
		}
		got := progs.Observe(fn("l.collectBinning()", "l").Eval(value.NewList(parts...)))
		if got.Err != nil {
			return "collectBinning fails: " + got.Err.Error()
		}
		if !ref.Same(whole, got.Val, 0) {
			return fmt.Sprintf("collectBinning over %d parts = %s, binning of the whole list = %s", len(parts), ref.Show(got.Val), ref.Show(whole))
		}
		// the same with the binning values the implementation itself returned, collected twice:
		// collecting must not change the parts, and the second sum equals the first
		var own []value.Value
		var before []ref.Value
		pos = 0
		cut := append(append([]int{}, c.Parts...), len(c.Recs))
		for _, n := range cut {
			if pos >= len(c.Recs) && len(own) > 0 {
				break
			}
			if pos+n > len(c.Recs) {
				n = len(c.Recs) - pos
			}
			pv, err := runImpl(c, c.Recs[pos:pos+n])
			if err != nil {
				return "binning of a part fails: " + err.Error()
			}
			own = append(own, pv)
			before = append(before, progs.Observe(pv, nil).Val)
			pos += n
		}
		for round := 1; round <= 2; round++ {
			got := progs.Observe(fn("l.collectBinning()", "l").Eval(value.NewList(own...)))
			if got.Err != nil {
				return fmt.Sprintf("collectBinning (round %d) fails: %v", round, got.Err)
			}
			if !ref.Same(whole, got.Val, 0) {
				return fmt.Sprintf("collectBinning over the %d binning values (round %d) = %s, binning of the whole list = %s", len(own), round, ref.Show(got.Val), ref.Show(whole))
			}
			for i, pv := range own {
				if now := progs.Observe(pv, nil).Val; !ref.Same(before[i], now, 0) {
					return fmt.Sprintf("collectBinning (round %d) changed the binning of part %d from %s to %s", round, i, ref.Show(before[i]), ref.Show(now))
				}
			}
		}
	}
	return ""
}

func xs(rs []Rec) []float64 {
	var out []float64
	for _, r := range rs {
		out = append(out, r.X)
	}
	return out
}

func genAxis(t *rapid.T, label string) Axis {
	a := Axis{Start: float64(rapid.IntRange(-16, 16).Draw(t, label+"start")) / 4}
	a.Size = rapid.SampledFrom([]float64{0.25, 0.5, 1, 2, 4, 3, 5, 0.125, 10}).Draw(t, label+"size")
	if rapid.IntRange(0, 3).Draw(t, label+"fine") == 0 {
		// fine grids: bounds with many (exactly representable) decimals, a start that is
		// much finer than the size
		a.Start = float64(rapid.IntRange(-2048, 2048).Draw(t, label+"fineStart")) / 1024
		a.Size = rapid.SampledFrom([]float64{1.0 / 64, 1.0 / 256, 1.0 / 1024, 1, 0.25, 3}).Draw(t, label+"fineSize")
	}
	a.Count = rapid.IntRange(0, 64).Draw(t, label+"count")
	if rapid.IntRange(0, 3).Draw(t, label+"smallCount") != 0 {
		a.Count = rapid.IntRange(0, 6).Draw(t, label+"count2")
	}
	if rapid.IntRange(0, 40).Draw(t, label+"neg") == 0 {
		a.Count = -rapid.IntRange(1, 3).Draw(t, label+"negCount")
	}
	return a
}

// genCoord draws a coordinate relative to the axis: on an edge, just inside, far outside.
func genCoord(t *rapid.T, a Axis, label string) (float64, string) {
	cnt := a.Count
	if cnt < 0 {
		cnt = 0
	}
	edge := a.Start + float64(rapid.IntRange(-1, cnt+1).Draw(t, label+"edge"))*a.Size
	switch rapid.IntRange(0, 9).Draw(t, label+"where") {
	case 0, 1, 2:
		return edge, "on_edge"
	case 3:
		return edge - 1.0/1024, "just_below_edge"
	case 4:
		return edge + 1.0/1024, "just_above_edge"
	case 5:
		return rapid.SampledFrom([]float64{1e30, -1e30, 1e300, -1e300, 1e19, -1e19, 9.3e18, math.MaxFloat64}).Draw(t, label+"far"), "far_outside"
	case 6:
		return 0, "zero"
	case 7:
		return -float64(rapid.IntRange(0, 64).Draw(t, label+"negv")) / 8, "negative"
	}
	return float64(rapid.IntRange(-200, 400).Draw(t, label+"any")) / 8, "anywhere"
}

func TestPropC20(t *testing.T) {
	defer evid.R.Flush()
	rapid.Check(t, func(t *rapid.T) {
		c := Case{X: genAxis(t, "x"), TwoD: rapid.Bool().Draw(t, "twoD"), Lazy: rapid.Bool().Draw(t, "lazy")}
		if c.TwoD {
			c.Y = genAxis(t, "y")
			if c.X.Count > 12 {
				c.X.Count %= 12
			}
			if c.Y.Count > 12 {
				c.Y.Count %= 12
			}
		}
		n := rapid.IntRange(0, 12).Draw(t, "records")
		cls := map[string]bool{}
		for i := 0; i < n; i++ {
			x, cx := genCoord(t, c.X, "x")
			y := 0.0
			if c.TwoD {
				var cy string
				y, cy = genCoord(t, c.Y, "y")
				cls["y_"+cy] = true
			}
			cls["x_"+cx] = true
			w := float64(rapid.IntRange(-16, 40).Draw(t, "w")) / 8
			if rapid.IntRange(0, 3).Draw(t, "count1") == 0 {
				w = 1
			}
			r := Rec{X: x, Y: y, W: w}
			if x == math.Trunc(x) && math.Abs(x) < 1e15 && rapid.Bool().Draw(t, "intX") {
				r.IntX = true
			}
			c.Recs = append(c.Recs, r)
		}
		if n > 0 {
			np := rapid.IntRange(0, 4).Draw(t, "parts")
			rest := n
			for i := 0; i < np && rest > 0; i++ {
				l := rapid.IntRange(0, rest).Draw(t, "partLen")
				c.Parts = append(c.Parts, l)
				rest -= l
			}
		}
		if msg := check(c); msg != "" {
			evid.Fail(t, prop, "c20", "", c, "%s", msg)
		}
		nt := cls["x_on_edge"] || cls["x_far_outside"] || cls["y_on_edge"] || cls["y_far_outside"] || len(c.Parts) >= 2
		var names []string
		for k := range cls {
			names = append(names, k)
		}
		if c.TwoD {
			names = append(names, "two_dimensional")
		} else {
			names = append(names, "one_dimensional")
		}
		if len(c.Parts) >= 2 {
			names = append(names, "additivity_over_2plus_parts")
		}
		if c.X.Count < 0 || c.Y.Count < 0 {
			names = append(names, "negative_count")
		}
		evid.R.Case(nt, fmt.Sprint(c), func() any {
			return map[string]any{"x_axis": c.X, "y_axis": c.Y, "two_d": c.TwoD, "x": xs(c.Recs), "parts": c.Parts}
		}, names...)
	})
}

func TestReplay(t *testing.T) {
	for _, path := range evid.ReplayFiles("c20") {
		var c Case
		if _, err := evid.ReadFailure(path, &c); err != nil {
			t.Fatalf("cannot read %s: %v", path, err)
		}
		if msg := check(c); msg != "" {
			evid.ReplayFailed(t, path, msg)
		}
	}
}
