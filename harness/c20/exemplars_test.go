package c20

import (
	"os"
	"path/filepath"
	"testing"

	"verif/harness/evid"
)

func TestMakeExemplars(t *testing.T) {
	dir := os.Getenv("VERIF_MAKE_EXEMPLARS")
	if dir == "" {
		t.Skip("VERIF_MAKE_EXEMPLARS not set")
	}
	cases := map[string]Case{
		"F23-far-above-range-1d": {Recs: []Rec{{X: 1e30, W: 1}, {X: -1e30, W: 1}, {X: 1, W: 1, IntX: true}}, X: Axis{0, 1, 2}},
		"F23-far-above-range-2d": {Recs: []Rec{{X: 1e30, Y: 1e300, W: 1}, {X: 0.5, Y: -1e30, W: 2}}, X: Axis{0, 1, 2}, Y: Axis{0, 0.5, 3}, TwoD: true, Parts: []int{1, 1}},
		"F5-negative-count":      {Recs: []Rec{{X: 1, W: 1}}, X: Axis{0, 1, -1}},
		"edges-and-additivity": {Recs: []Rec{{X: 0, W: 1}, {X: 1, W: 2}, {X: 2, W: 4}, {X: 3, W: 8}, {X: 2.999, W: 16}, {X: -0.001, W: 32}}, X: Axis{0, 1, 3},
			Parts: []int{2, 0, 3}},
	}
	for name, c := range cases {
		os.Setenv("VERIF_FAILFILE", filepath.Join(dir, name+".json"))
		evid.WriteFailure(evid.Failure{Property: prop, Test: "c20", Message: "regression exemplar", Case: c})
	}
}
