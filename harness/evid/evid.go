// Package evid collects what a check actually explored (counts, class histogram,
// fingerprints of distinct non-trivial cases, samples) and writes it as a shard
// statistics file that the driver (/verif/check) merges into evidence/<ID>.json.
// It also implements the failure protocol: a failing case is written as a pure data
// file (the replay file) before the test is failed.
package evid

import (
	"encoding/binary"
	"encoding/json"
	"fmt"
	"hash/fnv"
	"os"
	"sort"
	"strconv"
	"sync"
)

// Failer is implemented by *testing.T and *rapid.T.
type Failer interface {
	Fatalf(format string, args ...any)
}

type Rec struct {
	mu          sync.Mutex
	Evaluations int64
	NonTrivial  int64
	Skipped     int64
	Classes     map[string]int64
	Excluded    map[string]int64
	// KnownObserved: failures attributed to an open known finding, by finding id
	KnownObserved map[string]int64
	Extra         map[string]any
	fps         map[uint64]struct{}
	samples     []any
	sampleEvery int64
	maxFps      int
}

var R = New()

func New() *Rec {
	return &Rec{Classes: map[string]int64{}, Excluded: map[string]int64{}, KnownObserved: map[string]int64{}, Extra: map[string]any{},
		fps: map[uint64]struct{}{}, sampleEvery: 1, maxFps: 4_000_000}
}

func Hash(s string) uint64 {
	h := fnv.New64a()
	h.Write([]byte(s))
	return h.Sum64()
}

// Case records one executed case. key identifies the case for the distinct count;
// sample is called rarely to obtain a printable form of the case.
func (r *Rec) Case(nontrivial bool, key string, sample func() any, classes ...string) {
	r.mu.Lock()
	defer r.mu.Unlock()
	r.Evaluations++
	for _, c := range classes {
		r.Classes[c]++
	}
	if !nontrivial {
		return
	}
	r.NonTrivial++
	if len(r.fps) < r.maxFps {
		r.fps[Hash(key)] = struct{}{}
	}
	// keep up to 8 samples spread over the run: sample cases 1,2,4,8,... of the
	// non-trivial ones, replacing round robin.
	if sample != nil && r.NonTrivial == r.sampleEvery {
		r.sampleEvery *= 3
		s := sample()
		if len(r.samples) < 8 {
			r.samples = append(r.samples, s)
		} else {
			r.samples[int(r.NonTrivial)%8] = s
		}
	}
}

func (r *Rec) Class(c string) {
	r.mu.Lock()
	r.Classes[c]++
	r.mu.Unlock()
}

func (r *Rec) ClassN(c string, n int64) {
	r.mu.Lock()
	r.Classes[c] += n
	r.mu.Unlock()
}

func (r *Rec) Skip() {
	r.mu.Lock()
	r.Skipped++
	r.mu.Unlock()
}

func (r *Rec) Exclude(finding string) {
	r.mu.Lock()
	r.Excluded[finding]++
	r.mu.Unlock()
}

// Known records that a case failed in exactly the way an open known finding
// describes (the driver prints KNOWN-FINDING for it; the search continues).
func (r *Rec) Known(finding string) {
	r.mu.Lock()
	r.KnownObserved[finding]++
	r.mu.Unlock()
}

func (r *Rec) SetExtra(k string, v any) {
	r.mu.Lock()
	r.Extra[k] = v
	r.mu.Unlock()
}

type statsFile struct {
	Evaluations int64            `json:"evaluations"`
	NonTrivial  int64            `json:"nontrivial"`
	Skipped     int64            `json:"skipped"`
	Classes     map[string]int64 `json:"classes"`
	Excluded    map[string]int64 `json:"excluded"`
	Known       map[string]int64 `json:"known_observed"`
	Extra       map[string]any   `json:"extra"`
	Samples     []any            `json:"samples"`
	Distinct    int              `json:"distinct_in_shard"`
	FpFile      string           `json:"fp_file"`
}

// Flush writes the shard statistics to $VERIF_STATS (JSON) and the fingerprints to
// $VERIF_STATS.fp (raw little-endian uint64). Without the variable nothing is written.
func (r *Rec) Flush() {
	path := os.Getenv("VERIF_STATS")
	if path == "" {
		return
	}
	r.mu.Lock()
	defer r.mu.Unlock()
	fp := make([]uint64, 0, len(r.fps))
	for k := range r.fps {
		fp = append(fp, k)
	}
	sort.Slice(fp, func(i, j int) bool { return fp[i] < fp[j] })
	buf := make([]byte, 8*len(fp))
	for i, v := range fp {
		binary.LittleEndian.PutUint64(buf[8*i:], v)
	}
	_ = os.WriteFile(path+".fp", buf, 0o644)
	sf := statsFile{r.Evaluations, r.NonTrivial, r.Skipped, r.Classes, r.Excluded, r.KnownObserved, r.Extra, r.samples, len(fp), path + ".fp"}
	b, _ := json.MarshalIndent(sf, "", " ")
	_ = os.WriteFile(path, b, 0o644)
}

// Failure is the content of a replay file.
type Failure struct {
	Property string `json:"property"`
	Test     string `json:"test"`
	// Finding names the known-finding classifier the case matches ("" if none).
	Finding string `json:"finding,omitempty"`
	Message string `json:"message"`
	Case    any    `json:"case"`
}

// WriteFailure stores the failing case in $VERIF_FAILFILE (overwriting: rapid runs the
// minimal case last, so the last one written is the shrunk one).
func WriteFailure(f Failure) {
	path := os.Getenv("VERIF_FAILFILE")
	if path == "" {
		return
	}
	b, err := json.MarshalIndent(f, "", " ")
	if err != nil {
		b = []byte(fmt.Sprintf(`{"property":%q,"message":%q}`, f.Property, f.Message+" (case not serialisable: "+err.Error()+")"))
	}
	_ = os.WriteFile(path, b, 0o644)
}

// Fail writes the replay file and fails the test.
func Fail(t Failer, property, test, finding string, c any, format string, args ...any) {
	msg := fmt.Sprintf(format, args...)
	WriteFailure(Failure{Property: property, Test: test, Finding: finding, Message: msg, Case: c})
	t.Fatalf("%s", msg)
}

// ReadFailure loads a replay file and decodes its case into c.
func ReadFailure(path string, c any) (Failure, error) {
	b, err := os.ReadFile(path)
	if err != nil {
		return Failure{}, err
	}
	var raw struct {
		Property string          `json:"property"`
		Test     string          `json:"test"`
		Finding  string          `json:"finding"`
		Message  string          `json:"message"`
		Case     json.RawMessage `json:"case"`
	}
	if err := json.Unmarshal(b, &raw); err != nil {
		return Failure{}, err
	}
	if err := json.Unmarshal(raw.Case, c); err != nil {
		return Failure{}, err
	}
	return Failure{Property: raw.Property, Test: raw.Test, Finding: raw.Finding, Message: raw.Message}, nil
}

// Tier returns "quick" or "thorough".
func Tier() string {
	if os.Getenv("VERIF_TIER") == "thorough" {
		return "thorough"
	}
	return "quick"
}

func Thorough() bool { return Tier() == "thorough" }

// EnvInt reads an integer environment variable.
func EnvInt(name string, def int) int {
	if s := os.Getenv(name); s != "" {
		if v, err := strconv.Atoi(s); err == nil {
			return v
		}
	}
	return def
}

// Shard returns (index, count) of this process among the driver's shards.
func Shard() (int, int) {
	return EnvInt("VERIF_SHARD", 0), EnvInt("VERIF_SHARDS", 1)
}

// ReplayFiles returns the replay files given in $VERIF_REPLAY_FILES (separated by
// newlines) whose "test" field equals test ("" = all).
func ReplayFiles(test string) []string {
	var out []string
	for _, p := range splitLines(os.Getenv("VERIF_REPLAY_FILES")) {
		b, err := os.ReadFile(p)
		if err != nil {
			continue
		}
		var raw struct {
			Test string `json:"test"`
		}
		if json.Unmarshal(b, &raw) != nil {
			continue
		}
		if test == "" || raw.Test == test {
			out = append(out, p)
		}
	}
	return out
}

func splitLines(s string) []string {
	var out []string
	cur := ""
	for _, r := range s {
		if r == '\n' {
			if cur != "" {
				out = append(out, cur)
			}
			cur = ""
		} else {
			cur += string(r)
		}
	}
	if cur != "" {
		out = append(out, cur)
	}
	return out
}

type errorfer interface {
	Errorf(format string, args ...any)
}

// ReplayFailed reports that a replay file still fails. The line is parsed by the driver.
func ReplayFailed(t errorfer, path, msg string) {
	fmt.Printf("REPLAY-FAIL file=%s msg=%s\n", path, strconv.Quote(msg))
	t.Errorf("replay %s still fails: %s", path, msg)
}

// ReplayPassed reports that a replay file passes now.
func ReplayPassed(path string) {
	fmt.Printf("REPLAY-PASS file=%s\n", path)
}

var pendingFile *os.File

// Pending records the case that is about to run in $VERIF_FAILFILE.pending. If the
// process dies (a panic on a foreign goroutine, a fatal stack overflow) the driver finds
// the case there and confirms it through the isolated replay. ClearPending removes it.
func Pending(property, test string, c any) {
	path := os.Getenv("VERIF_FAILFILE")
	if path == "" {
		return
	}
	if pendingFile == nil {
		f, err := os.OpenFile(path+".pending", os.O_RDWR|os.O_CREATE|os.O_TRUNC, 0o644)
		if err != nil {
			return
		}
		pendingFile = f
	}
	b, err := json.Marshal(Failure{Property: property, Test: test, Message: "the process died while this case was running", Case: c})
	if err != nil {
		return
	}
	_ = pendingFile.Truncate(0)
	_, _ = pendingFile.WriteAt(b, 0)
}

func ClearPending() {
	if pendingFile != nil {
		name := pendingFile.Name()
		pendingFile.Close()
		pendingFile = nil
		_ = os.Remove(name)
	}
}

// ReadFuzzCorpusFile reads the single []byte argument of a Go fuzz corpus file named
// by $VERIF_FUZZ_FILE.
func ReadFuzzCorpusFile() ([]byte, bool) {
	p := os.Getenv("VERIF_FUZZ_FILE")
	if p == "" {
		return nil, false
	}
	b, err := os.ReadFile(p)
	if err != nil {
		return nil, false
	}
	for _, line := range splitLines(string(b)) {
		const pre = "[]byte("
		if len(line) > len(pre)+1 && line[:len(pre)] == pre && line[len(line)-1] == ')' {
			s, err := strconv.Unquote(line[len(pre) : len(line)-1])
			if err != nil {
				return nil, false
			}
			return []byte(s), true
		}
	}
	return nil, false
}
