// Package c14: equality and ordering operators obey their algebraic laws.
package c14

import (
	"fmt"
	"math"
	"testing"

	"github.com/hneemann/iterator"
	"github.com/hneemann/parser2/funcGen"
	"github.com/hneemann/parser2/listMap"
	"github.com/hneemann/parser2/value"
	"pgregory.net/rapid"

	"verif/harness/evid"
	"verif/harness/lang"
	"verif/harness/obs"
	"verif/harness/progs"
	"verif/harness/ref"
)

const prop = "C14"

// Val is a JSON-serialisable value description with a representation choice.
type Val struct {
	K    string   `json:"k"` // int float str bool list map closure
	I    int      `json:"i,omitempty"`
	F    float64  `json:"f,omitempty"`
	FS   string   `json:"fs,omitempty"` // nan, +inf, -inf, -0
	S    string   `json:"s,omitempty"`
	B    bool     `json:"b,omitempty"`
	Keys []string `json:"keys,omitempty"`
	X    []Val    `json:"x,omitempty"`
	Rep  int      `json:"rep,omitempty"` // list: 0 slice, 1 lazy, 2 lazy then evaluated; map: obs.MapRep
}

func (v Val) float() float64 {
	switch v.FS {
	case "nan":
		return math.NaN()
	case "+inf":
		return math.Inf(1)
	case "-inf":
		return math.Inf(-1)
	case "-0":
		return math.Copysign(0, -1)
	}
	return v.F
}

func (v Val) ref() ref.Value {
	switch v.K {
	case "int":
		return ref.Int(v.I)
	case "float":
		return ref.Float(v.float())
	case "str":
		return ref.Str(v.S)
	case "bool":
		return ref.Bool(v.B)
	case "list":
		l := &ref.List{}
		for _, x := range v.X {
			l.Items = append(l.Items, x.ref())
		}
		return l
	case "map":
		m := &ref.Map{}
		for i, x := range v.X {
			m.Keys = append(m.Keys, v.Keys[i])
			m.Vals = append(m.Vals, x.ref())
		}
		return m
	case "closure":
		return &ref.Closure{N: 1}
	}
	panic("bad val")
}

var idClosure = func() value.Value {
	f, _, err := value.New().Generate("a->a+1")
	if err != nil {
		panic(err)
	}
	v, err := f.Eval()
	if err != nil {
		panic(err)
	}
	return v
}()

func (v Val) impl() value.Value {
	switch v.K {
	case "int":
		return value.Int(v.I)
	case "float":
		return value.Float(v.float())
	case "str":
		return value.String(v.S)
	case "bool":
		return value.Bool(v.B)
	case "list":
		items := make([]value.Value, len(v.X))
		for i, x := range v.X {
			items[i] = x.impl()
		}
		switch v.Rep % 3 {
		case 1, 2:
			l := value.NewListFromIterable(func(st funcGen.Stack[value.Value]) iterator.Producer[value.Value] {
				return iterator.Slice(items)
			})
			if v.Rep%3 == 2 {
				_ = l.Eval(funcGen.NewEmptyStack[value.Value]())
			}
			return l
		}
		return value.NewList(items...)
	case "map":
		return buildMap(v)
	case "closure":
		return idClosure
	}
	panic("bad val")
}

func buildMap(v Val) value.Value {
	keys := v.Keys
	vals := make([]value.Value, len(v.X))
	for i, x := range v.X {
		vals[i] = x.impl()
	}
	switch obs.MapRep(v.Rep % 4) {
	case obs.RepRealMap:
		rm := value.RealMap{}
		for i, k := range keys {
			rm[k] = vals[i]
		}
		return value.NewMap(rm)
	case obs.RepAppend:
		var cur value.Map = value.NewMap(value.RealMap{})
		put, _, err := value.New().Generate("m.put(k,v)", "m", "k", "v")
		if err != nil {
			panic(err)
		}
		for i, k := range keys {
			r, err := put.Eval(cur, value.String(k), vals[i])
			if err != nil {
				panic(err)
			}
			cur = r.(value.Map)
		}
		return cur
	case obs.RepMerge:
		if len(keys) >= 2 {
			a, b := value.RealMap{}, value.RealMap{}
			for i, k := range keys {
				if i%2 == 0 {
					a[k] = vals[i]
				} else {
					b[k] = vals[i]
				}
			}
			m, err := value.NewMap(a).Merge(value.NewMap(b))
			if err != nil {
				panic(err)
			}
			return m
		}
	}
	lm := listMap.New[value.Value](len(keys))
	for i, k := range keys {
		lm = lm.Append(k, vals[i])
	}
	return value.NewMap(lm)
}

// literal renders the value as program text (ok=false: no literal form).
func (v Val) literal() (*lang.Expr, bool) {
	switch v.K {
	case "int":
		return lang.Int(v.I), true
	case "float":
		if v.FS != "" {
			return nil, false
		}
		if v.F != math.Trunc(v.F*1024)/1024 || math.Abs(v.F) > 1e15 {
			return nil, false // keep literals short and exactly representable in decimal
		}
		return lang.Float(v.F), true
	case "str":
		return lang.Str(v.S), true
	case "bool":
		return lang.Bool(v.B), true
	case "list":
		items := make([]*lang.Expr, len(v.X))
		for i, x := range v.X {
			e, ok := x.literal()
			if !ok {
				return nil, false
			}
			items[i] = e
		}
		return lang.List(items...), true
	case "map":
		vals := make([]*lang.Expr, len(v.X))
		for i, x := range v.X {
			e, ok := x.literal()
			if !ok {
				return nil, false
			}
			vals[i] = e
		}
		return lang.Map(v.Keys, vals), true
	case "closure":
		return lang.Lam([]string{"a"}, lang.Bin("+", lang.Var("a"), lang.Int(1))), true
	}
	return nil, false
}

// ---- model ---------------------------------------------------------------------------

type tri int

const (
	tFalse tri = iota
	tTrue
	tErr
	tIndet  // the documented outcome depends on the iteration order: false or error
	tIndetT // the negation of that: true or error
)

func (t tri) String() string {
	if t < 0 || int(t) > 4 {
		return fmt.Sprintf("tri(%d)", int(t))
	}
	return [...]string{"false", "true", "error", "false-or-error", "true-or-error"}[t]
}

// modelEqual: lists element-wise in index order (stops at the first unequal or
// incomparable pair), maps key-wise: if the pairs contain both an unequal and an
// incomparable one the outcome depends on the iteration order of the storage.
func modelEqual(a, b ref.Value) tri {
	switch x := a.(type) {
	case *ref.List:
		if y, ok := b.(*ref.List); ok {
			if len(x.Items) != len(y.Items) {
				return tFalse
			}
			for i := range x.Items {
				switch modelEqual(x.Items[i], y.Items[i]) {
				case tFalse:
					return tFalse
				case tErr:
					return tErr
				case tIndet:
					return tIndet
				}
			}
			return tTrue
		}
		return tErr
	case *ref.Map:
		if y, ok := b.(*ref.Map); ok {
			if len(x.Keys) != len(y.Keys) {
				return tFalse
			}
			anyFalse, anyErr := false, false
			for i, k := range x.Keys {
				o, ok := y.Get(k)
				if !ok {
					anyFalse = true
					continue
				}
				switch modelEqual(o, x.Vals[i]) {
				case tFalse:
					anyFalse = true
				case tErr:
					anyErr = true
				case tIndet:
					anyFalse, anyErr = true, true
				}
			}
			switch {
			case anyFalse && anyErr:
				return tIndet
			case anyFalse:
				return tFalse
			case anyErr:
				return tErr
			}
			return tTrue
		}
		return tErr
	}
	eq, err := ref.Equal(a, b)
	if err != nil {
		return tErr
	}
	if eq {
		return tTrue
	}
	return tFalse
}

func modelLess(a, b ref.Value) tri {
	l, err := ref.Less(a, b)
	if err != nil {
		return tErr
	}
	if l {
		return tTrue
	}
	return tFalse
}

func neg(t tri) tri {
	switch t {
	case tTrue:
		return tFalse
	case tFalse:
		return tTrue
	case tIndet:
		return tIndetT
	case tIndetT:
		return tIndet
	}
	return t
}

func modelOp(op string, a, b ref.Value) tri {
	switch op {
	case "=":
		return modelEqual(a, b)
	case "!=":
		return neg(modelEqual(a, b))
	case "<":
		return modelLess(a, b)
	case ">":
		return modelLess(b, a)
	case "<=", ">=":
		x, y := a, b
		if op == ">=" {
			x, y = b, a
		}
		l := modelLess(x, y)
		if l == tErr {
			return tErr
		}
		if l == tTrue {
			return tTrue
		}
		return modelEqual(a, b)
	case "~":
		if l, ok := b.(*ref.List); ok {
			if la, isList := a.(*ref.List); isList {
				// the list form: every item of a is found in l, each item of l serves once. The
				// items of l are visited in order, the remaining items of a are tried in order, the
				// first comparison that fails ends the search, and the search ends as soon as
				// nothing is left to look for.
				lookFor := append([]ref.Value{}, la.Items...)
				if len(lookFor) == 0 {
					return tTrue
				}
				for _, it := range l.Items {
					for i, lf := range lookFor {
						eq := modelEqual(lf, it)
						if eq == tErr || eq == tIndet {
							return -1 // which comparison fails first is an implementation detail
						}
						if eq == tTrue {
							lookFor = append(lookFor[:i:i], lookFor[i+1:]...)
							break
						}
					}
					if len(lookFor) == 0 {
						return tTrue
					}
				}
				return tFalse
			}
			for _, it := range l.Items {
				switch modelEqual(a, it) {
				case tTrue:
					return tTrue
				case tErr:
					return tErr
				case tIndet:
					return tIndet
				}
			}
			return tFalse
		}
		v, err := ref.Contains(a, b)
		if err != nil {
			return tErr
		}
		if v.(ref.Bool) {
			return tTrue
		}
		return tFalse
	}
	panic("op")
}

// ---- evaluation on the implementation ------------------------------------------------------

var gen = progs.NewImpl(true)
var compiled = map[string]funcGen.Func[value.Value]{}

func evalOp(op string, a, b Val, literal bool) (tri, string) {
	if literal {
		la, ok1 := a.literal()
		lb, ok2 := b.literal()
		if !ok1 || !ok2 {
			return -1, ""
		}
		text := lang.Render(lang.Bin(op, la, lb))
		f, _, err := gen.Generate(text)
		if err != nil {
			return tErr, "Generate(" + text + "): " + err.Error()
		}
		v, err := f.Eval()
		return toTri(v, err), text
	}
	f, ok := compiled[op]
	if !ok {
		var err error
		f, _, err = gen.Generate("a "+op+" b", "a", "b")
		if err != nil {
			panic(err)
		}
		compiled[op] = f
	}
	v, err := f.Eval(a.impl(), b.impl())
	return toTri(v, err), "a " + op + " b"
}

func toTri(v value.Value, err error) tri {
	if err != nil {
		return tErr
	}
	if b, ok := v.(value.Bool); ok {
		if b {
			return tTrue
		}
		return tFalse
	}
	return 5 // not a boolean
}

func agrees(got, want tri) bool {
	if want == tIndet {
		return got == tFalse || got == tErr
	}
	if want == tIndetT {
		return got == tTrue || got == tErr
	}
	return got == want
}

// Case: a triple of values.
type Case struct {
	A, B, C Val
}

func show(v Val) string { return ref.Show(v.ref()) + fmt.Sprintf("/rep%d", v.Rep) }

func hasNaNOrClosure(v ref.Value) bool {
	switch x := v.(type) {
	case ref.Float:
		return math.IsNaN(float64(x))
	case *ref.Closure:
		return true
	case *ref.List:
		for _, it := range x.Items {
			if hasNaNOrClosure(it) {
				return true
			}
		}
	case *ref.Map:
		for _, it := range x.Vals {
			if hasNaNOrClosure(it) {
				return true
			}
		}
	}
	return false
}

var ops = []string{"=", "!=", "<", ">", "<=", ">=", "~"}

func check(c Case) string {
	vals := []Val{c.A, c.B, c.C}
	for _, literal := range []bool{false, true} {
		path := "run-time path"
		if literal {
			path = "constant-folding path"
		}
		res := map[string]tri{}
		get := func(op string, i, j int) tri {
			key := fmt.Sprint(op, i, j)
			if r, ok := res[key]; ok {
				return r
			}
			r, _ := evalOp(op, vals[i], vals[j], literal)
			res[key] = r
			return r
		}
		for i := 0; i < 3; i++ {
			for j := 0; j < 3; j++ {
				a, b := vals[i], vals[j]
				ra, rb := a.ref(), b.ref()
				for _, op := range ops {
					got := get(op, i, j)
					if got == -1 {
						continue
					}
					want := modelOp(op, ra, rb)
					if want == -1 {
						continue
					}
					if !agrees(got, want) {
						return fmt.Sprintf("%s: %s %s %s gives %v, the laws demand %v", path, show(a), op, show(b), got, want)
					}
				}
				eq, ne, lt, gt, le, ge := get("=", i, j), get("!=", i, j), get("<", i, j), get(">", i, j), get("<=", i, j), get(">=", i, j)
				if eq == -1 {
					continue
				}
				// metamorphic relations between the implementation's own answers
				if eqr := get("=", j, i); !((eq == eqr) || (modelEqual(ra, rb) == tIndet)) {
					return fmt.Sprintf("%s: '=' is not symmetric on %s, %s: %v vs %v", path, show(a), show(b), eq, eqr)
				}
				if modelEqual(ra, rb) != tIndet && ne != neg(eq) {
					return fmt.Sprintf("%s: %s != %s gives %v but '=' gives %v", path, show(a), show(b), ne, eq)
				}
				if gt != get("<", j, i) {
					return fmt.Sprintf("%s: %s > %s gives %v but the swapped '<' gives %v", path, show(a), show(b), gt, get("<", j, i))
				}
				if ge != get("<=", j, i) && modelEqual(ra, rb) != tIndet {
					return fmt.Sprintf("%s: %s >= %s gives %v but the swapped '<=' gives %v", path, show(a), show(b), ge, get("<=", j, i))
				}
				if lt != tErr && eq != tErr {
					want := tFalse
					if lt == tTrue || eq == tTrue {
						want = tTrue
					}
					if le != want {
						return fmt.Sprintf("%s: %s <= %s gives %v but '<' gives %v and '=' gives %v", path, show(a), show(b), le, lt, eq)
					}
				}
				if lt == tTrue && get("<", j, i) == tTrue {
					return fmt.Sprintf("%s: '<' is not asymmetric on %s, %s", path, show(a), show(b))
				}
				if i == j {
					if !hasNaNOrClosure(ra) && eq != tTrue {
						return fmt.Sprintf("%s: '=' is not reflexive on %s: %v", path, show(a), eq)
					}
					if lt == tTrue {
						return fmt.Sprintf("%s: '<' is not irreflexive on %s", path, show(a))
					}
				}
			}
		}
		// transitivity of '<' over all permutations of the triple
		for i := 0; i < 3; i++ {
			for j := 0; j < 3; j++ {
				for k := 0; k < 3; k++ {
					if get("<", i, j) == tTrue && get("<", j, k) == tTrue && get("<", i, k) != tTrue {
						return fmt.Sprintf("%s: '<' is not transitive: %s < %s < %s but the first is not less than the last (%v)", path,
							show(vals[i]), show(vals[j]), show(vals[k]), get("<", i, k))
					}
				}
			}
		}
	}
	for _, v := range vals {
		if msg := checkSameObject(v); msg != "" {
			return msg
		}
	}
	return checkDerived(c)
}

// checkSameObject: the very same value object on both sides of an operator (an argument
// used twice, a let bound value, a list shared by two containers) is compared like two
// independently built copies: element-wise, so NaN makes '=' false and a closure makes it fail.
func checkSameObject(v Val) string {
	rv := v.ref()
	one := ref.Int(1)
	shapes := []struct {
		text  string
		model ref.Value
	}{
		{"a %s a", rv},
		{"[1, a] %s [1, a]", &ref.List{Items: []ref.Value{one, rv}}},
		{"{k: a} %s {k: a}", &ref.Map{Keys: []string{"k"}, Vals: []ref.Value{rv}}},
		{"let l = [a, 1]; l %s l", &ref.List{Items: []ref.Value{rv, one}}},
		{"let m = {k: a}; m %s m", &ref.Map{Keys: []string{"k"}, Vals: []ref.Value{rv}}},
	}
	x := v.impl()
	lit, hasLit := v.literal()
	for _, sh := range shapes {
		for _, op := range ops {
			want := modelOp(op, sh.model, sh.model)
			if want == -1 {
				continue
			}
			text := fmt.Sprintf(sh.text, op)
			got := toTri(derivedFn(text, "a").Eval(x))
			if !agrees(got, want) {
				return fmt.Sprintf("run-time path, the same object on both sides: %s with a=%s gives %v, two separately built copies compare as %v", text, show(v), got, want)
			}
			if hasLit {
				text2 := "let a = " + lang.Render(lit) + "; " + text
				f, _, err := gen.Generate(text2)
				if err != nil {
					return "Generate(" + text2 + "): " + err.Error()
				}
				if got := toTri(f.Eval()); !agrees(got, want) {
					return fmt.Sprintf("constant-folding path, the same object on both sides: %s gives %v, two separately built copies compare as %v", text2, got, want)
				}
			}
		}
	}
	return ""
}

var derived = map[string]funcGen.Func[value.Value]{}

func derivedFn(text string, args ...string) funcGen.Func[value.Value] {
	if f, ok := derived[text]; ok {
		return f
	}
	f, _, err := gen.Generate(text, args...)
	if err != nil {
		panic(text + ": " + err.Error())
	}
	derived[text] = f
	return f
}

// checkDerived: min/max/list.min/list.max/minMax/order/switch agree with '<' and '='.
func checkDerived(c Case) string {
	a, b, cc := c.A, c.B, c.C
	ra, rb, rc := a.ref(), b.ref(), cc.ref()
	ia, ib, ic := a.impl(), b.impl(), cc.impl()
	allLess := true
	for _, p := range [][2]ref.Value{{ra, rb}, {rb, rc}, {ra, rc}, {rb, ra}, {rc, rb}, {rc, ra}} {
		if modelLess(p[0], p[1]) == tErr {
			allLess = false
		}
	}
	// the smallest / largest by the model (first one wins on ties, like a left fold)
	fold := func(vals []ref.Value, max bool) ref.Value {
		best := vals[0]
		for _, v := range vals[1:] {
			var l tri
			if max {
				l = modelLess(best, v)
			} else {
				l = modelLess(v, best)
			}
			if l == tTrue {
				best = v
			}
		}
		return best
	}
	type dc struct {
		text string
		args []string
		max  bool
	}
	for _, d := range []dc{{"min(a,b,c)", []string{"a", "b", "c"}, false}, {"max(a,b,c)", []string{"a", "b", "c"}, true},
		{"[a,b,c].min()", []string{"a", "b", "c"}, false}, {"[a,b,c].max()", []string{"a", "b", "c"}, true},
		{"[a,b,c].minMax(e->e).min", []string{"a", "b", "c"}, false}, {"[a,b,c].minMax(e->e).max", []string{"a", "b", "c"}, true}} {
		got := progs.Observe(derivedFn(d.text, d.args...).Eval(ia, ib, ic))
		if !allLess {
			if got.Err == nil {
				// with incomparable operands an error is demanded only if an incomparable pair
				// is actually compared by a left fold
				best := ra
				bad := false
				for _, v := range []ref.Value{rb, rc} {
					var l tri
					if d.max {
						l = modelLess(best, v)
					} else {
						l = modelLess(v, best)
					}
					if l == tErr {
						bad = true
						break
					}
					if l == tTrue {
						best = v
					}
				}
				if bad {
					return fmt.Sprintf("%s on a=%s b=%s c=%s returns %s although the operands are incomparable", d.text, show(a), show(b), show(cc), ref.Show(got.Val))
				}
			}
			continue
		}
		if got.Err != nil {
			return fmt.Sprintf("%s on a=%s b=%s c=%s fails: %v", d.text, show(a), show(b), show(cc), got.Err)
		}
		want := fold([]ref.Value{ra, rb, rc}, d.max)
		if !ref.Same(want, got.Val, 0) {
			return fmt.Sprintf("%s on a=%s b=%s c=%s = %s, by '<' it is %s", d.text, show(a), show(b), show(cc), ref.Show(got.Val), ref.Show(want))
		}
	}
	if allLess {
		// order: a sorted permutation
		got := progs.Observe(derivedFn("[a,b,c].order(e->e)", "a", "b", "c").Eval(ia, ib, ic))
		if got.Err != nil {
			return fmt.Sprintf("[a,b,c].order(e->e) fails on comparable operands: %v", got.Err)
		}
		l, ok := got.Val.(*ref.List)
		if !ok || len(l.Items) != 3 || l.Err != nil {
			return fmt.Sprintf("[a,b,c].order(e->e) = %s", ref.Show(got.Val))
		}
		for i := 0; i+1 < 3; i++ {
			if modelLess(l.Items[i+1], l.Items[i]) == tTrue {
				return fmt.Sprintf("[a,b,c].order(e->e) = %s is not ordered by '<'", ref.Show(got.Val))
			}
		}
		in := &ref.List{Items: []ref.Value{ra, rb, rc}, Unordered: true}
		if !ref.Same(in, l, 0) {
			return fmt.Sprintf("[a,b,c].order(e->e) = %s is not a permutation of %s", ref.Show(got.Val), ref.Show(in))
		}
	}
	// order with an element that '<' cannot compare with ANY of the others: every sort has
	// to compare it with one of them, so order and orderRev fail - in every arrangement
	{
		rs := []ref.Value{ra, rb, rc}
		is := []value.Value{ia, ib, ic}
		odd := false
		for i := range rs {
			all := true
			for j := range rs {
				if i != j && !(modelLess(rs[i], rs[j]) == tErr && modelLess(rs[j], rs[i]) == tErr) {
					all = false
				}
			}
			odd = odd || all
		}
		if odd {
			for _, perm := range [][3]int{{0, 1, 2}, {0, 2, 1}, {1, 0, 2}, {1, 2, 0}, {2, 0, 1}, {2, 1, 0}} {
				for _, m := range []string{"order", "orderRev"} {
					got := progs.Observe(derivedFn("[a,b,c]."+m+"(e->e)", "a", "b", "c").Eval(is[perm[0]], is[perm[1]], is[perm[2]]))
					if got.Err == nil {
						if l, ok := got.Val.(*ref.List); !ok || l.Err == nil {
							return fmt.Sprintf("[a,b,c].%s(e->e) on a=%s b=%s c=%s returns %s although one element is incomparable with both others", m,
								ref.Show(rs[perm[0]]), ref.Show(rs[perm[1]]), ref.Show(rs[perm[2]]), ref.Show(got.Val))
						}
					}
				}
			}
		}
	}
	// switch agrees with '='
	sw := progs.Observe(derivedFn("switch a case b: 1 case c: 2 default 3", "a", "b", "c").Eval(ia, ib, ic))
	e1, e2 := modelEqual(ra, rb), modelEqual(ra, rc)
	var want tri = -1
	wantVal := 0
	switch {
	case e1 == tTrue:
		wantVal = 1
	case e1 == tErr:
		want = tErr
	case e1 == tIndet:
		want = tIndet
	case e2 == tTrue:
		wantVal = 2
	case e2 == tErr:
		want = tErr
	case e2 == tIndet:
		want = tIndet
	default:
		wantVal = 3
	}
	switch {
	case want == tErr:
		if sw.Err == nil {
			return fmt.Sprintf("switch a case b.. with a=%s b=%s c=%s returns %s, '=' fails on an operand pair", show(a), show(b), show(cc), ref.Show(sw.Val))
		}
	case want == tIndet:
	default:
		if sw.Err != nil || !ref.Same(ref.Int(wantVal), sw.Val, 0) {
			return fmt.Sprintf("switch a case b: 1 case c: 2 default 3 with a=%s b=%s c=%s gives %v, by '=' it is %d", show(a), show(b), show(cc), sw, wantVal)
		}
	}
	return ""
}

// ---- generators ------------------------------------------------------------------------------

var strPool = []string{"", "a", "ab", "abc", "b", "B", "ä", "ä", "zz", "10", "9", " "}

func genScalar(t *rapid.T, base *Val) Val {
	k := rapid.IntRange(0, 9).Draw(t, "skind")
	switch {
	case k < 3:
		i := rapid.IntRange(-5, 5).Draw(t, "int")
		if rapid.IntRange(0, 4).Draw(t, "bigInt") == 0 {
			i = rapid.SampledFrom([]int{1 << 52, 1<<53 - 1, -(1<<53 - 1), 1<<53 - 2, 1000000, -1 << 40}).Draw(t, "bigI") + rapid.IntRange(-1, 1).Draw(t, "d")
			if i >= 1<<53 {
				i = 1<<53 - 1
			}
		}
		return Val{K: "int", I: i}
	case k < 6:
		switch rapid.IntRange(0, 9).Draw(t, "fkind") {
		case 0:
			return Val{K: "float", FS: "nan"}
		case 1:
			return Val{K: "float", FS: rapid.SampledFrom([]string{"+inf", "-inf", "-0"}).Draw(t, "fs")}
		case 2, 3:
			// a float adjacent to an int
			i := float64(rapid.IntRange(-5, 5).Draw(t, "fi"))
			if rapid.Bool().Draw(t, "big") {
				i = float64(rapid.SampledFrom([]int{1 << 52, 1<<53 - 1, 1000000}).Draw(t, "fbig"))
			}
			switch rapid.IntRange(0, 2).Draw(t, "ulp") {
			case 0:
				return Val{K: "float", F: math.Nextafter(i, math.Inf(1))}
			case 1:
				return Val{K: "float", F: math.Nextafter(i, math.Inf(-1))}
			}
			return Val{K: "float", F: i}
		}
		return Val{K: "float", F: float64(rapid.IntRange(-20, 20).Draw(t, "f4")) / 4}
	case k < 8:
		return Val{K: "str", S: strPool[rapid.IntRange(0, len(strPool)-1).Draw(t, "s")]}
	case k < 9:
		return Val{K: "bool", B: rapid.Bool().Draw(t, "b")}
	default:
		return Val{K: "closure"}
	}
}

func genVal(t *rapid.T, d int) Val {
	k := rapid.IntRange(0, 9).Draw(t, "vkind")
	if d <= 0 || k < 6 {
		return genScalar(t, nil)
	}
	if k < 8 {
		n := rapid.IntRange(0, 3).Draw(t, "llen")
		v := Val{K: "list", Rep: rapid.IntRange(0, 2).Draw(t, "lrep")}
		for i := 0; i < n; i++ {
			v.X = append(v.X, genVal(t, d-1))
		}
		return v
	}
	n := rapid.IntRange(0, 3).Draw(t, "mlen")
	v := Val{K: "map", Rep: rapid.IntRange(0, 3).Draw(t, "mrep")}
	keys := []string{"a", "b", "c"}
	for i := 0; i < n; i++ {
		v.Keys = append(v.Keys, keys[i])
		v.X = append(v.X, genVal(t, d-1))
	}
	return v
}

// vary returns a value related to v: itself in another representation, a numeric
// neighbour, or a container differing in one place.
func vary(t *rapid.T, v Val, d int) Val {
	switch rapid.IntRange(0, 5).Draw(t, "vary") {
	case 0:
		c := v
		c.Rep = rapid.IntRange(0, 3).Draw(t, "rep2")
		return c
	case 1:
		switch v.K {
		case "int":
			if rapid.Bool().Draw(t, "asFloat") {
				return Val{K: "float", F: float64(v.I)}
			}
			return Val{K: "int", I: v.I + rapid.IntRange(-1, 1).Draw(t, "di")}
		case "float":
			if v.FS == "" && v.F == math.Trunc(v.F) && math.Abs(v.F) < 1e15 {
				return Val{K: "int", I: int(v.F)}
			}
		case "list", "map":
			if len(v.X) > 0 {
				c := v
				c.X = append([]Val{}, v.X...)
				i := rapid.IntRange(0, len(c.X)-1).Draw(t, "which")
				c.X[i] = vary(t, c.X[i], d-1)
				c.Rep = rapid.IntRange(0, 3).Draw(t, "rep3")
				return c
			}
		}
	case 2:
		if v.K == "list" && len(v.X) > 1 {
			c := v
			c.X = append([]Val{}, v.X[1:]...)
			return c
		}
		if v.K == "map" && len(v.X) > 1 {
			// the same entries in another key order
			c := v
			c.Keys = append(append([]string{}, v.Keys[1:]...), v.Keys[0])
			c.X = append(append([]Val{}, v.X[1:]...), v.X[0])
			c.Rep = rapid.IntRange(0, 3).Draw(t, "rep4")
			return c
		}
	}
	return genVal(t, d)
}

func kindOf(v Val) string {
	if v.K == "list" || v.K == "map" {
		return fmt.Sprintf("%s/rep%d", v.K, v.Rep)
	}
	return v.K
}

func depth(v Val) int {
	m := 0
	for _, x := range v.X {
		if d := depth(x); d > m {
			m = d
		}
	}
	if v.K == "list" || v.K == "map" {
		return m + 1
	}
	return 0
}

func TestPropC14(t *testing.T) {
	defer evid.R.Flush()
	rapid.Check(t, func(t *rapid.T) {
		a := genVal(t, 2)
		b := vary(t, a, 2)
		c := vary(t, b, 2)
		cs := Case{a, b, c}
		if msg := check(cs); msg != "" {
			evid.Fail(t, prop, "c14", "", cs, "%s", msg)
		}
		nt := kindOf(a) != kindOf(b) || kindOf(b) != kindOf(c) || depth(a) >= 2 || depth(b) >= 2
		if !nt && a.K == "int" && b.K == "int" && abs(a.I-b.I) <= 1 {
			nt = true
		}
		var cls []string
		for _, v := range []Val{a, b, c} {
			cls = append(cls, "operand_"+v.K)
		}
		if depth(a) >= 2 || depth(b) >= 2 || depth(c) >= 2 {
			cls = append(cls, "container_depth_2plus")
		}
		for _, v := range []Val{a, b, c} {
			if hasNaNOrClosure(v.ref()) && (v.K == "list" || v.K == "map") {
				cls = append(cls, "container_with_NaN_or_closure_compared_with_itself")
			}
		}
		if modelEqual(a.ref(), b.ref()) == tErr || modelEqual(b.ref(), c.ref()) == tErr {
			cls = append(cls, "incomparable_pair")
		}
		evid.R.Case(nt, fmt.Sprint(show(a), show(b), show(c)), func() any {
			return map[string]any{"a": show(a), "b": show(b), "c": show(c)}
		}, dedup(cls)...)
	})
}

func abs(i int) int {
	if i < 0 {
		return -i
	}
	return i
}

func dedup(s []string) []string {
	seen := map[string]bool{}
	var out []string
	for _, x := range s {
		if !seen[x] {
			seen[x] = true
			out = append(out, x)
		}
	}
	return out
}

func TestReplay(t *testing.T) {
	for _, path := range evid.ReplayFiles("c14") {
		var c Case
		if _, err := evid.ReadFailure(path, &c); err != nil {
			t.Fatalf("cannot read %s: %v", path, err)
		}
		if msg := check(c); msg != "" {
			evid.ReplayFailed(t, path, msg)
		}
	}
}
