package c14

import (
	"os"
	"path/filepath"
	"testing"

	"verif/harness/evid"
)

func TestMakeExemplars(t *testing.T) {
	dir := os.Getenv("VERIF_MAKE_EXEMPLARS")
	if dir == "" {
		t.Skip("VERIF_MAKE_EXEMPLARS not set")
	}
	i := func(n int) Val { return Val{K: "int", I: n} }
	l := func(x ...Val) Val { return Val{K: "list", X: x} }
	nested := l(l(i(1)))
	cases := map[string]Case{
		"F25-nested-list-equality":        {nested, nested, l(l(i(2)))},
		"F25-list-in-map-equality":        {Val{K: "map", Keys: []string{"a"}, X: []Val{l(i(1))}}, Val{K: "map", Keys: []string{"a"}, X: []Val{l(i(1))}, Rep: 1}, i(1)},
		"F5-unequal-on-incomparable":      {i(1), Val{K: "str", S: "a"}, Val{K: "bool", B: true}},
		"same-object-with-NaN-or-closure": {l(i(1), Val{K: "float", FS: "nan"}), l(Val{K: "closure"}), Val{K: "map", Keys: []string{"a"}, X: []Val{Val{K: "float", FS: "nan"}}}},
		"int-float-neighbours":            {i(1<<53 - 1), Val{K: "float", F: 9007199254740992}, Val{K: "float", F: 9007199254740990}},
	}
	for name, c := range cases {
		os.Setenv("VERIF_FAILFILE", filepath.Join(dir, name+".json"))
		evid.WriteFailure(evid.Failure{Property: prop, Test: "c14", Message: "regression exemplar", Case: c})
	}
}
