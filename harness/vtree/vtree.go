// Package vtree generates value trees for the export checks (C17, C18): lists (eager
// and lazy), maps in several representations, scalars, and strings/keys over the whole
// unicode range weighted to the characters that need escaping.
package vtree

import (
	"fmt"
	"strconv"
	"unicode/utf8"

	"github.com/hneemann/iterator"
	"github.com/hneemann/parser2/funcGen"
	"github.com/hneemann/parser2/listMap"
	"github.com/hneemann/parser2/value"
	"github.com/hneemann/parser2/value/export"
	"pgregory.net/rapid"
)

// Tree is a JSON-serialisable value description.
type Tree struct {
	K    string   `json:"k"` // str int float bool list map format link file
	S    string   `json:"s,omitempty"`
	I    int      `json:"i,omitempty"`
	F    float64  `json:"f,omitempty"`
	B    bool     `json:"b,omitempty"`
	Keys []string `json:"keys,omitempty"`
	X    []Tree   `json:"x,omitempty"`
	Rep  int      `json:"rep,omitempty"`
	// Style: for format nodes the style (a string, a map, or a closure kind)
	Style *Tree `json:"style,omitempty"`
}

// Impl builds the implementation value.
func (t Tree) Impl() value.Value {
	switch t.K {
	case "str":
		return value.String(t.S)
	case "int":
		return value.Int(t.I)
	case "float":
		return value.Float(t.F)
	case "bool":
		return value.Bool(t.B)
	case "list":
		items := make([]value.Value, len(t.X))
		for i, x := range t.X {
			items[i] = x.Impl()
		}
		if t.Rep%2 == 1 {
			return value.NewListFromIterable(func(st funcGen.Stack[value.Value]) iterator.Producer[value.Value] {
				return iterator.Slice(items)
			})
		}
		return value.NewList(items...)
	case "map":
		if t.Rep == 3 {
			// a function map with optional attributes: declared keys that the function reports
			// as not available are no entries of the map
			vals := map[string]value.Value{}
			declared := []string{"\x00absent0"}
			for i, k := range t.Keys {
				vals[k] = t.X[i].Impl()
				declared = append(declared, k)
				if i%2 == 1 {
					declared = append(declared, fmt.Sprintf("\x00absent%d", i))
				}
			}
			fac := value.NewFuncMapFactory[value.Int](func(base value.Int, key string) (value.Value, bool) {
				v, ok := vals[key]
				return v, ok
			}, declared...)
			return fac.Create(value.Int(0))
		}
		switch t.Rep % 3 {
		case 1:
			rm := value.RealMap{}
			for i, k := range t.Keys {
				rm[k] = t.X[i].Impl()
			}
			return value.NewMap(rm)
		case 2:
			if len(t.Keys) >= 2 {
				a, b := value.RealMap{}, listMap.New[value.Value](2)
				for i, k := range t.Keys {
					if i%2 == 0 {
						a[k] = t.X[i].Impl()
					} else {
						b = b.Append(k, t.X[i].Impl())
					}
				}
				m, err := value.NewMap(a).Merge(value.NewMap(b))
				if err == nil {
					return m
				}
			}
		}
		lm := listMap.New[value.Value](len(t.Keys))
		for i, k := range t.Keys {
			lm = lm.Append(k, t.X[i].Impl())
		}
		return value.NewMap(lm)
	case "format":
		f := export.Format{Value: t.X[0].Impl(), Cell: t.B, ColSpan: t.I}
		if t.Style != nil {
			f.Format = t.Style.Impl()
		}
		return f
	case "link":
		return export.Link{Link: t.S, Value: t.X[0].Impl()}
	case "file":
		return export.File{Name: t.S, MimeType: t.Keys[0], Data: []byte(t.Keys[1])}
	}
	panic("vtree: bad kind " + t.K)
}

// ScalarString is the string form of a scalar leaf.
func (t Tree) ScalarString() string {
	switch t.K {
	case "str":
		return t.S
	case "int":
		return strconv.Itoa(t.I)
	case "float":
		return strconv.FormatFloat(t.F, 'g', -1, 64)
	case "bool":
		return strconv.FormatBool(t.B)
	case "file":
		return "file " + t.S + " (" + strconv.Itoa(len(t.Keys[1])) + " bytes)"
	}
	panic("not a scalar")
}

// Depth of container nesting.
func (t Tree) Depth() int {
	d := 0
	for _, x := range t.X {
		if xd := x.Depth(); xd > d {
			d = xd
		}
	}
	if t.K == "list" || t.K == "map" {
		return d + 1
	}
	return d
}

// Strings calls f for every string and key of the tree.
func (t Tree) Strings(f func(s string, isKey bool)) {
	if t.K == "str" || t.K == "link" || t.K == "file" {
		f(t.S, false)
	}
	for _, k := range t.Keys {
		if t.K == "map" {
			f(k, true)
		}
	}
	for _, x := range t.X {
		x.Strings(f)
	}
	if t.Style != nil {
		t.Style.Strings(f)
	}
}

// Charset selects the character repertoire.
type Charset int

const (
	AnyUTF8  Charset = iota // every valid UTF-8 text (JSON)
	LegalXML                // legal XML 1.0 characters only
)

var hard = []rune{'\\', '"', '\'', '<', '>', '&', '\n', '\r', '\t', ' ', '=', '/', ']', '[', '!', '-', ';', ':', '#', 'a', 'x', '0',
	0x00, 0x01, 0x08, 0x0b, 0x0c, 0x1f, 0x7f, 0x85, 0xa0, 0x2028, 0x2029, 0xd7ff, 0xe000, 0xfffd, 0xfffe, 0xffff, 0x10000, 0x1f600, 0x10ffff, 'ä', '€'}

var lookalikes = []string{"]]>", "<![CDATA[", "<!--", "-->", "&amp;", "&#65;", "&lt;", "<b>", "</td>", "<script>", "\" x=\"", "' x='", "a=\"1\" b", "a b",
	"http://x", "https://x\"y", "host:z", "javascript:", "\r\n", " lead", "trail ", "\t", "plainList", "</entry>", "<?xml", "%s", "{{.}}", "1e5", "true"}

func legalXML(r rune) bool {
	return r == 0x9 || r == 0xa || r == 0xd || (r >= 0x20 && r <= 0xd7ff) || (r >= 0xe000 && r <= 0xfffd) || (r >= 0x10000 && r <= 0x10ffff)
}

// GenString draws a string.
func GenString(t *rapid.T, cs Charset, label string) string {
	if rapid.IntRange(0, 5).Draw(t, label+"look") == 0 {
		s := lookalikes[rapid.IntRange(0, len(lookalikes)-1).Draw(t, label+"which")]
		if rapid.Bool().Draw(t, label+"more") {
			s += GenString(t, cs, label+"+")
		}
		return s
	}
	n := rapid.IntRange(0, 8).Draw(t, label+"len")
	var b []rune
	for i := 0; i < n; i++ {
		var r rune
		if rapid.IntRange(0, 3).Draw(t, label+"hard") != 0 {
			r = hard[rapid.IntRange(0, len(hard)-1).Draw(t, label+"hr")]
		} else {
			r = rapid.Rune().Draw(t, label+"r")
		}
		if !utf8.ValidRune(r) || (cs == LegalXML && !legalXML(r)) {
			continue
		}
		b = append(b, r)
	}
	return string(b)
}

// Gen draws a value tree of container depth <= d. wrappers: Format/Link/File nodes may occur.
func Gen(t *rapid.T, cs Charset, d int, wrappers bool) Tree {
	k := rapid.IntRange(0, 11).Draw(t, "kind")
	if d >= 2 && rapid.IntRange(0, 2).Draw(t, "preferContainer") != 0 {
		k = rapid.IntRange(6, 9).Draw(t, "containerKind")
	}
	if d <= 0 && k >= 6 && k < 10 {
		k = 0
	}
	switch {
	case k < 3:
		return Tree{K: "str", S: GenString(t, cs, "s")}
	case k == 3:
		return Tree{K: "int", I: rapid.IntRange(-1000, 1000000).Draw(t, "int")}
	case k == 4:
		return Tree{K: "float", F: rapid.SampledFrom([]float64{0, 1.5, -2.25, 1e21, 1e-7, 123456.789, 3}).Draw(t, "float")}
	case k == 5:
		return Tree{K: "bool", B: rapid.Bool().Draw(t, "bool")}
	case k < 8:
		n := rapid.IntRange(0, 4).Draw(t, "llen")
		l := Tree{K: "list", Rep: rapid.IntRange(0, 1).Draw(t, "lrep")}
		for i := 0; i < n; i++ {
			l.X = append(l.X, Gen(t, cs, d-1, wrappers))
		}
		return l
	case k < 10:
		n := rapid.IntRange(0, 4).Draw(t, "mlen")
		m := Tree{K: "map", Rep: rapid.IntRange(0, 3).Draw(t, "mrep")}
		seen := map[string]bool{}
		for i := 0; i < n; i++ {
			key := GenString(t, cs, "key")
			if rapid.IntRange(0, 2).Draw(t, "plainKey") == 0 {
				key = []string{"a", "b", "key", "x1"}[rapid.IntRange(0, 3).Draw(t, "pk")]
			}
			if seen[key] {
				continue
			}
			seen[key] = true
			m.Keys = append(m.Keys, key)
			m.X = append(m.X, Gen(t, cs, d-1, wrappers))
		}
		return m
	default:
		if !wrappers {
			return Tree{K: "str", S: GenString(t, cs, "s2")}
		}
		switch rapid.IntRange(0, 3).Draw(t, "wrapper") {
		case 0:
			return Tree{K: "link", S: GenString(t, cs, "href"), X: []Tree{Gen(t, cs, d-1, false)}}
		case 1:
			return Tree{K: "file", S: GenString(t, cs, "fname"), Keys: []string{GenString(t, cs, "mime"), "data"}}
		default:
			f := Tree{K: "format", X: []Tree{Gen(t, cs, d-1, false)}, B: rapid.Bool().Draw(t, "cell"), I: rapid.IntRange(0, 3).Draw(t, "colspan")}
			switch rapid.IntRange(0, 2).Draw(t, "styleKind") {
			case 0:
				f.Style = &Tree{K: "str", S: GenString(t, cs, "style")}
			case 1:
				f.Style = &Tree{K: "map", Keys: []string{"color", "font_size"}, X: []Tree{{K: "str", S: GenString(t, cs, "sv")}, {K: "int", I: 12}}}
			}
			return f
		}
	}
}
