// Package c11: one generated function may be evaluated concurrently from many
// goroutines (built with -race by the driver).
package c11

import (
	"encoding/json"
	"fmt"
	"os"
	"runtime"
	"sync"
	"testing"
	"time"

	"pgregory.net/rapid"

	"github.com/hneemann/parser2/value"

	"verif/harness/evid"
	"verif/harness/lang"
	"verif/harness/obs"
	"verif/harness/progs"
)

const prop = "C11"

// Case: a program, argument tuples, and the concurrency shape.
type Case struct {
	Prog       lang.Program   `json:"prog"`
	Text       string         `json:"text"`
	Tuples     [][]*lang.Expr `json:"tuples"`
	Goroutines int            `json:"goroutines"`
	Procs      int            `json:"gomaxprocs"`
	Repeats    int            `json:"repeats"`
	Opt        bool           `json:"optimizer"`
	// ArgTable: the arguments of all goroutines lie in one table, row after row; every
	// goroutine passes its row (a sub-slice whose capacity reaches over the following rows)
	ArgTable bool `json:"arg_table,omitempty"`
}

func config() lang.Config {
	c := lang.Config{MaxDepth: 5, MaxNodes: 40, FailPercent: 20, ShadowStatics: true, ConstRich: true}
	if evid.Thorough() {
		c.MaxDepth, c.MaxNodes = 7, 90
	}
	return c
}

type info struct {
	overlapped bool
	shared     bool
	classes    []string
	evals      int
}

// sharedState: the program has a list, map or closure valued sub-expression that does
// not depend on the arguments: it is created once (constant folding / a let that is
// evaluated per call still shares nothing - only argument independent values that the
// optimizer folds are shared between evaluations).
func sharedState(p lang.Program) (bool, []string) {
	var cls []string
	found := false
	var walk func(e *lang.Expr, bound map[string]bool)
	walk = func(e *lang.Expr, bound map[string]bool) {
		switch e.K {
		case lang.KList, lang.KMap, lang.KLam:
			if !e.Mentions(p.ArgNames...) {
				found = true
				cls = append(cls, "constant_"+e.K)
			}
		case lang.KSCall:
			if e.S == "numbers" && !e.Mentions(p.ArgNames...) {
				found = true
				cls = append(cls, "constant_lazy_list")
			}
		case lang.KMCall:
			if (e.S == "append" || e.S == "map" || e.S == "accept" || e.S == "top" || e.S == "skip") && !e.Mentions(p.ArgNames...) {
				cls = append(cls, "constant_"+e.S+"_result")
			}
		}
		for _, x := range e.X {
			walk(x, bound)
		}
	}
	walk(p.Body, nil)
	return found, cls
}

func check(c Case) (string, info) {
	var inf info
	inf.shared, inf.classes = sharedState(c.Prog)
	want := make([]progs.Outcome, len(c.Tuples))
	skip := make([]bool, len(c.Tuples))
	for i, tup := range c.Tuples {
		in := progs.NewRef()
		pc := progs.Case{Prog: c.Prog, Args: tup, Text: c.Text}
		want[i] = progs.RefRun(in, pc)
		skip[i] = progs.OutOfDomain(in, want[i]) != ""
	}
	old := runtime.GOMAXPROCS(0)
	defer runtime.GOMAXPROCS(old)
	runtime.GOMAXPROCS(c.Procs)
	for r := 0; r < c.Repeats; r++ {
		// a freshly generated function per repetition: nothing is warmed up, the constants
		// are touched for the first time by the concurrent evaluations
		g := progs.NewImpl(c.Opt)
		f, _, err := g.Generate(c.Text, c.Prog.ArgNames...)
		if err != nil {
			return "Generate rejected the program: " + err.Error(), inf
		}
		n := c.Goroutines
		var rows [][]value.Value
		if c.ArgTable {
			k := len(c.Prog.ArgNames)
			var table []value.Value
			for i := 0; i < n; i++ {
				table = append(table, progs.ImplArgs(progs.Case{Prog: c.Prog, Args: c.Tuples[i%len(c.Tuples)]}, obs.RepListMap)...)
			}
			for i := 0; i < n; i++ {
				rows = append(rows, table[i*k:(i+1)*k])
			}
		}
		got := make([]progs.Outcome, n)
		starts := make([]time.Time, n)
		ends := make([]time.Time, n)
		var ready, done sync.WaitGroup
		release := make(chan struct{})
		ready.Add(n)
		done.Add(n)
		for i := 0; i < n; i++ {
			go func(i int) {
				defer done.Done()
				pc := progs.Case{Prog: c.Prog, Args: c.Tuples[i%len(c.Tuples)], Text: c.Text}
				ready.Done()
				<-release
				starts[i] = time.Now()
				if rows != nil {
					got[i] = progs.Observe(f.Eval(rows[i]...))
				} else {
					got[i] = progs.ImplEval(f, pc)
				}
				ends[i] = time.Now()
			}(i)
		}
		ready.Wait()
		close(release)
		done.Wait()
		inf.evals += n
		for i := 0; i < n; i++ {
			for j := i + 1; j < n; j++ {
				if starts[i].Before(ends[j]) && starts[j].Before(ends[i]) {
					inf.overlapped = true
				}
			}
		}
		for i := 0; i < n; i++ {
			ti := i % len(c.Tuples)
			if skip[ti] {
				continue
			}
			if msg := progs.Compare(want[ti], got[i], 0); msg != "" {
				return fmt.Sprintf("repetition %d, goroutine %d of %d (GOMAXPROCS=%d) with tuple %d: %s\nprogram: %s", r+1, i, n, c.Procs, ti, msg, c.Text), inf
			}
		}
	}
	return "", inf
}

// marker prints the case to stderr so that the driver can attribute race reports
// (GORACE=halt_on_error=0: the run continues behind a report).
func marker(c Case) {
	b, err := json.Marshal(evid.Failure{Property: prop, Test: "c11", Message: "the race detector reported a data race while this case was running", Case: c})
	if err == nil {
		fmt.Fprintf(os.Stderr, "VERIF-CASE %s\n", b)
	}
}

func TestPropC11(t *testing.T) {
	defer evid.R.Flush()
	cfg := config()
	rapid.Check(t, func(t *rapid.T) {
		g := lang.NewGen(t, cfg)
		p := g.GenProgram()
		c := Case{Prog: p, Text: lang.Render(p.Body), Goroutines: rapid.IntRange(2, 16).Draw(t, "goroutines"),
			Procs: rapid.SampledFrom([]int{1, 2, 4, 16, 16}).Draw(t, "procs"), Repeats: 2, Opt: rapid.IntRange(0, 4).Draw(t, "opt") != 0,
			ArgTable: rapid.IntRange(0, 2).Draw(t, "argTable") == 0}
		nt := rapid.IntRange(1, 3).Draw(t, "tuples")
		for i := 0; i < nt; i++ {
			c.Tuples = append(c.Tuples, progs.GenArgs(t, p.ArgTypes))
		}
		marker(c)
		msg, inf := check(c)
		if msg != "" {
			evid.Fail(t, prop, "c11", "", c, "%s", msg)
		}
		cls := dedup(inf.classes)
		if inf.overlapped {
			cls = append(cls, "evaluations_overlapped")
		}
		if c.ArgTable {
			cls = append(cls, "arguments_are_rows_of_one_table")
		}
		if len(c.Tuples) == 1 {
			cls = append(cls, "equal_arguments")
		} else {
			cls = append(cls, "different_arguments")
		}
		evid.R.Case(inf.overlapped && inf.shared, c.Text+fmt.Sprint(c.Goroutines, c.Procs, len(c.Tuples)), func() any {
			return map[string]any{"program": c.Text, "goroutines": c.Goroutines, "gomaxprocs": c.Procs, "tuples": len(c.Tuples)}
		}, cls...)
		evid.R.ClassN("concurrent_evaluations", int64(inf.evals))
	})
}

func dedup(s []string) []string {
	seen := map[string]bool{}
	var out []string
	for _, x := range s {
		if !seen[x] {
			seen[x] = true
			out = append(out, x)
		}
	}
	return out
}

func TestReplay(t *testing.T) {
	replayLib(t)
	for _, path := range evid.ReplayFiles("c11") {
		var c Case
		if _, err := evid.ReadFailure(path, &c); err != nil {
			t.Fatalf("cannot read %s: %v", path, err)
		}
		if c.Repeats < 20 {
			c.Repeats = 20
		}
		marker(c)
		if msg, _ := check(c); msg != "" {
			evid.ReplayFailed(t, path, msg)
		} else {
			evid.ReplayPassed(path)
		}
	}
}
