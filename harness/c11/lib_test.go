package c11

import (
	"encoding/json"
	"fmt"
	"os"
	"runtime"
	"sync"
	"testing"

	"github.com/hneemann/parser2/value"
	"pgregory.net/rapid"

	"verif/harness/evid"
	"verif/harness/progs"
	"verif/harness/ref"
)

// LibCase: a program that uses a closure or map the LIBRARY builds from constants
// (createLowPass, createInterpolation, linearReg, a folded iirApply filter): the optimizer
// folds it into the function, so it is shared by all evaluations. The reference does not
// model all of these functions; the oracle is the function itself: every concurrent
// outcome equals the outcome of an isolated evaluation of a freshly generated function
// with the same argument (plus the race detector).
type LibCase struct {
	Template   int         `json:"template"`
	Data       [][]float64 `json:"data"` // per goroutine: the time steps / abscissae of its argument
	Goroutines int         `json:"goroutines"`
	Procs      int         `json:"gomaxprocs"`
	Opt        bool        `json:"optimizer"`
}

func libMarker(c LibCase) {
	b, err := json.Marshal(evid.Failure{Property: prop, Test: "libclosure", Message: "the race detector reported a data race while this case was running", Case: c})
	if err == nil {
		fmt.Fprintf(os.Stderr, "VERIF-CASE %s\n", b)
	}
}

func checkLib(c LibCase) string {
	text := progs.LibTemplates[c.Template%len(progs.LibTemplates)]
	// isolated: a fresh function per argument, one evaluation
	want := make([]progs.Outcome, len(c.Data))
	for i, d := range c.Data {
		f, _, err := progs.NewImpl(c.Opt).Generate(text, "data")
		if err != nil {
			return "Generate rejected " + text + ": " + err.Error()
		}
		want[i] = progs.Observe(f.Eval(progs.LibArg(d)))
	}
	old := runtime.GOMAXPROCS(0)
	defer runtime.GOMAXPROCS(old)
	runtime.GOMAXPROCS(c.Procs)
	for rep := 0; rep < 3; rep++ {
		f, _, err := progs.NewImpl(c.Opt).Generate(text, "data")
		if err != nil {
			return "Generate rejected " + text + ": " + err.Error()
		}
		n := c.Goroutines
		got := make([]progs.Outcome, n)
		args := make([]value.Value, n)
		for i := range args {
			args[i] = progs.LibArg(c.Data[i%len(c.Data)])
		}
		var ready, done sync.WaitGroup
		release := make(chan struct{})
		ready.Add(n)
		done.Add(n)
		for i := 0; i < n; i++ {
			go func(i int) {
				defer done.Done()
				ready.Done()
				<-release
				for k := 0; k < 3; k++ {
					got[i] = progs.Observe(f.Eval(args[i]))
				}
			}(i)
		}
		ready.Wait()
		close(release)
		done.Wait()
		for i := 0; i < n; i++ {
			w := want[i%len(c.Data)]
			if (w.Err != nil) != (got[i].Err != nil) || (w.Err == nil && !ref.Same(w.Val, got[i].Val, 0)) {
				return fmt.Sprintf("repetition %d, goroutine %d of %d (GOMAXPROCS=%d): concurrent evaluation returns %v, an isolated evaluation of a fresh function with the same argument %v\nprogram: %s",
					rep+1, i, n, c.Procs, got[i], w, text)
			}
		}
	}
	return ""
}

func TestPropLibraryClosures(t *testing.T) {
	defer evid.R.Flush()
	rapid.Check(t, func(t *rapid.T) {
		c := LibCase{Template: rapid.IntRange(0, len(progs.LibTemplates)-1).Draw(t, "template"), Goroutines: rapid.IntRange(2, 12).Draw(t, "goroutines"),
			Procs: rapid.SampledFrom([]int{1, 2, 4, 16, 16}).Draw(t, "procs"), Opt: rapid.IntRange(0, 4).Draw(t, "opt") != 0}
		nd := rapid.IntRange(1, 4).Draw(t, "arguments")
		for i := 0; i < nd; i++ {
			n := rapid.IntRange(2, 40).Draw(t, "samples")
			steps := make([]float64, n)
			for j := range steps {
				// irregular sampling: the intervals differ within a signal and between the signals
				steps[j] = rapid.SampledFrom(progs.LibSteps).Draw(t, "dt")
			}
			c.Data = append(c.Data, steps)
		}
		libMarker(c)
		if msg := checkLib(c); msg != "" {
			evid.Fail(t, prop, "libclosure", "", c, "%s", msg)
		}
		cls := []string{"library_built_constant", fmt.Sprintf("library_template_%d", c.Template)}
		if nd > 1 {
			cls = append(cls, "different_arguments")
		} else {
			cls = append(cls, "equal_arguments")
		}
		evid.R.Case(true, fmt.Sprint("lib", c), func() any {
			return map[string]any{"program": progs.LibTemplates[c.Template], "goroutines": c.Goroutines, "gomaxprocs": c.Procs, "arguments": nd}
		}, cls...)
		evid.R.ClassN("concurrent_evaluations", int64(c.Goroutines*9))
	})
}

func replayLib(t *testing.T) {
	for _, path := range evid.ReplayFiles("libclosure") {
		var c LibCase
		if _, err := evid.ReadFailure(path, &c); err != nil {
			t.Fatalf("cannot read %s: %v", path, err)
		}
		libMarker(c)
		msg := ""
		for i := 0; i < 10 && msg == ""; i++ {
			msg = checkLib(c)
		}
		if msg != "" {
			evid.ReplayFailed(t, path, msg)
		} else {
			evid.ReplayPassed(path)
		}
	}
}
