// Package leak inspects the goroutine profile for goroutines that belong to the
// library under test (frames in github.com/hneemann/parser2/... or
// github.com/hneemann/iterator) while no call into the library is active.
package leak

import (
	"regexp"
	"runtime"
	"sort"
	"strings"
	"time"
)

// G is one goroutine of the profile.
type G struct {
	ID    string
	State string
	Entry string // the function the goroutine was started with (bottom frame)
	Top   string // the library function it is currently in
	Stack string
}

var headRe = regexp.MustCompile(`^goroutine (\d+) \[([^\]]*)\]:`)

// Library returns the goroutines that have a frame in the library under test. Frames
// of the harness itself (verif/harness) mark the goroutine as the caller's own.
func Library() []G {
	buf := make([]byte, 1<<20)
	for {
		n := runtime.Stack(buf, true)
		if n < len(buf) {
			buf = buf[:n]
			break
		}
		buf = make([]byte, 2*len(buf))
	}
	var out []G
	for _, block := range strings.Split(string(buf), "\n\n") {
		m := headRe.FindStringSubmatch(block)
		if m == nil {
			continue
		}
		if !strings.Contains(block, "github.com/hneemann/parser2") && !strings.Contains(block, "github.com/hneemann/iterator") {
			continue
		}
		if strings.Contains(block, "verif/harness/") {
			continue // a goroutine of the harness that is inside a library call right now
		}
		g := G{ID: m[1], State: m[2], Stack: block}
		lines := strings.Split(block, "\n")
		for i := 1; i < len(lines); i++ {
			l := lines[i]
			if strings.HasPrefix(l, "\t") {
				continue
			}
			fn := l
			if j := strings.LastIndex(fn, "("); j > 0 {
				fn = fn[:j]
			}
			fn = strings.TrimPrefix(fn, "created by ")
			if k := strings.Index(fn, " in goroutine"); k > 0 {
				fn = fn[:k]
			}
			if strings.Contains(l, "github.com/hneemann/") {
				if g.Top == "" && !strings.HasPrefix(l, "created by") {
					g.Top = fn
				}
				if !strings.HasPrefix(l, "created by") {
					g.Entry = fn
				}
			}
		}
		out = append(out, g)
	}
	sort.Slice(out, func(i, j int) bool { return out[i].ID < out[j].ID })
	return out
}

// Settle waits up to grace for the library goroutines to disappear. What is left must
// be present with the same goroutine id in two snapshots confirm apart to count as a
// leak (a goroutine that is merely slow to wind down is not one).
func Settle(grace, confirm time.Duration) []G { return SettleExcept(nil, grace, confirm) }

// IDs returns the ids of the current library goroutines (a baseline to exclude what
// earlier cases of the same process left behind).
func IDs() map[string]bool {
	out := map[string]bool{}
	for _, g := range Library() {
		out[g.ID] = true
	}
	return out
}

// SettleExcept is Settle ignoring the goroutines of the baseline.
func SettleExcept(baseline map[string]bool, grace, confirm time.Duration) []G {
	deadline := time.Now().Add(grace)
	for {
		var gs []G
		for _, g := range Library() {
			if !baseline[g.ID] {
				gs = append(gs, g)
			}
		}
		if len(gs) == 0 {
			return nil
		}
		if time.Now().After(deadline) {
			time.Sleep(confirm)
			again := Library()
			ids := map[string]bool{}
			for _, g := range again {
				ids[g.ID] = true
			}
			var leaked []G
			for _, g := range gs {
				if ids[g.ID] {
					leaked = append(leaked, g)
				}
			}
			return leaked
		}
		time.Sleep(2 * time.Millisecond)
	}
}

// Entries summarises leaked goroutines by entry function.
func Entries(gs []G) map[string]int {
	out := map[string]int{}
	for _, g := range gs {
		out[g.Entry]++
	}
	return out
}

// SettleStable is SettleExcept with a fast path: goroutines that are all blocked (not
// running or runnable) and unchanged for stableFor are reported without waiting for
// the whole grace period (a blocked goroutine that nobody can wake up stays).
func SettleStable(baseline map[string]bool, grace, stableFor time.Duration) []G {
	deadline := time.Now().Add(grace)
	var lastKey string
	var since time.Time
	for {
		var gs []G
		key := ""
		blocked := true
		for _, g := range Library() {
			if !baseline[g.ID] {
				gs = append(gs, g)
				key += g.ID + ","
				if strings.HasPrefix(g.State, "running") || strings.HasPrefix(g.State, "runnable") || strings.HasPrefix(g.State, "sleep") || strings.HasPrefix(g.State, "syscall") {
					blocked = false
				}
			}
		}
		if len(gs) == 0 {
			return nil
		}
		if key != lastKey || !blocked {
			lastKey, since = key, time.Now()
		} else if time.Since(since) >= stableFor {
			return gs
		}
		if time.Now().After(deadline) {
			return SettleExcept(baseline, 0, stableFor)
		}
		time.Sleep(5 * time.Millisecond)
	}
}
