// Package c05: no program can crash the host - every runtime fault is an ordinary,
// catchable error.
package c05

import (
	"fmt"
	"runtime"
	"runtime/debug"
	"testing"
	"time"

	"pgregory.net/rapid"

	"verif/harness/evid"
	"verif/harness/host"
	. "verif/harness/lang"
	"verif/harness/leak"
	"verif/harness/progs"
	"verif/harness/ref"
)

const prop = "C05"

var impl = progs.NewImpl(true)
var implOff = progs.NewImpl(false)
var state = host.NewState()

func init() {
	host.Register(impl, state)
	host.Register(implOff, state)
}

// ---- fault sources ---------------------------------------------------------------------

// boundary values as expressions (closed).
var boundary = []*Expr{
	Int(0), Int(1), Int(-1), Int(2), Int(63), Int(64), Int(-64), Int(9223372036854775807), Bin("-", Int(-9223372036854775807), Int(1)),
	Float(0), Un("-", Float(0)), Float(1.5), Float(-2.5), Bin("/", Int(1), Int(0)), Bin("/", Int(-1), Int(0)), Bin("/", Int(0), Int(0)), Float(1e300),
	Str(""), Str("a"), Str("12"), Bool(true), Bool(false),
	List(), List(Int(1)), List(Int(1), Str("a")), List(List(Int(1))), SCall("numbers", Int(3)),
	Map(nil, nil), Map([]string{"a"}, []*Expr{Int(1)}), Map([]string{"f"}, []*Expr{Lam([]string{"p"}, Var("p"))}),
	Lam([]string{"p"}, Var("p")), Lam([]string{"p", "q"}, Bin("+", Var("p"), Var("q"))), Lam([]string{"p"}, Bin("%", Int(1), Int(0))),
	Lam([]string{"p", "q", "r"}, Var("r")),
}

var unaryOps = []string{"-", "!"}

var staticFns = []string{"throw", "string", "isFloat", "isInt", "float", "int", "abs", "sign", "sqr", "round", "binAnd", "binOr", "numbers", "goto", "sprintf",
	"sqrt", "ln", "log10", "trunc", "floor", "ceil", "exp", "sin", "cos", "tan", "asin", "acos", "atan", "min", "max", "random", "randomConst", "bisection", "createLowPass", "boom"}

var staticArity = map[string][]int{"binAnd": {2}, "binOr": {2}, "sprintf": {0, 1, 2, 3}, "min": {0, 1, 2, 3}, "max": {0, 1, 2, 3}, "random": {0, 1, 2}, "randomConst": {0, 1},
	"bisection": {3, 4}, "createLowPass": {4}}

var methods = []string{"accept", "map", "reduce", "sum", "mapReduce", "mean", "min", "max", "minMax", "replaceList", "combine", "combine3", "combineN", "multiUse",
	"indexWhere", "groupByString", "groupByInt", "groupByEqual", "uniqueString", "uniqueInt", "compact", "cross", "merge", "order", "orderRev", "orderLess", "reverse",
	"append", "iir", "iirCombine", "iirApply", "visit", "fsm", "top", "skip", "number", "present", "set", "size", "first", "single", "last", "eval", "string",
	"movingWindow", "movingWindowRemove", "createInterpolation", "linearReg", "binning", "binning2d", "collectBinning",
	"replaceMap", "list", "isAvail", "get", "put", "replace", "len", "trim", "toLower", "toUpper", "contains", "indexOf", "split", "cut", "behind", "behindList",
	"toFloat", "toInt", "args", "invoke", "f", "nosuch"}

// Fault describes the fault source.
type Fault struct {
	Kind string `json:"kind"` // bin un static method index member call boom recursion
	Op   string `json:"op,omitempty"`
	A    []int  `json:"a,omitempty"` // indices into the boundary values
	N    int    `json:"n,omitempty"`
}

func bv(i int) *Expr { return boundary[i%len(boundary)] }

func (f Fault) expr() *Expr {
	arg := func(i int) *Expr { return bv(f.A[i]) }
	args := func(from int) []*Expr {
		var out []*Expr
		for i := from; i < len(f.A); i++ {
			out = append(out, arg(i))
		}
		return out
	}
	switch f.Kind {
	case "bin":
		return Bin(f.Op, arg(0), arg(1))
	case "un":
		return Un(f.Op, arg(0))
	case "static":
		if f.Op == "numbers" && len(f.A) == 1 {
			// a list of 2^63 elements that is materialised exhausts the memory: not a fault
			// the property speaks about, kept out by construction
			switch bv(f.A[0]).K {
			case KInt:
				return SCall("numbers", Int(f.A[0]%7-1))
			case KBin:
				return SCall("numbers", Int(3))
			}
		}
		return SCall(f.Op, args(0)...)
	case "method":
		return MCall(arg(0), f.Op, args(1)...)
	case "index":
		return Index(arg(0), arg(1))
	case "member":
		return Member(arg(0), []string{"a", "zz", "f"}[f.N%3])
	case "call":
		return Call(arg(0), args(1)...)
	case "boom":
		return SCall("boom", Int(f.N%3))
	case "recursion":
		// runaway recursion that grows the value stack (guarded by the stack limit)
		switch f.N % 4 {
		case 3:
			// argument independent self-application: the optimizer meets it while Generate runs
			return Let("w", Lam([]string{"g"}, Call(Var("g"), Var("g"))), Call(Var("w"), Var("w")))
		case 0:
			return Func("f", []string{"n"}, Bin("+", Call(Var("f"), Bin("+", Var("n"), Int(1))), Int(1)), Call(Var("f"), Int(0)))
		case 1:
			return Func("f", []string{"n", "m"}, Call(Var("f"), Var("m"), Let("k", Bin("+", Var("n"), Int(1)), Var("k"))), Call(Var("f"), Int(0), Int(1)))
		default:
			return Func("f", []string{"n"}, If(Bin("<", Var("n"), Int(0)), Int(0), Call(Var("f"), Bin("+", Var("n"), Int(1)))), Call(Var("f"), Int(0)))
		}
	}
	panic("fault kind " + f.Kind)
}

// ---- contexts ------------------------------------------------------------------------------

var contexts = []string{"top", "closure", "seqMap", "seqAccept", "parMap", "parAccept", "behindParallel", "mergeOperand", "mergeComparator", "multiUseConsumer",
	"multiUseSource", "orderKey", "orderLess", "lazyResult", "reduce", "mapValue", "switchCase", "nestedTry",
	"funcBody", "funcBodyNeverCalled", "nestedFuncBody", "mapMethodMap", "mapMethodAccept", "mapMethodReplace", "mapMethodCombine"}

// contexts in which the fault is raised by the closure of a list stage of any kind
// (Case.Stage) instead of a map closure
var stageContexts = []string{"seqStage", "mergeOperandStage", "mergeReceiverStage", "mergeOperandStageFirst", "multiUseSourceStage", "multiUseConsumerStage",
	"behindParallelStage", "lazyResultStage", "stageThenMap", "stageThenAccept", "stageThenParallelMap", "stageThenMapInMultiUse"}

var stageKinds = []string{"map", "accept", "number", "iir", "iirInitial", "iirCombine", "combine", "combine3", "combineN", "compact", "cross", "fsm"}

var e = Var("e")

// then evaluates f and returns x (the items of a list literal are let-positions).
func then(f, x *Expr) *Expr { return Index(List(f, x), Int(1)) }

// stageList: a lazy list over src whose stage closure evaluates the fault when it meets
// the element k; the closure stays type-correct if the fault source does not fail.
func stageList(kind string, src *Expr, k int, f *Expr) *Expr {
	hit := func(v, x *Expr) *Expr { return If(Bin("=", v, Int(k)), then(f, x), x) }
	switch kind {
	case "map":
		return MCall(src, "map", lam1(hit(e, e)))
	case "accept":
		return MCall(src, "accept", lam1(hit(e, Bool(true))))
	case "number":
		return MCall(src, "number", Lam([]string{"i", "e"}, hit(e, e)))
	case "iir":
		return MCall(src, "iir", lam1(e), Lam([]string{"e", "l"}, hit(e, e)))
	case "iirInitial":
		return MCall(src, "iir", lam1(then(f, e)), Lam([]string{"e", "l"}, e))
	case "iirCombine":
		return MCall(src, "iirCombine", lam1(e), Lam([]string{"a", "e", "l"}, hit(e, e)))
	case "combine":
		return MCall(src, "combine", Lam([]string{"a", "e"}, hit(e, e)))
	case "combine3":
		return MCall(src, "combine3", Lam([]string{"a", "e", "c"}, hit(e, e)))
	case "combineN":
		return MCall(src, "combineN", Int(2), Lam([]string{"l"}, hit(Index(Var("l"), Int(0)), Index(Var("l"), Int(0)))))
	case "compact":
		return MCall(src, "compact", Lam([]string{"a", "e"}, hit(e, Bool(false))))
	case "cross":
		return MCall(src, "cross", List(Int(1), Int(2)), Lam([]string{"e", "b"}, hit(e, e)))
	case "fsm":
		return MCall(src, "fsm", Lam([]string{"s", "e"}, hit(e, Var("s"))))
	}
	panic("stage " + kind)
}

var keepLast = Lam([]string{"a", "b"}, Var("b"))
var lessAB = Lam([]string{"a", "b"}, Bin("<", Var("a"), Var("b")))

func inStageContext(ctx, stage string, f *Expr) *Expr {
	six := SCall("numbers", Int(6))
	switch ctx {
	case "seqStage":
		return MCall(stageList(stage, six, 2, f), "reduce", keepLast)
	case "mergeOperandStage":
		return MCall(MCall(six, "merge", stageList(stage, six, 2, f), lessAB), "reduce", keepLast)
	case "mergeReceiverStage":
		return MCall(MCall(stageList(stage, six, 2, f), "merge", six, lessAB), "reduce", keepLast)
	case "mergeOperandStageFirst":
		// the consumer stops at once, the operands go on in goroutines of their own
		return MCall(MCall(six, "merge", stageList(stage, six, 3, f), lessAB), "first")
	case "multiUseSourceStage":
		return MCall(stageList(stage, six, 2, f), "multiUse", Map([]string{"a", "b"}, []*Expr{Lam([]string{"l"}, MCall(Var("l"), "reduce", keepLast)),
			Lam([]string{"l"}, MCall(MCall(Var("l"), "top", Int(1)), "size"))}))
	case "multiUseConsumerStage":
		return MCall(six, "multiUse", Map([]string{"a", "b"}, []*Expr{Lam([]string{"l"}, MCall(stageList(stage, Var("l"), 2, f), "reduce", keepLast)),
			Lam([]string{"l"}, MCall(Var("l"), "size"))}))
	case "behindParallelStage":
		// the stage behind a parallel map runs on the collector goroutine
		return MCall(stageList(stage, MCall(SCall("numbers", Int(40)), "map", lam1(SCall("slowTo", e, Int(14)))), 20, f), "reduce", keepLast)
	case "lazyResultStage":
		return stageList(stage, SCall("numbers", Int(5)), 2, f)
	// the failing stage is the SOURCE of a map or accept stage: the fault passes through it
	case "stageThenMap":
		return MCall(MCall(stageList(stage, six, 2, f), "map", lam1(e)), "reduce", keepLast)
	case "stageThenAccept":
		return MCall(MCall(stageList(stage, six, 2, f), "accept", lam1(Bool(true))), "size")
	case "stageThenParallelMap":
		return MCall(MCall(stageList(stage, SCall("numbers", Int(40)), 20, f), "map", lam1(SCall("slowTo", e, Int(14)))), "reduce", keepLast)
	case "stageThenMapInMultiUse":
		return MCall(stageList(stage, six, 2, f), "multiUse", Map([]string{"a", "b"}, []*Expr{Lam([]string{"l"}, MCall(MCall(Var("l"), "map", lam1(e)), "reduce", keepLast)),
			Lam([]string{"l"}, MCall(MCall(Var("l"), "accept", lam1(Bool(true))), "size"))}))
	}
	panic("stage context " + ctx)
}

func lam1(body *Expr) *Expr { return Lam([]string{"e"}, body) }

// at: the fault only at one element, the element itself otherwise.
func at(k int, f *Expr) *Expr { return If(Bin("=", e, Int(k)), f, e) }

func inContext(ctx string, f *Expr) *Expr {
	switch ctx {
	case "top":
		return f
	case "closure":
		return Call(Lam([]string{"x"}, f), Int(1))
	case "seqMap":
		return MCall(MCall(List(Int(1), Int(2), Int(3)), "map", lam1(at(2, f))), "size")
	case "seqAccept":
		return MCall(MCall(List(Int(1), Int(2), Int(3)), "accept", lam1(Bin("=", at(2, f), e))), "size")
	case "parMap":
		// slow for the first elements: the closure is executed by parallel workers from element 12 on
		return MCall(MCall(SCall("numbers", Int(40)), "map", lam1(If(Bin("<", e, Int(14)), SCall("slow", e), at(20, f)))), "size")
	case "parAccept":
		return MCall(MCall(SCall("numbers", Int(40)), "accept", lam1(If(Bin("<", e, Int(14)), Bin("=", SCall("slow", e), e), Bin("=", at(20, f), e)))), "size")
	case "behindParallel":
		// the stage behind a parallel map runs on the collector goroutine
		return MCall(MCall(MCall(SCall("numbers", Int(40)), "map", lam1(SCall("slowTo", e, Int(14)))), "number", Lam([]string{"i", "e"}, at(20, f))), "size")
	case "mergeOperand":
		return MCall(MCall(SCall("numbers", Int(6)), "merge", MCall(SCall("numbers", Int(6)), "map", lam1(at(2, f))), Lam([]string{"a", "b"}, Bin("<", Var("a"), Var("b")))), "size")
	case "mergeComparator":
		return MCall(MCall(SCall("numbers", Int(6)), "merge", SCall("numbers", Int(6)), Lam([]string{"e", "b"}, Bin("<", at(2, f), Var("b")))), "size")
	case "multiUseConsumer":
		return MCall(SCall("numbers", Int(6)), "multiUse", Map([]string{"a", "b"}, []*Expr{Lam([]string{"l"}, MCall(MCall(Var("l"), "map", lam1(at(2, f))), "size")),
			Lam([]string{"l"}, MCall(Var("l"), "size"))}))
	case "multiUseSource":
		return MCall(MCall(SCall("numbers", Int(6)), "map", lam1(at(2, f))), "multiUse", Map([]string{"a", "b"}, []*Expr{Lam([]string{"l"}, MCall(Var("l"), "size")),
			Lam([]string{"l"}, MCall(MCall(Var("l"), "top", Int(1)), "size"))}))
	case "orderKey":
		return MCall(MCall(List(Int(3), Int(1), Int(2)), "order", lam1(at(2, f))), "size")
	case "orderLess":
		// the fault is raised whenever the element 2 takes part in a comparison (which pairs a
		// sort compares, and in which order, is not specified)
		return MCall(MCall(List(Int(3), Int(1), Int(2)), "orderLess", Lam([]string{"e", "b"},
			Bin("<", If(Bin("|", Bin("=", e, Int(2)), Bin("=", Var("b"), Int(2))), f, e), Var("b")))), "size")
	case "lazyResult":
		// the lazy list is returned and forced by the host after Eval returned
		return MCall(SCall("numbers", Int(5)), "map", lam1(at(2, f)))
	case "reduce":
		return MCall(SCall("numbers", Int(5)), "reduce", Lam([]string{"a", "e"}, Bin("+", Var("a"), at(2, f))))
	case "mapValue":
		return Member(Map([]string{"k"}, []*Expr{f}), "k")
	case "switchCase":
		return Switch(Int(2), []*Expr{Int(1), Int(10), f, Int(20)}, Int(30))
	case "nestedTry":
		return Try(Try(f, SCall("throw", Str("T#1#"))), Int(5))
	case "funcBody":
		// the body of a func statement (compiled and optimized on a path of its own)
		return Func("g", []string{"a"}, f, Call(Var("g"), Int(1)))
	case "funcBodyNeverCalled":
		return Func("g", []string{"a"}, f, Int(1))
	case "nestedFuncBody":
		return Func("h", []string{"b"}, Func("g", []string{"a"}, f, Call(Var("g"), Var("b"))), Call(Var("h"), Int(2)))
	case "mapMethodMap":
		// the closures of the MAP methods
		return MCall(MCall(Map([]string{"a", "b", "c"}, []*Expr{Int(1), Int(2), Int(3)}), "map", Lam([]string{"k", "e"}, at(2, f))), "size")
	case "mapMethodAccept":
		return MCall(MCall(Map([]string{"a", "b", "c"}, []*Expr{Int(1), Int(2), Int(3)}), "accept", Lam([]string{"k", "e"}, Bin("=", at(2, f), e))), "size")
	case "mapMethodReplace":
		return MCall(MCall(Map([]string{"a", "b"}, []*Expr{Int(1), Int(2)}), "replace", Lam([]string{"m"}, Map([]string{"a"}, []*Expr{f}))), "size")
	case "mapMethodCombine":
		return MCall(MCall(Map([]string{"a", "b"}, []*Expr{Int(1), Int(2)}), "combine", Map([]string{"a", "b"}, []*Expr{Int(5), Int(6)}), Lam([]string{"e", "o"}, at(2, f))), "size")
	}
	panic("context " + ctx)
}

// Case: a fault source in a context, optionally wrapped in try/catch.
type Case struct {
	Fault   Fault  `json:"fault"`
	Context string `json:"context"`
	Stage   string `json:"stage,omitempty"` // the kind of list stage whose closure raises the fault (stage contexts)
	Try     bool   `json:"try"`
	Procs   int    `json:"gomaxprocs"`
	Opt     bool   `json:"optimizer"`
}

func (c Case) expr() *Expr {
	var x *Expr
	if c.Stage != "" {
		x = inStageContext(c.Context, c.Stage, c.Fault.expr())
	} else {
		x = inContext(c.Context, c.Fault.expr())
	}
	if c.Try {
		x = Try(x, Int(77))
	}
	return x
}

type info struct {
	skip      string
	faulted   bool
	offCaller bool
}

// isHostPanicInLazy: a panic of the host's own function boom() inside a lazily returned
// stage that the host itself forces after Eval returned is outside "during evaluation".
func (c Case) hostPanicOutsideEval() bool {
	boom := c.Fault.Kind == "boom" || (c.Fault.Kind == "static" && c.Fault.Op == "boom")
	return boom && (c.Context == "lazyResult" || c.Context == "lazyResultStage")
}

func check(c Case) (string, info) {
	var inf info
	body := c.expr()
	pc := progs.Case{Prog: Program{Body: body}, Text: Render(body)}
	in := progs.NewRef()
	in.Budget = 2_000_000
	host.RegisterRef(in, host.NewState())
	// random/randomConst: any value is fine, only crash freedom is checked
	random := c.Fault.Kind == "static" && (c.Fault.Op == "random" || c.Fault.Op == "randomConst")
	unmodelled := c.Fault.Kind == "static" && (c.Fault.Op == "sprintf" || c.Fault.Op == "bisection" || c.Fault.Op == "createLowPass")
	if c.Fault.Kind == "method" {
		switch c.Fault.Op {
		case "binning", "binning2d", "collectBinning", "f", "nosuch", "iirApply":
			unmodelled = true
		}
	}
	var want progs.Outcome
	modelled := !random && !unmodelled
	if modelled {
		want = progs.RefRun(in, pc)
		if c.Fault.Kind == "recursion" {
			// the reference stops at its own depth budget: the implementation's stack guard
			// must turn the runaway recursion into an error
			if want.Err == ref.ErrBudget {
				want = progs.Outcome{Err: ref.Errf("stack overflow")}
				if c.Try {
					want = progs.Outcome{Val: ref.Int(77)}
				}
				if c.Context == "nestedTry" {
					want = progs.Outcome{Val: ref.Int(5)}
					if c.Try {
						want = progs.Outcome{Val: ref.Int(5)}
					}
				}
			}
		} else if why := progs.OutOfDomain(in, want); why != "" && why != "inexact_float_product" {
			modelled = false
			inf.skip = why
		}
	}
	g := implOff
	if c.Opt {
		g = impl
	}
	old := runtime.GOMAXPROCS(0)
	defer runtime.GOMAXPROCS(old)
	if c.Procs > 0 {
		runtime.GOMAXPROCS(c.Procs)
	}
	state.Reset()
	state.SleepUs.Store(300)
	me := host.Gid()
	var got progs.Outcome
	var pan any
	func() {
		defer func() { pan = recover() }()
		got = progs.ImplRun(g, pc)
	}()
	inf.offCaller = state.OffCaller(me)
	where := fmt.Sprintf("%s (fault %s in context %s%s, GOMAXPROCS=%d)", pc.Text, Render(c.Fault.expr()), c.Context, c.Stage, c.Procs)
	if pan != nil {
		return fmt.Sprintf("%s: the evaluation call panics: %v", where, pan), inf
	}
	if got.Panic && !c.hostPanicOutsideEval() {
		return fmt.Sprintf("%s: forcing the lazy result panics in the host instead of delivering an error: %v", where, got.Err), inf
	}
	if got.GenErr != nil {
		// static arity mismatches are rejected at Generate time: an error value, fine
		return "", inf
	}
	if !modelled {
		return "", inf
	}
	inf.faulted = want.Err != nil || (c.Try && faults(c))
	if c.hostPanicOutsideEval() {
		return "", inf
	}
	if msg := progs.Compare(want, got, 1e-9); msg != "" {
		return where + ": " + msg, inf
	}
	return "", inf
}

// faults: does the fault source fail without the try wrapper (reference)?
func faults(c Case) bool {
	c.Try = false
	body := c.expr()
	in := progs.NewRef()
	in.Budget = 2_000_000
	host.RegisterRef(in, host.NewState())
	o := progs.RefRun(in, progs.Case{Prog: Program{Body: body}})
	return o.Err != nil
}

func genFault(t *rapid.T) Fault {
	idx := func(label string) int { return rapid.IntRange(0, len(boundary)-1).Draw(t, label) }
	switch rapid.IntRange(0, 11).Draw(t, "faultKind") {
	case 0, 1, 2:
		return Fault{Kind: "bin", Op: BinOps[rapid.IntRange(0, len(BinOps)-1).Draw(t, "op")], A: []int{idx("a"), idx("b")}}
	case 3:
		return Fault{Kind: "un", Op: unaryOps[rapid.IntRange(0, 1).Draw(t, "uop")], A: []int{idx("a")}}
	case 4, 5:
		name := staticFns[rapid.IntRange(0, len(staticFns)-1).Draw(t, "static")]
		ar := []int{1}
		if a, ok := staticArity[name]; ok {
			ar = a
		}
		n := ar[rapid.IntRange(0, len(ar)-1).Draw(t, "arity")]
		f := Fault{Kind: "static", Op: name}
		for i := 0; i < n; i++ {
			f.A = append(f.A, idx("arg"))
		}
		return f
	case 6, 7, 8:
		f := Fault{Kind: "method", Op: methods[rapid.IntRange(0, len(methods)-1).Draw(t, "method")], A: []int{idx("recv")}}
		for i, n := 0, rapid.IntRange(0, 3).Draw(t, "margs"); i < n; i++ {
			f.A = append(f.A, idx("marg"))
		}
		return f
	case 9:
		switch rapid.IntRange(0, 2).Draw(t, "access") {
		case 0:
			return Fault{Kind: "index", A: []int{idx("l"), idx("i")}}
		case 1:
			return Fault{Kind: "member", A: []int{idx("m")}, N: rapid.IntRange(0, 2).Draw(t, "key")}
		}
		f := Fault{Kind: "call", A: []int{idx("fn")}}
		for i, n := 0, rapid.IntRange(0, 3).Draw(t, "cargs"); i < n; i++ {
			f.A = append(f.A, idx("carg"))
		}
		return f
	case 10:
		return Fault{Kind: "boom", N: rapid.IntRange(0, 2).Draw(t, "boom")}
	default:
		return Fault{Kind: "recursion", N: rapid.IntRange(0, 3).Draw(t, "rec")}
	}
}

func record(c Case, inf info) {
	cls := []string{"context_" + c.Context, "fault_" + c.Fault.Kind}
	if c.Stage != "" {
		cls = append(cls, "stage_"+c.Stage)
	}
	if c.Try {
		cls = append(cls, "wrapped_in_try")
	}
	if inf.faulted {
		cls = append(cls, "fault_raised")
	}
	if inf.offCaller {
		cls = append(cls, "closure_ran_on_another_goroutine")
	}
	if inf.skip != "" {
		cls = append(cls, "crash_freedom_only_"+inf.skip)
	}
	evid.R.Case(inf.faulted, fmt.Sprint(c), func() any {
		return map[string]any{"program": Render(c.expr()), "context": c.Context, "gomaxprocs": c.Procs}
	}, cls...)
}

func TestPropC05(t *testing.T) {
	defer evid.R.Flush()
	defer evid.ClearPending()
	rapid.Check(t, func(t *rapid.T) {
		c := Case{Fault: genFault(t), Context: contexts[rapid.IntRange(0, len(contexts)-1).Draw(t, "context")], Try: rapid.Bool().Draw(t, "try"),
			Procs: rapid.SampledFrom([]int{1, 2, 4, 16}).Draw(t, "procs"), Opt: rapid.Bool().Draw(t, "opt")}
		if rapid.IntRange(0, 2).Draw(t, "stageContext") == 0 {
			c.Context = stageContexts[rapid.IntRange(0, len(stageContexts)-1).Draw(t, "stageCtx")]
			c.Stage = stageKinds[rapid.IntRange(0, len(stageKinds)-1).Draw(t, "stage")]
		}
		if c.Fault.Kind == "recursion" {
			// the guarded recursion costs ~10 000 frames: keep it out of the slow contexts
			c.Context = []string{"top", "closure", "mapValue", "nestedTry", "funcBody", "funcBodyNeverCalled", "nestedFuncBody"}[rapid.IntRange(0, 6).Draw(t, "recCtx")]
			c.Stage = ""
		}
		evid.Pending(prop, "c05", c)
		msg, inf := check(c)
		if msg != "" {
			evid.Fail(t, prop, "c05", "", c, "%s", msg)
		}
		record(c, inf)
	})
}

// TestMatrix enumerates every binary operator on every ordered pair of boundary values
// (and every unary operator on every value) in the cheap contexts, with and without
// try (exhaustively in both tiers).
func TestMatrix(t *testing.T) {
	defer evid.R.Flush()
	defer evid.ClearPending()
	shard, shards := evid.Shard()
	cheap := []string{"top", "closure", "seqMap", "lazyResult", "reduce", "mergeOperand", "multiUseConsumer", "orderKey"}
	k := 0
	step := 1
	seed := evid.EnvInt("VERIF_SEED", 1)
	run := func(f Fault) {
		for ci, ctx := range cheap {
			for _, try := range []bool{false, true} {
				k++
				if k%shards != shard || (k/shards+seed)%step != 0 {
					continue
				}
				c := Case{Fault: f, Context: ctx, Try: try, Procs: []int{1, 2, 4, 16}[(k+ci)%4], Opt: k%2 == 0}
				evid.Pending(prop, "c05", c)
				msg, inf := check(c)
				if msg != "" {
					evid.Fail(t, prop, "c05", "", c, "%s", msg)
				}
				record(c, inf)
			}
		}
	}
	for _, op := range BinOps {
		for i := range boundary {
			for j := range boundary {
				run(Fault{Kind: "bin", Op: op, A: []int{i, j}})
			}
		}
	}
	for _, op := range unaryOps {
		for i := range boundary {
			run(Fault{Kind: "un", Op: op, A: []int{i}})
		}
	}
	for _, name := range staticFns {
		if _, varargs := staticArity[name]; varargs {
			continue
		}
		for i := range boundary {
			run(Fault{Kind: "static", Op: name, A: []int{i}})
		}
	}
	evid.R.SetExtra("matrix_sampling_step", step)
}

func TestReplay(t *testing.T) {
	for _, path := range evid.ReplayFiles("c05") {
		var c Case
		if _, err := evid.ReadFailure(path, &c); err != nil {
			t.Fatalf("cannot read %s: %v", path, err)
		}
		msg, _ := check(c)
		leak.Settle(2*time.Second, 200*time.Millisecond)
		if msg != "" {
			evid.ReplayFailed(t, path, msg)
		} else {
			evid.ReplayPassed(path)
		}
	}
}

// TestKnownF6 evaluates the exemplar of the open finding F6 (runaway recursion that
// re-enters through a stage with a fresh stack is not stopped by the stack guard and
// ends in Go's fatal "stack overflow"). It runs in a process of its own with a lowered
// stack limit, so the confirmation costs milliseconds instead of 1 GB and seconds. The
// driver expects this process to die with that signature and prints KNOWN-FINDING; if it
// survives, the finding is gone and the outcome must be an error.
func TestKnownF6(t *testing.T) {
	debug.SetMaxStack(32 << 20)
	for _, exp := range []string{"func f(k) [k].map(x->f(x+1)).first(); f(0)", "func f(k) [f(k+1)][0]; f(0)"} {
		f, _, err := impl.Generate(exp)
		if err != nil {
			t.Fatalf("Generate(%q): %v", exp, err)
		}
		v, err := f.Eval()
		if err == nil {
			t.Fatalf("%q returns %v, runaway recursion must be an error", exp, v)
		}
		fmt.Printf("F6-GONE %q returns the error %v\n", exp, err)
	}
}
