package c05

import (
	"os"
	"path/filepath"
	"testing"

	"verif/harness/evid"
	. "verif/harness/lang"
)

func idx(e string) int {
	for i, b := range boundary {
		if Render(b) == e {
			return i
		}
	}
	panic("no boundary value " + e)
}

func TestMakeExemplars(t *testing.T) {
	dir := os.Getenv("VERIF_MAKE_EXEMPLARS")
	if dir == "" {
		t.Skip("VERIF_MAKE_EXEMPLARS not set")
	}
	mod0 := Fault{Kind: "bin", Op: "%", A: []int{idx("1"), idx("0")}}
	shl := Fault{Kind: "bin", Op: "<<", A: []int{idx("1"), idx("(-1)")}}
	neq := Fault{Kind: "bin", Op: "!=", A: []int{idx("1"), idx("\"a\"")}}
	cases := map[string]Case{
		"F5b-modulo-by-zero-caught":                    {Fault: mod0, Context: "top", Try: true, Procs: 4, Opt: true},
		"F5b-negative-shift-in-closure":                {Fault: shl, Context: "closure", Try: true, Procs: 4},
		"F5b-unequal-incomparable-in-switch":           {Fault: neq, Context: "switchCase", Try: true, Procs: 1, Opt: true},
		"F5b-random-zero":                              {Fault: Fault{Kind: "static", Op: "random", A: []int{idx("0")}}, Context: "top", Procs: 2},
		"F5b-combineN-zero-lazy-result":                {Fault: Fault{Kind: "method", Op: "combineN", A: []int{idx("[1]"), idx("0"), idx("p -> p")}}, Context: "lazyResult", Procs: 2},
		"F5a-host-panic-on-parallel-map-worker":        {Fault: Fault{Kind: "boom", N: 0}, Context: "parMap", Procs: 16, Opt: true},
		"F5a-host-panic-on-parallel-accept-worker":     {Fault: Fault{Kind: "boom", N: 1}, Context: "parAccept", Try: true, Procs: 4},
		"F5a-host-panic-behind-parallel-stage":         {Fault: Fault{Kind: "boom", N: 2}, Context: "behindParallel", Procs: 16, Opt: true},
		"F5a-host-panic-in-merge-operand":              {Fault: Fault{Kind: "boom", N: 2}, Context: "mergeOperand", Try: true, Procs: 4},
		"F5a-host-panic-in-multiUse-consumer":          {Fault: Fault{Kind: "boom", N: 0}, Context: "multiUseConsumer", Procs: 4, Opt: true},
		"F5a-host-panic-caught-by-try":                 {Fault: Fault{Kind: "boom", N: 1}, Context: "closure", Try: true, Procs: 1},
		"F28-orderLess-reports-comparator-errors":      {Fault: mod0, Context: "orderLess", Procs: 1, Opt: true},
		"host-panic-in-iir-stage-of-merge-operand":     {Fault: Fault{Kind: "boom", N: 0}, Context: "mergeOperandStage", Stage: "iir", Try: true, Procs: 4},
		"host-panic-in-number-stage-of-merge-receiver": {Fault: Fault{Kind: "boom", N: 1}, Context: "mergeReceiverStage", Stage: "number", Procs: 1},
		"host-panic-in-fsm-stage-behind-early-stop":    {Fault: Fault{Kind: "boom", N: 2}, Context: "mergeOperandStageFirst", Stage: "fsm", Procs: 4, Opt: true},
		"modulo-by-zero-in-combine-stage-of-multiUse":  {Fault: mod0, Context: "multiUseConsumerStage", Stage: "combine", Try: true, Procs: 2},
		"guarded-runaway-recursion":                    {Fault: Fault{Kind: "recursion", N: 0}, Context: "top", Try: true, Procs: 2},
	}
	for name, c := range cases {
		os.Setenv("VERIF_FAILFILE", filepath.Join(dir, name+".json"))
		evid.WriteFailure(evid.Failure{Property: prop, Test: "c05", Message: "regression exemplar: " + Render(c.expr()), Case: c})
	}
}
