// Package progs runs a generated program on the reference interpreter and on the
// implementation and compares the outcomes. It is shared by the checks that quantify
// over programs (C01, C02, C10, C11, C16).
package progs

import (
	"fmt"
	"io"
	"log"
	"strings"

	"github.com/hneemann/parser2/funcGen"
	"github.com/hneemann/parser2/value"
	"pgregory.net/rapid"

	"verif/harness/lang"
	"verif/harness/obs"
	"verif/harness/ref"
)

func init() {
	// the implementation logs recovered panics with a stack trace
	log.SetOutput(io.Discard)
}

// Case is a program together with one argument tuple (arguments are literal
// expressions so that the case is a pure data file).
type Case struct {
	Prog lang.Program `json:"prog"`
	Args []*lang.Expr `json:"args"`
	Text string       `json:"text"`
}

// Outcome of one evaluation, observed deeply.
type Outcome struct {
	Val    ref.Value
	Err    error // evaluation failed (or, for the implementation, Generate failed: GenErr)
	GenErr error
	Panic  bool // a Go panic reached the host while forcing a lazy result
}

func (o Outcome) String() string {
	switch {
	case o.GenErr != nil:
		return "Generate error: " + short(o.GenErr.Error())
	case o.Panic:
		return "host panic: " + short(o.Err.Error())
	case o.Err != nil:
		return "error: " + short(o.Err.Error())
	}
	return ref.Show(o.Val)
}

func short(s string) string {
	s = strings.ReplaceAll(s, "\n", " | ")
	if len(s) > 300 {
		return s[:300] + "..."
	}
	return s
}

// GenArg draws a literal expression of the given type.
func GenArg(t *rapid.T, ty lang.Ty, label string) *lang.Expr {
	switch ty {
	case lang.TInt:
		if rapid.IntRange(0, 3).Draw(t, label+"big") == 0 {
			return lang.Int(rapid.IntRange(-100, 100).Draw(t, label))
		}
		return lang.Int(rapid.IntRange(-2, 8).Draw(t, label))
	case lang.TFloat:
		return lang.Float(float64(rapid.IntRange(-40, 40).Draw(t, label)) / 4)
	case lang.TStr:
		return lang.Str(rapid.SampledFrom([]string{"", "a", "ab", "abc", "b", "Hello World", "äöü", "x y z", "T"}).Draw(t, label))
	case lang.TBool:
		return lang.Bool(rapid.Bool().Draw(t, label))
	case lang.TLInt:
		n := rapid.IntRange(0, 5).Draw(t, label+"len")
		items := make([]*lang.Expr, n)
		for i := range items {
			items[i] = lang.Int(rapid.IntRange(-3, 9).Draw(t, label+"item"))
		}
		return lang.List(items...)
	case lang.TRec:
		return lang.Map([]string{"a", "b"}, []*lang.Expr{lang.Int(rapid.IntRange(-3, 9).Draw(t, label+"a")), lang.Int(rapid.IntRange(-3, 9).Draw(t, label+"b"))})
	}
	if ty == lang.TFn1 {
		k, c := rapid.IntRange(-2, 3).Draw(t, label+"k"), rapid.IntRange(-3, 5).Draw(t, label+"c")
		return lang.Lam([]string{"e"}, lang.Bin("+", lang.Bin("*", lang.Var("e"), lang.Int(k)), lang.Int(c)))
	}
	panic("GenArg: no literal for type " + string(ty))
}

func GenArgs(t *rapid.T, tys []lang.Ty) []*lang.Expr {
	out := make([]*lang.Expr, len(tys))
	for i, ty := range tys {
		out[i] = GenArg(t, ty, fmt.Sprintf("arg%d", i))
	}
	return out
}

// ArgValues evaluates the literal argument expressions with the reference.
func ArgValues(args []*lang.Expr) []ref.Value {
	in := ref.NewInterp()
	out := make([]ref.Value, len(args))
	for i, a := range args {
		v, err := in.Eval(a, ref.Globals())
		if err != nil {
			panic("argument literal does not evaluate: " + err.Error())
		}
		out[i] = v
	}
	return out
}

// NewRef creates a reference interpreter with the language's static functions.
func NewRef() *ref.Interp {
	in := ref.NewInterp()
	in.AddLanguageStatics()
	return in
}

// RefRun evaluates the case on the reference. in may carry extra static functions.
func RefRun(in *ref.Interp, c Case) Outcome {
	env := ref.Globals()
	vals := ArgValues(c.Args)
	for i, n := range c.Prog.ArgNames {
		env = env.Bind(n, vals[i], false)
	}
	v, err := in.Eval(c.Prog.Body, env)
	if err != nil {
		return Outcome{Err: err}
	}
	return Outcome{Val: v}
}

// ImplArgs converts the argument literals into implementation values.
func ImplArgs(c Case, rep obs.MapRep) []value.Value {
	vals := ArgValues(c.Args)
	out := make([]value.Value, len(vals))
	for i, v := range vals {
		out[i] = obs.ToImplRep(v, rep)
	}
	return out
}

// Observe turns the result of an implementation evaluation into an Outcome (forcing
// lazy lists deeply).
func Observe(v value.Value, err error) Outcome {
	if err != nil {
		return Outcome{Err: err}
	}
	rv, ferr := obs.FromImpl(v)
	if ferr != nil {
		_, isPanic := ferr.(*obs.HostPanic)
		return Outcome{Err: ferr, Panic: isPanic}
	}
	return Outcome{Val: rv}
}

// ImplRun generates and evaluates the case on the implementation.
func ImplRun(g *value.FunctionGenerator, c Case) Outcome {
	f, _, err := g.Generate(c.Text, c.Prog.ArgNames...)
	if err != nil {
		return Outcome{GenErr: err}
	}
	return ImplEval(f, c)
}

// ImplRunTwice generates once and evaluates twice, passing the same argument objects
// again: values are immutable, the second outcome is the first one.
func ImplRunTwice(g *value.FunctionGenerator, c Case) (Outcome, Outcome) {
	f, _, err := g.Generate(c.Text, c.Prog.ArgNames...)
	if err != nil {
		return Outcome{GenErr: err}, Outcome{GenErr: err}
	}
	args := ImplArgs(c, obs.RepListMap)
	first := Observe(f.Eval(args...))
	return first, Observe(f.Eval(args...))
}

func ImplEval(f funcGen.Func[value.Value], c Case) Outcome {
	return Observe(f.Eval(ImplArgs(c, obs.RepListMap)...))
}

// Compare returns "" if the implementation outcome agrees with the reference outcome:
// the same value, or an error in both. If the reference error carries thrown tokens and
// the comparison of error texts is requested by a catch closure, that happened inside
// the program already; here only ok-vs-error is compared.
func Compare(want, got Outcome, tol float64) string {
	if got.GenErr != nil {
		return "Generate rejected a well-formed program: " + short(got.GenErr.Error())
	}
	if got.Panic {
		return "forcing the result panicked in the host: " + short(got.Err.Error())
	}
	if want.Err != nil {
		if got.Err != nil {
			return ""
		}
		return fmt.Sprintf("reference fails (%s) but the implementation returns %s", short(want.Err.Error()), ref.Show(got.Val))
	}
	if got.Err != nil {
		return fmt.Sprintf("reference returns %s but the implementation fails: %s", ref.Show(want.Val), short(got.Err.Error()))
	}
	if !ref.Same(want.Val, got.Val, tol) {
		return fmt.Sprintf("reference returns %s but the implementation returns %s", ref.Show(want.Val), ref.Show(got.Val))
	}
	return ""
}

// OutOfDomain reports whether the reference run left the specified domain (budget,
// unspecified edges, ambiguous sort, order leaks, inexact float products).
func OutOfDomain(in *ref.Interp, o Outcome) string {
	switch {
	case o.Err == ref.ErrBudget || in.BudgetHit:
		return "budget"
	case in.Unspecified:
		return "unspecified_edge"
	case in.SortTies:
		return "sort_ties"
	case in.OrderLeak:
		return "order_leak"
	case in.Inexact:
		return "inexact_float_product"
	}
	return ""
}

// NewImpl creates an implementation generator; opt=false disables the optimizer.
func NewImpl(opt bool) *value.FunctionGenerator {
	g := value.New()
	if !opt {
		g.SetOptimizer(nil)
	}
	return g
}

// Summary is the printable sample of a case.
func (c Case) Summary() map[string]any {
	args := make([]string, len(c.Args))
	for i, a := range c.Args {
		args[i] = c.Prog.ArgNames[i] + "=" + lang.Render(a)
	}
	return map[string]any{"program": c.Text, "args": strings.Join(args, ", ")}
}

// Exemplar describes a hand-written regression case.
type Exemplar struct {
	Name string
	Body *lang.Expr
	Args []*lang.Expr
}
