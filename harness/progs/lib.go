package progs

import (
	"github.com/hneemann/parser2/value"

	"verif/harness/obs"
	"verif/harness/ref"
)

// LibTemplates: programs that use a closure or map the LIBRARY builds from constants
// (createLowPass, createInterpolation, linearReg, a folded iirApply filter): the optimizer
// folds it into the function, so it is shared by all evaluations of the function. The
// reference does not model all of these functions; the oracle is the function itself: an
// evaluation of a freshly generated function with the same argument.
var LibTemplates = []string{
	// a low pass filter built from constants, applied to the signal in the argument
	`let lp=createLowPass("f",p->p.t,p->p.s,0.5); data.iirApply(lp).mapReduce(0,(sum,p)->sum+p.f)`,
	`let lp=createLowPass("f",p->p.t,p->p.s,2); data.iirApply(lp).map(p->p.f).reduce((a,b)->a*0.5+b)`,
	// an interpolation built from a constant table, used for every item of the argument
	`let ip=[{x:0,y:1},{x:1,y:3},{x:2,y:2},{x:4,y:8}].createInterpolation(p->p.x,p->p.y); data.map(p->ip(p.t)).reduce((a,b)->a+b)`,
	// a regression over a constant table
	`let r=[{x:0,y:1},{x:1,y:3},{x:2,y:2},{x:4,y:8}].linearReg(p->p.x,p->p.y); data.map(p->r.a*p.t+r.b).reduce((a,b)->a+b)`,
	// a constant filter map written in the language
	`let f={initial: p->{t:p.t,f:p.s}, filter: (p0,p1,l)->{t:p1.t,f:l.f+(p1.s-l.f)*(p1.t-p0.t)}}; data.iirApply(f).mapReduce(0,(sum,p)->sum+p.f)`,
	// the interpolation queried in falling order and far outside of the table
	`let ip=[{x:0,y:1},{x:1,y:3},{x:2,y:2},{x:4,y:8},{x:5,y:0},{x:7,y:-2}].createInterpolation(p->p.x,p->p.y); data.reverse().map(p->ip(p.t*1.5-1)).reduce((a,b)->a*0.5+b)`,
}

// LibSteps are the sampling intervals the signals are drawn from (irregular sampling).
var LibSteps = []float64{0.125, 0.25, 0.5, 1, 0.375, 2, 0.0625}

// LibArg builds the argument of a library template: a signal [{t:..,s:..}] sampled at
// the given intervals.
func LibArg(steps []float64) value.Value {
	l := &ref.List{}
	t := 0.0
	for i, dt := range steps {
		t += dt
		s := float64((i*7+len(steps)*3)%11) - 5
		l.Items = append(l.Items, &ref.Map{Keys: []string{"t", "s"}, Vals: []ref.Value{ref.Float(t), ref.Float(s)}})
	}
	return obs.ToImpl(l)
}
