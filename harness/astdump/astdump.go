// Package astdump renders the implementation's AST (package parser2 of /repo) as the
// same S-expression format the reference parser (package pratt) produces, ignoring
// line numbers; and collects the line each node reports.
package astdump

import (
	"fmt"
	"strings"

	"github.com/hneemann/parser2"
)

// NodeLine is the line a node reports.
type NodeLine struct {
	Node string
	Line int
}

// Dump renders ast. constStr renders a constant value as "(num ...)" / "(str ...)".
func Dump[V any](ast parser2.AST, constStr func(V) string) string {
	var b strings.Builder
	dump[V](&b, ast, constStr, nil)
	return b.String()
}

// DumpLines renders ast and returns the line of every Ident / Const node in source
// order of the dump.
func DumpLines[V any](ast parser2.AST, constStr func(V) string) (string, []NodeLine) {
	var b strings.Builder
	var lines []NodeLine
	dump[V](&b, ast, constStr, &lines)
	return b.String(), lines
}

func q(s string) string { return fmt.Sprintf("%q", s) }

func dump[V any](b *strings.Builder, ast parser2.AST, cs func(V) string, lines *[]NodeLine) {
	note := func(n string, l parser2.Line) {
		if lines != nil {
			*lines = append(*lines, NodeLine{n, int(l)})
		}
	}
	switch e := ast.(type) {
	case nil:
		b.WriteString("<nil>")
	case *parser2.Const[V]:
		s := cs(e.Value)
		b.WriteString(s)
		note(s, e.Line)
	case *parser2.Ident:
		b.WriteString("(id " + q(e.Name) + ")")
		note("(id "+q(e.Name)+")", e.Line)
	case *parser2.Let:
		b.WriteString("(let " + q(e.Name) + " ")
		dump[V](b, e.Value, cs, lines)
		b.WriteString(" ")
		dump[V](b, e.Inner, cs, lines)
		b.WriteString(")")
	case *parser2.If:
		b.WriteString("(if ")
		dump[V](b, e.Cond, cs, lines)
		b.WriteString(" ")
		dump[V](b, e.Then, cs, lines)
		b.WriteString(" ")
		dump[V](b, e.Else, cs, lines)
		b.WriteString(")")
	case *parser2.TryCatch:
		b.WriteString("(try ")
		dump[V](b, e.Try, cs, lines)
		b.WriteString(" ")
		dump[V](b, e.Catch, cs, lines)
		b.WriteString(")")
	case *parser2.Switch[V]:
		b.WriteString("(switch ")
		dump[V](b, e.SwitchValue, cs, lines)
		for _, c := range e.Cases {
			b.WriteString(" (case ")
			dump[V](b, c.CaseConst, cs, lines)
			b.WriteString(" ")
			dump[V](b, c.Value, cs, lines)
			b.WriteString(")")
		}
		b.WriteString(" (default ")
		dump[V](b, e.Default, cs, lines)
		b.WriteString("))")
	case *parser2.Operate:
		b.WriteString("(op " + q(e.Operator) + " ")
		dump[V](b, e.A, cs, lines)
		b.WriteString(" ")
		dump[V](b, e.B, cs, lines)
		b.WriteString(")")
	case *parser2.Unary:
		b.WriteString("(un " + q(e.Operator) + " ")
		dump[V](b, e.Value, cs, lines)
		b.WriteString(")")
	case *parser2.MapAccess:
		b.WriteString("(dot " + q(e.Key) + " ")
		dump[V](b, e.MapValue, cs, lines)
		b.WriteString(")")
	case *parser2.MethodCall:
		b.WriteString("(mcall " + q(e.Name) + " ")
		dump[V](b, e.Value, cs, lines)
		for _, a := range e.Args {
			b.WriteString(" ")
			dump[V](b, a, cs, lines)
		}
		b.WriteString(")")
	case *parser2.ListAccess:
		b.WriteString("(idx ")
		dump[V](b, e.List, cs, lines)
		b.WriteString(" ")
		dump[V](b, e.Index, cs, lines)
		b.WriteString(")")
	case *parser2.ClosureLiteral:
		b.WriteString("(lam [")
		for i, n := range e.Names {
			if i > 0 {
				b.WriteString(" ")
			}
			b.WriteString(q(n))
		}
		b.WriteString("] ")
		dump[V](b, e.Func, cs, lines)
		b.WriteString(")")
	case *parser2.MapLiteral:
		b.WriteString("(map")
		e.Map.Iter(func(k string, v parser2.AST) bool {
			b.WriteString(" (" + q(k) + " ")
			dump[V](b, v, cs, lines)
			b.WriteString(")")
			return true
		})
		b.WriteString(")")
	case *parser2.ListLiteral:
		b.WriteString("(list")
		for _, a := range e.List {
			b.WriteString(" ")
			dump[V](b, a, cs, lines)
		}
		b.WriteString(")")
	case *parser2.FunctionCall:
		b.WriteString("(call ")
		dump[V](b, e.Func, cs, lines)
		for _, a := range e.Args {
			b.WriteString(" ")
			dump[V](b, a, cs, lines)
		}
		b.WriteString(")")
	default:
		b.WriteString(fmt.Sprintf("(unknown %T)", ast))
	}
}

// AnyIdent is an identifier table that knows every name (plain identifiers).
func AnyIdent[V any]() parser2.Identifiers[V] {
	return func(name string) (parser2.Identifier[V], bool) {
		return parser2.Identifier[V]{Name: name}, true
	}
}
