package c08

import (
	"os"
	"path/filepath"
	"testing"

	"verif/harness/evid"
)

func TestMakeExemplars(t *testing.T) {
	dir := os.Getenv("VERIF_MAKE_EXEMPLARS")
	if dir == "" {
		t.Skip("VERIF_MAKE_EXEMPLARS not set")
	}
	big := 100000000000
	cases := map[string]Case{
		"first-on-1e11":                                 {N: big, FailGap: 0, Consumer: St{Name: "first"}},
		"top-size-with-read-ahead":                      {N: big, FailGap: 0, Stages: []St{{Name: "accept", A: 3, B: 1}, {Name: "skip", A: 5}}, Consumer: St{Name: "topSize", A: 12}},
		"present-at-k":                                  {N: big, FailGap: 1, Stages: []St{{Name: "combine"}, {Name: "map", A: 2}}, Consumer: St{Name: "present", A: 40}},
		"multiUse-short-circuit":                        {N: big, FailGap: 2, Stages: []St{{Name: "number"}}, Consumer: St{Name: "multiUse", A: 3}},
		"membership":                                    {N: big, FailGap: 0, Stages: []St{{Name: "plus"}}, Consumer: St{Name: "contains", A: 16}},
		"F29-multiUse-behind-failed-item":               {N: big, FailGap: 0, FailNear: true, Stages: []St{{Name: "top", A: 2000000000}, {Name: "combine"}}, Consumer: St{Name: "multiUse", A: 12}},
		"sublist-membership-near-failure":               {N: big, FailGap: 0, FailNear: true, Stages: []St{{Name: "map", A: 1}}, Consumer: St{Name: "containsAll", A: 4}},
		"top-read-ahead-item-fails":                     {N: big, FailGap: 0, FailNear: true, Stages: []St{{Name: "iir"}}, Consumer: St{Name: "topSum", A: 7}},
		"single-on-many-items-is-decided-by-the-second": {N: big, FailGap: -1, Stages: []St{{Name: "accept", A: 2, B: 0}}, Consumer: St{Name: "singleMany"}},
		"cross-runs-its-second-operand-lazily-per-row":  {N: 7, FailGap: -1, CrossRows: 3, Consumer: St{Name: "indexWhere", A: 100}, Stages: []St{{Name: "skip", A: 8}}},
		"unconsumed-let":                                {N: big, FailGap: -1, Stages: []St{{Name: "accept", A: 2, B: 0}, {Name: "top", A: 5}}, Consumer: St{Name: "first"}, Unused: "let"},
		"unconsumed-returned":                           {N: 1000, FailGap: -1, Stages: []St{{Name: "map", A: 1}, {Name: "skip", A: 3}}, Consumer: St{Name: "first"}, Unused: "return"},
	}
	for name, c := range cases {
		os.Setenv("VERIF_FAILFILE", filepath.Join(dir, name+".json"))
		evid.WriteFailure(evid.Failure{Property: prop, Test: "c08", Message: "regression exemplar", Case: c})
	}
}
