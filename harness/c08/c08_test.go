// Package c08: laziness - short-circuit consumers demand only the prefix they need.
package c08

import (
	"fmt"
	"runtime"
	"strings"
	"testing"

	"github.com/hneemann/parser2/value"
	"pgregory.net/rapid"

	"verif/harness/evid"
	"verif/harness/host"
	. "verif/harness/lang"
	"verif/harness/progs"
	"verif/harness/ref"
)

const prop = "C08"

// A fresh generator and host state per case: goroutines a previous case left behind
// (stranded parallel workers) then count into their own, abandoned state.
func newImpl() (*value.FunctionGenerator, *host.State) {
	g := progs.NewImpl(true)
	st := host.NewState()
	host.Register(g, st)
	return g, st
}

// St is a lazy stage behind the counting map. Each stage has an expression form and
// a pull-based Go model with exactly the same value semantics.
type St struct {
	Name string `json:"name"`
	A    int    `json:"a,omitempty"`
	B    int    `json:"b,omitempty"`
}

type Case struct {
	N        int    `json:"n"`            // numbers(N)
	Slow     bool   `json:"slow_counter"` // the counting closure is slow for the first elements (parallel switch)
	Stages   []St   `json:"stages"`
	Consumer St     `json:"consumer"`
	FailGap  int    `json:"fail_gap"`            // >=0: the counting closure throws at source index D+window+FailGap
	FailNear bool   `json:"fail_near,omitempty"` // the counting closure throws at source index D+FailGap: directly behind the decisive prefix, inside the read-ahead window
	Unused   string `json:"unused,omitempty"`    // "let": pipeline bound but not consumed; "return": returned lazily
	// CrossRows > 0: the counted list is the SECOND operand of a cross with CrossRows rows,
	// numbers(R).cross(numbers(N).map(cnt), (a,b)->b): cross runs it once per row, lazily
	CrossRows int `json:"cross_rows,omitempty"`
	// NestVia != "": the counted pipeline is the ITEM of an outer list of NestRows rows,
	// numbers(R).map(r -> pipeline); the consumer is applied to the rows an outer lazy
	// consumer selects: "first" (the first row), "top" (the first NestTop rows), "multiUse"
	// (the first row by one consumer, the first NestTop rows by the other). Rows nobody
	// consumes, and the rest of a consumed row, are never evaluated.
	NestVia  string `json:"nest_via,omitempty"`
	NestRows int    `json:"nest_rows,omitempty"`
	NestTop  int    `json:"nest_top,omitempty"`
}

// nested returns the program that applies the consumer to the selected rows, and the
// number of rows that are consumed.
func (c Case) nested() (*Expr, int) {
	outer := MCall(SCall("numbers", Int(c.NestRows)), "map", lam("r", c.list()))
	perRow := lam("row", c.Consumer.consume(Var("row")))
	k := min(c.NestTop, c.NestRows)
	switch c.NestVia {
	case "first":
		return c.Consumer.consume(MCall(outer, "first")), 1
	case "top":
		return MCall(MCall(outer, "top", Int(c.NestTop)), "map", perRow), k
	case "multiUse":
		return MCall(outer, "multiUse", Map([]string{"f", "t"}, []*Expr{
			lam("o", c.Consumer.consume(MCall(Var("o"), "first"))),
			lam("o", MCall(MCall(MCall(Var("o"), "top", Int(c.NestTop)), "map", perRow), "string"))})), 1 + k
	}
	panic("nest " + c.NestVia)
}

func (c Case) programText() string {
	if c.NestVia != "" {
		p, _ := c.nested()
		return Render(p)
	}
	return Render(c.Consumer.consume(c.list()))
}

func (c Case) nestedWant(want ref.Value, ok bool) (ref.Value, bool) {
	k := min(c.NestTop, c.NestRows)
	rows := &ref.List{}
	for i := 0; i < k && ok; i++ {
		rows.Items = append(rows.Items, want)
	}
	switch c.NestVia {
	case "top":
		return rows, ok || k == 0
	case "multiUse":
		if !ok {
			return nil, false
		}
		str, err := ref.ToString(rows)
		if err != nil {
			panic(err)
		}
		return &ref.Map{Keys: []string{"f", "t"}, Vals: []ref.Value{want, ref.Str(str)}}, true
	}
	return want, ok
}

var e, a, b, l = Var("e"), Var("a"), Var("b"), Var("l")

func lam(ps string, body *Expr) *Expr {
	var names []string
	cur := ""
	for _, ch := range ps {
		if ch == ',' {
			names = append(names, cur)
			cur = ""
		} else {
			cur += string(ch)
		}
	}
	return Lam(append(names, cur), body)
}

const modulus = 1000003

func (s St) apply(recv *Expr) *Expr {
	switch s.Name {
	case "accept":
		// probe: a goroutine probe, so that a timing-triggered switch of this stage to
		// parallel execution is noticed
		return MCall(recv, "accept", lam("e", Bin("!=", Bin("%", SCall("probe", e), Int(s.A)), Int(s.B))))
	case "skip":
		return MCall(recv, "skip", Int(s.A))
	case "top":
		return MCall(recv, "top", Int(s.A))
	case "map":
		return MCall(recv, "map", lam("e", Bin("+", SCall("probe", e), Int(s.A))))
	case "combine":
		return MCall(recv, "combine", lam("a,b", Bin("+", a, b)))
	case "number":
		return MCall(recv, "number", lam("a,b", Bin("+", a, b)))
	case "iir":
		return MCall(recv, "iir", lam("e", e), lam("a,b", Bin("%", Bin("+", a, b), Int(modulus))))
	case "plus":
		return Bin("+", recv, List(Int(-1), Int(-2)))
	}
	panic("stage " + s.Name)
}

type iter func() (int, bool)

func (s St) model(in iter, ahead bool) iter {
	switch s.Name {
	case "accept":
		return func() (int, bool) {
			for {
				v, ok := in()
				if !ok {
					return 0, false
				}
				if v%s.A != s.B {
					return v, true
				}
			}
		}
	case "skip":
		skipped := false
		return func() (int, bool) {
			if !skipped {
				skipped = true
				for i := 0; i < s.A; i++ {
					if _, ok := in(); !ok {
						return 0, false
					}
				}
			}
			return in()
		}
	case "top":
		n := 0
		return func() (int, bool) {
			if n >= s.A {
				if ahead && n == s.A {
					// the implementation notices the end of top(n) when it receives element n+1
					n++
					in()
				}
				return 0, false
			}
			n++
			return in()
		}
	case "map":
		return func() (int, bool) {
			v, ok := in()
			return v + s.A, ok
		}
	case "combine":
		have := false
		var prev int
		return func() (int, bool) {
			if !have {
				v, ok := in()
				if !ok {
					return 0, false
				}
				prev, have = v, true
			}
			v, ok := in()
			if !ok {
				return 0, false
			}
			r := prev + v
			prev = v
			return r, true
		}
	case "number":
		i := 0
		return func() (int, bool) {
			v, ok := in()
			if !ok {
				return 0, false
			}
			i++
			return v + i - 1, true
		}
	case "iir":
		first := true
		last := 0
		return func() (int, bool) {
			v, ok := in()
			if !ok {
				return 0, false
			}
			if first {
				first = false
				last = v
			} else {
				last = (v + last) % modulus
			}
			return last, true
		}
	case "plus":
		extra := []int{-1, -2}
		done := false
		return func() (int, bool) {
			if !done {
				v, ok := in()
				if ok {
					return v, true
				}
				done = true
			}
			if len(extra) == 0 {
				return 0, false
			}
			v := extra[0]
			extra = extra[1:]
			return v, true
		}
	}
	panic("stage " + s.Name)
}

func (c St) consume(recv *Expr) *Expr {
	switch c.Name {
	case "first":
		return MCall(recv, "first")
	case "topSize":
		return MCall(MCall(recv, "top", Int(c.A)), "size")
	case "topSum":
		return MCall(MCall(recv, "top", Int(c.A)), "mapReduce", Int(0), lam("a,b", Bin("%", Bin("+", a, b), Int(modulus))))
	case "present":
		return MCall(recv, "present", lam("e", Bin(">=", e, Int(c.A))))
	case "indexWhere":
		return MCall(recv, "indexWhere", lam("e", Bin(">=", e, Int(c.A))))
	case "single":
		return MCall(MCall(recv, "top", Int(1)), "single")
	case "singleMany":
		// single() on a list with more than one item fails: it is decided by the second item
		return MCall(recv, "single")
	case "contains":
		return Bin("~", Int(c.A), MCall(recv, "map", lam("e", Bin("-", SCall("probe", e), Bin("%", e, Int(2))))))
	case "containsAll":
		// the list form of ~: every element of the left list occurs in the pipeline
		return Bin("~", List(Int(c.A+2), Int(c.A)), MCall(recv, "map", lam("e", Bin("-", SCall("probe", e), Bin("%", e, Int(2))))))
	case "multiUse":
		return MCall(recv, "multiUse", Map([]string{"f", "t"}, []*Expr{lam("l", MCall(l, "first")), lam("l", MCall(MCall(l, "top", Int(c.A)), "size"))}))
	}
	panic("consumer " + c.Name)
}

// result of the ideal (demand driven) consumer on the model iterator.
func (c St) ideal(in iter, ahead bool) (ref.Value, bool) {
	switch c.Name {
	case "first":
		v, ok := in()
		if !ok {
			return nil, false
		}
		return ref.Int(v), true
	case "topSize", "topSum":
		n, sum := 0, 0
		for n < c.A {
			v, ok := in()
			if !ok {
				break
			}
			n++
			sum = (sum + v) % modulus
		}
		if ahead && n == c.A {
			in()
		}
		if c.Name == "topSum" {
			return ref.Int(sum), true
		}
		return ref.Int(n), true
	case "present", "indexWhere":
		i := 0
		for {
			v, ok := in()
			if !ok {
				if c.Name == "present" {
					return ref.Bool(false), true
				}
				return ref.Int(-1), true
			}
			if v >= c.A {
				if c.Name == "present" {
					return ref.Bool(true), true
				}
				return ref.Int(i), true
			}
			i++
		}
	case "single":
		v, ok := in()
		if !ok {
			return nil, false
		}
		if ahead {
			in() // top(1) sees its end with the second element
		}
		return ref.Int(v), true
	case "singleMany":
		v, ok := in()
		if !ok {
			return nil, false
		}
		if _, more := in(); more {
			return nil, false // "more than one item": an error, decided by the second item
		}
		return ref.Int(v), true
	case "contains":
		for {
			v, ok := in()
			if !ok {
				return ref.Bool(false), true
			}
			if v-v%2 == c.A {
				return ref.Bool(true), true
			}
		}
	case "containsAll":
		f1, f2 := false, false
		for {
			v, ok := in()
			if !ok {
				return ref.Bool(false), true
			}
			if v-v%2 == c.A {
				f1 = true
			}
			if v-v%2 == c.A+2 {
				f2 = true
			}
			if f1 && f2 {
				return ref.Bool(true), true
			}
		}
	}
	panic("consumer " + c.Name)
}

// total: the number of items the (possibly repeated) counted source delivers; value: the
// i-th of them. Every pull costs one call of the counting closure.
func (c Case) total() int {
	if c.CrossRows > 0 {
		return c.N * c.CrossRows
	}
	return c.N
}

func (c Case) value(i int) int {
	if c.CrossRows > 0 {
		return i % c.N
	}
	return i
}

func (c Case) list() *Expr {
	body := SCall("cnt", e)
	if c.Slow {
		body = SCall("cnt", SCall("slowTo", e, Int(14)))
	}
	if c.FailGap >= 0 {
		body = If(Bin("=", e, Var("failAt")), SCall("throw", Str("T#0#")), body)
	}
	cur := MCall(SCall("numbers", Int(c.N)), "map", lam("e", body))
	if c.CrossRows > 0 {
		cur = MCall(SCall("numbers", Int(c.CrossRows)), "cross", cur, lam("a,b", b))
	}
	for _, s := range c.Stages {
		cur = s.apply(cur)
	}
	return cur
}

// demand runs the ideal consumer on the model and returns (D, value, ok).
// demandHi: the demand of an evaluation that reads one element ahead at every point
// where the implementation is allowed to (each top, the multiUse distributor: extra).
const demandCap = 200000

func (c Case) demandHi(cons St, extra int) int {
	d := 0
	var src iter = func() (int, bool) {
		if d >= c.total() || d > demandCap+100 {
			return 0, false
		}
		d++
		return c.value(d - 1), true
	}
	cur := src
	for _, s := range c.Stages {
		cur = s.model(cur, true)
	}
	cons.ideal(cur, true)
	for i := 0; i < extra; i++ {
		cur()
	}
	return d
}

func (c Case) demand(cons St) (int, ref.Value, bool) {
	d := 0
	var src iter = func() (int, bool) {
		if d >= c.total() || d > demandCap {
			return 0, false
		}
		d++
		return c.value(d - 1), true
	}
	cur := src
	for _, s := range c.Stages {
		cur = s.model(cur, false)
	}
	v, ok := cons.ideal(cur, false)
	return d, v, ok
}

type info struct {
	d, calls, bound int
	parallel        bool
	skip            string
	timedOut        bool
}

// check evaluates the case; an evaluation that ends in the time-out of the multiUse
// distributor (a wall-clock limit inside the dependency: a consumer did not take an item
// for five seconds, seen only on a heavily loaded machine) says nothing about demand and
// is repeated; only a time-out in three evaluations in a row is reported.
func check(c Case) (string, info) {
	var msg string
	var inf info
	for attempt := 0; attempt < 3; attempt++ {
		msg, inf = checkOnce(c)
		if !inf.timedOut {
			return msg, inf
		}
		evid.R.Class("multiUse_distributor_timed_out_evaluation_repeated")
	}
	return msg, inf
}

func checkOnce(c Case) (string, info) {
	var inf info
	impl, state := newImpl()
	tops := 0
	for _, s := range c.Stages {
		if s.Name == "top" {
			tops++
		}
	}
	var want ref.Value
	var wantOK bool
	var d int
	if c.Consumer.Name == "multiUse" {
		d1, v1, ok1 := c.demand(St{Name: "first"})
		d2, v2, ok2 := c.demand(St{Name: "topSize", A: c.Consumer.A})
		d = max(d1, d2)
		wantOK = ok1 && ok2
		if wantOK {
			want = &ref.Map{Keys: []string{"f", "t"}, Vals: []ref.Value{v1, v2}}
		}
		tops += 2 // the distributor and the top inside the second consumer
	} else {
		d, want, wantOK = c.demand(c.Consumer)
		switch c.Consumer.Name {
		case "topSize", "topSum", "single":
			tops++
		}
	}
	inf.d = d
	if d > demandCap {
		// the consumer is not decided within the cap: not a short-circuit case
		inf.skip = "demand_beyond_cap"
		return "", inf
	}
	// sequential bound: the read-ahead demand plus one element
	hi := 0
	if c.Consumer.Name == "multiUse" {
		hi = max(c.demandHi(St{Name: "first"}, 1), c.demandHi(St{Name: "topSize", A: c.Consumer.A}, 1))
	} else {
		hi = c.demandHi(c.Consumer, 0)
	}
	if hi > demandCap {
		inf.skip = "demand_beyond_cap"
		return "", inf
	}
	window := hi - d + 1
	failAt := -1
	var prog *Expr
	switch c.Unused {
	case "let":
		prog = Let("p", c.list(), Int(7))
		want, wantOK, d = ref.Int(7), true, 0
	case "return":
		prog = c.list()
		d = 0
	default:
		prog = c.Consumer.consume(c.list())
	}
	mult := 1
	if c.NestVia != "" && c.Unused == "" && hi > 3000 {
		// (a multiUse consumer that is busy for seconds with one row runs into the
		// distributor's timeout; that is not what this check is about)
		inf.skip = "demand_beyond_cap"
		return "", inf
	}
	if c.NestVia != "" && c.Unused == "" {
		prog, mult = c.nested()
		want, wantOK = c.nestedWant(want, wantOK)
	}
	text := Render(prog)
	args := []string{"failAt"}
	f, _, err := impl.Generate(text, args...)
	if err != nil {
		return "Generate rejected " + text + ": " + err.Error(), inf
	}
	par := 2*runtime.NumCPU() + 2
	if c.FailGap >= 0 {
		failAt = d + window + c.FailGap
		if c.Slow {
			failAt += par
		}
		if c.FailNear {
			// the first elements behind the decisive prefix: an evaluation may read them
			// ahead, but their error belongs to a later element and must not be reported
			failAt = d + c.FailGap
		}
	}
	// every consumed row costs the demand of one consumption
	d, window = d*mult, window*mult
	inf.d = d
	state.Reset()
	state.CntLimit.Store(int64(d + window + par + 100000))
	me := host.Gid()
	v, everr := f.Eval(progs.ImplArgs(progs.Case{Args: []*Expr{Int(failAt)}}, 0)...)
	var got progs.Outcome
	if c.Unused == "" {
		// (the rows of a nested case are consumed when the list of their results is read)
		got = progs.Observe(v, everr)
	}
	calls := int(state.Cnt.Load())
	inf.calls = calls
	inf.parallel = state.OffCaller(me)
	bound := d + window
	if inf.parallel {
		bound += par
	}
	inf.bound = bound
	where := fmt.Sprintf("%s with failAt=%d (N=%d, decisive demand D=%d)", text, failAt, c.N, d)
	switch c.Unused {
	case "let", "return":
		if calls != 0 {
			return fmt.Sprintf("%s: building the pipeline without consuming it evaluated the element closure %d times", where, calls), inf
		}
		if everr != nil {
			return fmt.Sprintf("%s fails: %v", where, everr), inf
		}
		if c.Unused == "let" && v != progs.ImplArgs(progs.Case{Args: []*Expr{Int(7)}}, 0)[0] {
			return fmt.Sprintf("%s = %v", where, v), inf
		}
		return "", inf
	}
	if calls > bound && inf.parallel && calls <= d+window+1000000 {
		// Finding F27: once a map runs in parallel, the dependency's collector buffers
		// results that arrive out of order without any back-pressure, so a descheduled
		// worker lets the others run ahead by more than the worker count. The evaluation
		// is still lazy (it stops), only the read-ahead bound of the property is exceeded.
		evid.R.Known("F27")
		inf.skip = "F27"
	} else if calls > bound {
		return fmt.Sprintf("%s: the element closure ran %d times, a lazy evaluation needs %d (+%d read-ahead%s)", where, calls, d, bound-d,
			map[bool]string{true: " incl. parallel workers", false: ""}[inf.parallel]), inf
	}
	if gl, isList := got.Val.(*ref.List); got.Err == nil && isList && gl.Err != nil && c.NestVia == "top" {
		// the list of the rows' results fails at an item: the consumption of that row failed
		got = progs.Outcome{Err: gl.Err}
	}
	if !wantOK {
		if got.Err == nil {
			return fmt.Sprintf("%s returns %v, the model fails (empty list)", where, got), inf
		}
		return "", inf
	}
	if got.Err != nil {
		if inf.parallel && (failAt >= 0 || strings.Contains(got.Err.Error(), "demand limit exceeded")) {
			// F27 again: the unbounded read-ahead of the parallel stage reached the failing element
			evid.R.Known("F27")
			inf.skip = "F27"
			return "", inf
		}
		inf.timedOut = strings.Contains(got.Err.Error(), "iterator timed out")
		return fmt.Sprintf("%s fails (%v), the decisive prefix evaluates to %s; the error of an element behind the decisive one must not be reported", where, got.Err, ref.Show(want)), inf
	}
	if !ref.Same(want, got.Val, 0) {
		return fmt.Sprintf("%s = %s, want %s", where, ref.Show(got.Val), ref.Show(want)), inf
	}
	return "", inf
}

var stageNames = []string{"accept", "skip", "top", "map", "combine", "number", "iir", "plus"}
var consumers = []string{"first", "topSize", "topSum", "present", "indexWhere", "single", "singleMany", "contains", "containsAll", "multiUse"}

func TestPropC08(t *testing.T) {
	defer evid.R.Flush()
	rapid.Check(t, func(t *rapid.T) {
		c := Case{FailGap: -1}
		c.N = rapid.SampledFrom([]int{100000000000, 100000000000, 1000000000, 5000000000, 100, 20, 3, 0, 1}).Draw(t, "n")
		c.Slow = rapid.IntRange(0, 7).Draw(t, "slow") == 0
		ns := rapid.IntRange(0, 4).Draw(t, "stages")
		for i := 0; i < ns; i++ {
			s := St{Name: stageNames[rapid.IntRange(0, len(stageNames)-1).Draw(t, "stage")]}
			switch s.Name {
			case "accept":
				s.A = rapid.IntRange(2, 5).Draw(t, "m")
				s.B = rapid.IntRange(0, s.A-1).Draw(t, "r")
			case "skip":
				s.A = rapid.IntRange(0, 30).Draw(t, "skip")
			case "top":
				s.A = rapid.IntRange(0, 70).Draw(t, "top")
				if rapid.Bool().Draw(t, "hugeTop") {
					s.A = 2000000000
				}
			case "map":
				s.A = rapid.IntRange(-3, 3).Draw(t, "add")
			}
			c.Stages = append(c.Stages, s)
		}
		c.Consumer = St{Name: consumers[rapid.IntRange(0, len(consumers)-1).Draw(t, "consumer")]}
		k := rapid.IntRange(0, 64).Draw(t, "k")
		if rapid.IntRange(0, 3).Draw(t, "aroundSwitch") == 0 {
			k = rapid.SampledFrom([]int{10, 11, 12, 13, 14, runtime.NumCPU() - 1, runtime.NumCPU(), runtime.NumCPU() + 1, 2 * runtime.NumCPU()}).Draw(t, "k2")
		}
		c.Consumer.A = k
		if c.Consumer.Name == "contains" || c.Consumer.Name == "containsAll" {
			c.Consumer.A = 2 * (k / 2)
		}
		if rapid.IntRange(0, 7).Draw(t, "crossRows") == 0 {
			// the counted list as second operand of a cross: it is run once per row
			c.CrossRows = rapid.IntRange(2, 5).Draw(t, "rows")
			c.N = rapid.IntRange(2, 25).Draw(t, "innerN")
			c.Slow = false
		}
		if c.CrossRows == 0 && rapid.IntRange(0, 7).Draw(t, "nested") == 0 {
			c.NestVia = rapid.SampledFrom([]string{"first", "top", "multiUse", "multiUse"}).Draw(t, "nestVia")
			c.NestRows = rapid.IntRange(1, 6).Draw(t, "nestRows")
			c.NestTop = rapid.IntRange(0, 4).Draw(t, "nestTop")
			c.Slow = false
		}
		if c.CrossRows == 0 && rapid.IntRange(0, 2).Draw(t, "failing") == 0 {
			c.FailGap = rapid.IntRange(0, 5).Draw(t, "failGap")
			c.FailNear = rapid.Bool().Draw(t, "failNear")
		}
		switch rapid.IntRange(0, 11).Draw(t, "unused") {
		case 0:
			c.Unused = "let"
		case 1:
			c.Unused = "return"
		}
		if c.Unused != "" {
			c.NestVia = ""
		}
		msg, inf := check(c)
		if msg != "" {
			evid.Fail(t, prop, "c08", "", c, "%s", msg)
		}
		if inf.skip == "demand_beyond_cap" {
			evid.R.Skip()
			evid.R.Class("skipped_demand_beyond_cap")
			return
		}
		var cls []string
		cls = append(cls, "consumer_"+c.Consumer.Name)
		if c.Unused != "" {
			cls = append(cls, "pipeline_not_consumed")
		}
		if c.FailGap >= 0 && c.FailNear {
			cls = append(cls, "failing_element_directly_behind_decisive_prefix")
		} else if c.FailGap >= 0 {
			cls = append(cls, "failing_element_behind_window")
		}
		if inf.parallel {
			cls = append(cls, "counter_ran_on_worker_goroutines")
		}
		if inf.calls == inf.d {
			cls = append(cls, "demand_exact")
		} else if c.Unused == "" {
			cls = append(cls, "demand_with_read_ahead")
		}
		if c.CrossRows > 0 {
			cls = append(cls, "counted_list_is_second_operand_of_cross")
		}
		if c.NestVia != "" {
			cls = append(cls, "counted_pipeline_is_item_of_an_outer_list", "outer_consumer_"+c.NestVia)
		}
		nt := (c.N >= 1000000000 || c.FailGap >= 0 || c.CrossRows > 0) && inf.d < c.total()
		evid.R.Case(nt, fmt.Sprint(c), func() any {
			return map[string]any{"program": c.programText(), "n": c.N, "demand": inf.d, "calls": inf.calls, "bound": inf.bound, "unused": c.Unused}
		}, cls...)
	})
}

func TestReplay(t *testing.T) {
	for _, path := range evid.ReplayFiles("c08") {
		var c Case
		if _, err := evid.ReadFailure(path, &c); err != nil {
			t.Fatalf("cannot read %s: %v", path, err)
		}
		if msg, _ := check(c); msg != "" {
			evid.ReplayFailed(t, path, msg)
		}
	}
}
