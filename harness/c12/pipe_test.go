package c12

import "testing"

// replayPipelines is filled in by the pipeline part of the check.
func replayPipelines(t *testing.T) {}
