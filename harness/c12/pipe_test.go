package c12

import (
	"fmt"
	"strings"
	"testing"
	"time"

	"pgregory.net/rapid"

	"verif/harness/evid"
	"verif/harness/host"
	"verif/harness/lang"
	"verif/harness/leak"
	"verif/harness/pipes"
	"verif/harness/progs"
)

// PipeCase: a pipeline that is evaluated Repeats times; the result is forced, dropped
// or partially consumed.
type PipeCase struct {
	Spec    *pipes.Spec `json:"spec"`
	Text    string      `json:"text"`
	Repeats int         `json:"repeats"`
	Consume string      `json:"consume"` // force drop partial
}

var pimpl = progs.NewImpl(true)
var pstate = host.NewState()

func init() { host.Register(pimpl, pstate) }

// classify attributes leaked goroutines to the open findings by their entry function.
func classify(gs []leak.G) (known map[string]int, unknown []leak.G) {
	known = map[string]int{}
	for _, g := range gs {
		switch {
		case strings.Contains(g.Entry, "iterator.initParallel") || strings.Contains(g.Entry, "iterator.MapParallel"):
			known["F11"]++
		case strings.Contains(g.Entry, "iterator.ToChan"):
			known["F12"]++
		default:
			unknown = append(unknown, g)
		}
	}
	return
}

type pinfo struct {
	stoppedEarly bool
	known        map[string]int
	started      bool
}

func checkPipe(c PipeCase) (string, pinfo) {
	var inf pinfo
	f, _, err := pimpl.Generate(c.Text)
	if err != nil {
		return "Generate rejected the pipeline: " + err.Error(), inf
	}
	baseline := leak.IDs()
	pstate.SleepUs.Store(300)
	for r := 0; r < c.Repeats; r++ {
		func() {
			defer func() { recover() }()
			v, err := f.Eval()
			if err != nil {
				inf.stoppedEarly = true // error path
				return
			}
			switch c.Consume {
			case "force":
				progs.Observe(v, nil)
			case "partial":
				if l, ok := v.ToList(); ok {
					n := 0
					for range l.Iterate(newStack()) {
						n++
						if n >= 3 {
							inf.stoppedEarly = true
							break
						}
					}
				}
			}
		}()
	}
	left := leak.SettleStable(baseline, 3*time.Second, 400*time.Millisecond)
	known, unknown := classify(left)
	inf.known = known
	if len(unknown) > 0 {
		return fmt.Sprintf("%d evaluation(s) of %s (result %s) left %d goroutine(s) behind, by entry function: %v; first stack:\n%s", c.Repeats, c.Text, c.Consume,
			len(unknown), leak.Entries(unknown), unknown[0].Stack), inf
	}
	return "", inf
}

func TestPropPipelines(t *testing.T) {
	defer evid.R.Flush()
	cfg := pipes.PipeConfig{MaxN: 1500, MaxStages: 4, Slow: true, FailPercent: 25, EarlyStop: true}
	rapid.Check(t, func(t *rapid.T) {
		sp := pipes.GenSpec(t, cfg, 1)
		c := PipeCase{Spec: sp, Repeats: rapid.IntRange(1, 3).Draw(t, "repeats"), Consume: rapid.SampledFrom([]string{"force", "drop", "partial"}).Draw(t, "consume")}
		if rapid.IntRange(0, 3).Draw(t, "lazyResult") == 0 {
			sp.Terminal = pipes.Stage{Name: "list", Fail: -1}
		}
		c.Text = lang.Render(sp.Expr())
		msg, inf := checkPipe(c)
		if msg != "" {
			evid.Fail(t, prop, "pipeline", "", c, "%s", msg)
		}
		cls := []string{"pipeline_consume_" + c.Consume, "pipeline_terminal_" + sp.Terminal.Name}
		for id, n := range inf.known {
			// attributed to an open finding of the dependency: counted, reported as
			// KNOWN-FINDING by the driver, the search goes on
			for i := 0; i < n; i++ {
				evid.R.Known(id)
			}
			cls = append(cls, "pipeline_leak_attributed_to_"+id)
		}
		early := inf.stoppedEarly || sp.Has("first") || sp.Has("topSize") || sp.Has("present") || sp.Has("indexWhere") || sp.Has("top") || c.Consume != "force"
		goroutineBacked := sp.HasSlow() || sp.Has("merge") || sp.Has("multiUse") || sp.Has("multiUseRejected") || sp.Has("multiUseFailingConsumer") || sp.Has("multiUseListUsedTwice")
		if sp.Has("multiUseRejected") || sp.Has("multiUseFailingConsumer") || sp.Has("multiUseListUsedTwice") {
			early = true // an error path of a goroutine-backed built-in
			cls = append(cls, "pipeline_error_path_of_multiUse")
		}
		if goroutineBacked {
			cls = append(cls, "pipeline_goroutine_backed_stage")
		}
		evid.R.Case(early && goroutineBacked, "pipe:"+c.Text+c.Consume, func() any {
			return map[string]any{"kind": "pipeline", "pipeline": sp.Describe(), "text": c.Text, "consume": c.Consume, "repeats": c.Repeats}
		}, cls...)
	})
}

// TestKnownF12 evaluates the exemplar of the open finding F12 in a short-lived process:
// merge over two long sources with a consumer that takes one element. The producers keep
// iterating after the consumer is gone (dependency: a 'break' inside a select leaves only
// the select). If they are still running one second later the finding is confirmed.
func TestKnownF12(t *testing.T) {
	defer evid.R.Flush()
	// (the expression is constant: the optimizer evaluates it during Generate already)
	baseline := leak.IDs()
	f, _, err := pimpl.Generate("numbers(300000000).merge(numbers(300000000),(a,b)->a<b).first()")
	if err != nil {
		t.Fatal(err)
	}
	if _, err := f.Eval(); err != nil {
		t.Fatal(err)
	}
	time.Sleep(time.Second)
	spinning := 0
	for _, g := range leak.Library() {
		if !baseline[g.ID] && strings.Contains(g.Entry, "iterator.ToChan") {
			spinning++
		}
	}
	evid.R.Case(true, "F12-exemplar-a", nil, "known_finding_exemplar")
	evid.R.Case(true, "F12-exemplar-b", nil, "known_finding_exemplar")
	if spinning > 0 {
		evid.R.Known("F12")
		fmt.Printf("F12 confirmed: %d producer goroutines still iterate one second after the consumer stopped\n", spinning)
	}
}

// TestErrorPathStopsBackgroundWork: an evaluation that failed has returned; what it
// started must not go on working. A merge operand (they are iterated by goroutines of
// their own) fails at an early item and has millions of items behind it: shortly after
// the evaluation returned the counting closure of that operand must have stopped.
func TestErrorPathStopsBackgroundWork(t *testing.T) {
	defer evid.R.Flush()
	shapes := []string{
		"numbers(5).merge(numbers(4000000).map(e -> if e = 3 then throw(\"x\") else cnt(e)), (a, b) -> a < b).size()",
		"numbers(4000000).map(e -> if e = 3 then throw(\"x\") else cnt(e)).merge(numbers(5), (a, b) -> a < b).size()",
		// (only the operand that failed is counted: an operand that did not fail goes on after
		// the consumer is gone - that is the open finding F12 of the dependency)
		"numbers(4000000).map(e -> if e = 2 then throw(\"x\") else cnt(e)).merge(numbers(6).map(e -> e * 2), (a, b) -> a < b).reduce((a, b) -> b)",
		"numbers(4000000).number((i, e) -> if e = 3 then throw(\"x\") else cnt(e)).merge(numbers(7), (a, b) -> a < b).sum()",
		// a consumer uses its list twice (an error); the other consumer still has work to do behind the end of the list
		"numbers(20).multiUse({a: l -> l.first() + l.first(), b: l -> l.size() + numbers(200000).map(e -> cnt(e)).reduce((a, b) -> b)})",
		"numbers(20).multiUse({a: l -> l.map(e -> e).size() + l.map(e -> e).size(), b: l -> l.size() + numbers(200000).map(e -> cnt(e)).reduce((a, b) -> b)})",
		"numbers(9).multiUse({a: l -> l.merge(numbers(4000000).map(e -> if e = 3 then throw(\"x\") else cnt(e)), (a, b) -> a < b).size(), b: l -> l.size()})",
	}
	for _, text := range shapes {
		f, _, err := pimpl.Generate(text)
		if err != nil {
			t.Fatalf("Generate(%s): %v", text, err)
		}
		for r := 0; r < 3; r++ {
			pstate.Reset()
			if _, err := f.Eval(); err == nil {
				t.Fatalf("%s: the evaluation must fail", text)
			}
			time.Sleep(150 * time.Millisecond)
			n1 := pstate.Cnt.Load()
			time.Sleep(100 * time.Millisecond)
			n2 := pstate.Cnt.Load()
			c := PipeCase{Text: text, Repeats: 1, Consume: "force"}
			if n2 != n1 {
				evid.Fail(t, prop, "errorpath", "", c, "%s failed and returned the error, but work it had started went on in the background: the counting closure had run %d times 150 ms later, %d times 250 ms later", text, n1, n2)
			}
			evid.R.Case(true, fmt.Sprint("errorpath:", text, r), func() any { return map[string]any{"kind": "error path", "text": text, "items_pulled": n2} }, "error_path_of_merge")
		}
	}
	leak.SettleStable(leak.IDs(), time.Second, 200*time.Millisecond)
}

func replayErrorPath(t *testing.T) {
	for _, path := range evid.ReplayFiles("errorpath") {
		var c PipeCase
		if _, err := evid.ReadFailure(path, &c); err != nil {
			t.Fatalf("cannot read %s: %v", path, err)
		}
		f, _, err := pimpl.Generate(c.Text)
		if err != nil {
			t.Fatalf("Generate(%s): %v", c.Text, err)
		}
		pstate.Reset()
		f.Eval()
		time.Sleep(150 * time.Millisecond)
		n1 := pstate.Cnt.Load()
		time.Sleep(100 * time.Millisecond)
		if n2 := pstate.Cnt.Load(); n2 != n1 {
			evid.ReplayFailed(t, path, fmt.Sprintf("the operand was pulled on in the background: %d items, then %d", n1, n2))
		} else {
			evid.ReplayPassed(path)
		}
	}
}

func replayPipelines(t *testing.T) {
	for _, path := range evid.ReplayFiles("pipeline") {
		var c PipeCase
		if _, err := evid.ReadFailure(path, &c); err != nil {
			t.Fatalf("cannot read %s: %v", path, err)
		}
		if c.Text == "" {
			c.Text = lang.Render(c.Spec.Expr())
		}
		if msg, _ := checkPipe(c); msg != "" {
			evid.ReplayFailed(t, path, msg)
		} else {
			evid.ReplayPassed(path)
		}
	}
}
