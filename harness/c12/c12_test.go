// Package c12: Parse, Generate and evaluation leave no goroutine behind.
package c12

import (
	"encoding/base64"
	"fmt"
	"io"
	"log"
	"runtime"
	"strconv"
	"testing"
	"time"

	"github.com/hneemann/parser2"
	"github.com/hneemann/parser2/value"
	"pgregory.net/rapid"

	"verif/harness/astdump"
	"verif/harness/evid"
	"verif/harness/inputs"
	"verif/harness/leak"
)

const prop = "C12"

func init() { log.SetOutput(io.Discard) }

// ParseCase: inputs (base64) that are parsed repeatedly in one process.
type ParseCase struct {
	Inputs  []string `json:"inputs_base64"`
	Shown   []string `json:"inputs_quoted"`
	Repeats int      `json:"repeats"`
	Config  int      `json:"config"`
}

var vGen = func() *value.FunctionGenerator {
	g := value.New()
	g.GetParser().AllowComments()
	return g
}()

var parseConfigs = []struct {
	name string
	run  func(string) error
}{
	{"value.New().Generate", func(s string) error { _, _, err := vGen.Generate(s, "x", "y"); return err }},
	{"value.New().GenerateWithMap", func(s string) error { _, _, err := vGen.GenerateWithMap(s, "m"); return err }},
	{"generic parser", func(s string) error {
		p := parser2.NewParser[string]().SetNumberParser(parser2.NumberParserFunc[string](func(n string) (string, error) { return n, nil }))
		p.Op("+", "-", "*").Unary("-")
		_, err := p.Parse(s, astdump.AnyIdent[string]())
		return err
	}},
}

func safely(f func()) {
	defer func() { recover() }()
	f()
}

func checkParse(c ParseCase) (string, int, int) {
	cfg := parseConfigs[c.Config%len(parseConfigs)]
	// goroutines that earlier (failing) cases of this process left behind are not this case's
	baseline := leak.IDs()
	calls, rejected := 0, 0
	for r := 0; r < c.Repeats; r++ {
		for _, in := range c.Inputs {
			b, _ := base64.StdEncoding.DecodeString(in)
			safely(func() {
				if cfg.run(string(b)) != nil {
					rejected++
				}
			})
			calls++
		}
	}
	runtime.Gosched()
	if left := leak.SettleExcept(baseline, 3*time.Second, time.Second); len(left) > 0 {
		return fmt.Sprintf("%d calls of %s on %v left %d goroutine(s) behind, by entry function: %v; first stack:\n%s", calls, cfg.name, c.Shown,
			len(left), leak.Entries(left), left[0].Stack), calls, rejected
	}
	return "", calls, rejected
}

func TestPropParse(t *testing.T) {
	defer evid.R.Flush()
	rapid.Check(t, func(t *rapid.T) {
		n := rapid.IntRange(1, 6).Draw(t, "inputs")
		c := ParseCase{Repeats: rapid.IntRange(1, 20).Draw(t, "repeats"), Config: rapid.IntRange(0, len(parseConfigs)-1).Draw(t, "config")}
		stopsEarly := false
		for i := 0; i < n; i++ {
			var text string
			switch rapid.IntRange(0, 5).Draw(t, "source") {
			case 0:
				text = inputs.Soup(t, 30)
			case 1:
				// a valid program followed by unread tokens: parsing stops with tokens unread
				text = inputs.Valid(t) + " " + inputs.Soup(t, 8)
			case 2:
				text = inputs.Valid(t)
			default:
				text = inputs.Mutate(t, inputs.Valid(t))
			}
			if len(text) > 4000 {
				text = text[:4000]
			}
			c.Inputs = append(c.Inputs, base64.StdEncoding.EncodeToString([]byte(text)))
			c.Shown = append(c.Shown, strconv.Quote(text))
		}
		msg, calls, rejected := checkParse(c)
		stopsEarly = rejected > 0
		if msg != "" {
			evid.Fail(t, prop, "parse", "", c, "%s", msg)
		}
		cls := []string{"parse_all_accepted"}
		if stopsEarly {
			cls = []string{"parse_some_input_rejected"}
		}
		evid.R.Case(stopsEarly, fmt.Sprint(c.Config, c.Inputs), func() any {
			return map[string]any{"kind": "parse", "config": parseConfigs[c.Config].name, "inputs": c.Shown, "repeats": c.Repeats}
		}, cls...)
		evid.R.ClassN("parse_calls", int64(calls))
	})
}

func TestReplay(t *testing.T) {
	for _, path := range evid.ReplayFiles("parse") {
		var c ParseCase
		if _, err := evid.ReadFailure(path, &c); err != nil {
			t.Fatalf("cannot read %s: %v", path, err)
		}
		if msg, _, _ := checkParse(c); msg != "" {
			evid.ReplayFailed(t, path, msg)
		} else {
			evid.ReplayPassed(path)
		}
	}
	replayPipelines(t)
	replayErrorPath(t)
}
