package c12

import (
	"github.com/hneemann/parser2/funcGen"
	"github.com/hneemann/parser2/value"
)

func newStack() funcGen.Stack[value.Value] { return funcGen.NewEmptyStack[value.Value]() }
