package c12

import (
	"encoding/base64"
	"os"
	"path/filepath"
	"strconv"
	"testing"

	"verif/harness/evid"
)

func TestMakeExemplars(t *testing.T) {
	dir := os.Getenv("VERIF_MAKE_EXEMPLARS")
	if dir == "" {
		t.Skip("VERIF_MAKE_EXEMPLARS not set")
	}
	mk := func(texts ...string) ParseCase {
		c := ParseCase{Repeats: 100}
		for _, s := range texts {
			c.Inputs = append(c.Inputs, base64.StdEncoding.EncodeToString([]byte(s)))
			c.Shown = append(c.Shown, strconv.Quote(s))
		}
		return c
	}
	cases := map[string]ParseCase{
		"F10-trailing-tokens":    mk("1 2 3 4 5"),
		"F10-syntax-error-early": mk("(1+2", "let a=;1 2 3", "if x then 1 2 3 4"),
	}
	for name, c := range cases {
		os.Setenv("VERIF_FAILFILE", filepath.Join(dir, name+".json"))
		evid.WriteFailure(evid.Failure{Property: prop, Test: "parse", Message: "regression exemplar", Case: c})
	}
	pipes := map[string]PipeCase{
		"multiUse-rejects-a-later-entry":             {Text: "numbers(10).multiUse({a: l -> l.reduce((a, b) -> a + b), b: 3})", Repeats: 3, Consume: "force"},
		"multiUse-rejects-a-later-closure":           {Text: "numbers(1000).map(n -> n + 1).multiUse({a: l -> l.first(), b: l -> l.mapReduce(0, (s, i) -> s + i), c: (x, y) -> x * y})", Repeats: 3, Consume: "force"},
		"multiUse-consumer-fails-at-once":            {Text: "numbers(500).multiUse({n: l -> l.size(), f: l -> throw(\"x\"), s: l -> l.map(e -> e * 2).sum()})", Repeats: 3, Consume: "force"},
		"F32-multiUse-source-panics-in-iir-stage":    {Text: "numbers(5).iir(e -> e, (e, l) -> if e = 3 then boom(0) else e).multiUse({a: l -> l.size(), b: l -> l.sum()})", Repeats: 3, Consume: "force"},
		"F32-multiUse-source-panics-in-number-stage": {Text: "numbers(50).number((i, e) -> if e = 30 then boom(1) else e).multiUse({a: l -> l.first(), b: l -> l.reduce((a, b) -> a + b)})", Repeats: 3, Consume: "force"},
		"merge-with-early-stop":                      {Text: "numbers(400).merge(numbers(300).map(e -> e * 2), (a, b) -> a < b).first()", Repeats: 3, Consume: "force"},
		"lazy-result-dropped":                        {Text: "numbers(200).merge(numbers(100), (a, b) -> a < b).map(e -> e + 1)", Repeats: 2, Consume: "drop"},
	}
	for name, c := range pipes {
		os.Setenv("VERIF_FAILFILE", filepath.Join(dir, name+".json"))
		evid.WriteFailure(evid.Failure{Property: prop, Test: "pipeline", Message: "regression exemplar", Case: c})
	}
}
