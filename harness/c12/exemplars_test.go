package c12

import (
	"encoding/base64"
	"os"
	"path/filepath"
	"strconv"
	"testing"

	"verif/harness/evid"
)

func TestMakeExemplars(t *testing.T) {
	dir := os.Getenv("VERIF_MAKE_EXEMPLARS")
	if dir == "" {
		t.Skip("VERIF_MAKE_EXEMPLARS not set")
	}
	mk := func(texts ...string) ParseCase {
		c := ParseCase{Repeats: 100}
		for _, s := range texts {
			c.Inputs = append(c.Inputs, base64.StdEncoding.EncodeToString([]byte(s)))
			c.Shown = append(c.Shown, strconv.Quote(s))
		}
		return c
	}
	cases := map[string]ParseCase{
		"F10-trailing-tokens":   mk("1 2 3 4 5"),
		"F10-syntax-error-early": mk("(1+2", "let a=;1 2 3", "if x then 1 2 3 4"),
	}
	for name, c := range cases {
		os.Setenv("VERIF_FAILFILE", filepath.Join(dir, name+".json"))
		evid.WriteFailure(evid.Failure{Property: prop, Test: "parse", Message: "regression exemplar", Case: c})
	}
}
