// Package c13: all map representations behave as one abstract key-value map.
package c13

import (
	"encoding/json"
	"fmt"
	"sort"
	"strings"
	"testing"

	"github.com/hneemann/parser2/funcGen"
	"github.com/hneemann/parser2/listMap"
	"github.com/hneemann/parser2/value"
	"github.com/hneemann/parser2/value/export"
	"pgregory.net/rapid"

	"verif/harness/evid"
	"verif/harness/progs"
	"verif/harness/ref"
)

const prop = "C13"

var pool = []string{"a", "b", "c", "d", "e", "f", "g", "h"}

// Op is one step of a history. H, H2: handle indices (modulo the live handles).
type Op struct {
	Kind string   `json:"kind"`
	H    int      `json:"h,omitempty"`
	H2   int      `json:"h2,omitempty"`
	Keys []string `json:"keys,omitempty"`
	Vals []int    `json:"vals,omitempty"`
	N    int      `json:"n,omitempty"`
	Big  bool     `json:"big,omitempty"`
}

type Case struct {
	Ops []Op `json:"ops"`
}

type handle struct {
	m     value.Map
	model map[string]ref.Value
	how   string
	depth int // replace depth
	wraps int // number of different storage wrappers nested
}

var g = progs.NewImpl(true)
var fns = map[string]funcGen.Func[value.Value]{}

func fn(text string, args ...string) funcGen.Func[value.Value] {
	key := text + "|" + strings.Join(args, ",")
	if f, ok := fns[key]; ok {
		return f
	}
	f, _, err := g.Generate(text, args...)
	if err != nil {
		panic(text + ": " + err.Error())
	}
	fns[key] = f
	return f
}

type rec1 struct {
	A int
	B int
	C float64
	D string
	E bool
}

type attrHolder struct{ vals map[string]int }

func listMapOf(keys []string, vals []int) value.Map {
	lm := listMap.New[value.Value](len(keys))
	for i, k := range keys {
		lm = lm.Append(k, value.Int(vals[i]))
	}
	return value.NewMap(lm)
}

func modelOf(keys []string, vals []int) map[string]ref.Value {
	m := map[string]ref.Value{}
	for i, k := range keys {
		m[k] = ref.Int(vals[i])
	}
	return m
}

func bigKeys(n int) ([]string, []int) {
	var ks []string
	var vs []int
	for i := 0; i < n; i++ {
		ks = append(ks, fmt.Sprintf("x%02d", i))
		vs = append(vs, 100+i)
	}
	return ks, vs
}

func dedupKeys(keys []string, vals []int) ([]string, []int) {
	seen := map[string]bool{}
	var ks []string
	var vs []int
	for i, k := range keys {
		if !seen[k] {
			seen[k] = true
			ks = append(ks, k)
			vs = append(vs, vals[i])
		}
	}
	return ks, vs
}

func lenBig(op Op) int {
	if op.Big {
		return 25
	}
	return 0
}

// create builds a new map in the representation named by kind.
func create(op Op) (*handle, string) {
	keys, vals := dedupKeys(op.Keys, op.Vals)
	if op.Big {
		bk, bv := bigKeys(25)
		keys, vals = append(keys, bk...), append(vals, bv...)
	}
	h := &handle{model: modelOf(keys, vals), how: op.Kind, wraps: 1}
	switch op.Kind {
	case "literal":
		// through the language: a map literal
		var b strings.Builder
		b.WriteString("{")
		for i, k := range keys {
			if i > 0 {
				b.WriteString(",")
			}
			fmt.Fprintf(&b, "%s:%d", k, vals[i])
		}
		b.WriteString("}")
		f, _, err := g.Generate(b.String())
		if err != nil {
			return nil, "Generate(" + b.String() + "): " + err.Error()
		}
		v, err := f.Eval()
		if err != nil {
			return nil, b.String() + " fails: " + err.Error()
		}
		h.m = v.(value.Map)
	case "listMap":
		h.m = listMapOf(keys, vals)
	case "realMap":
		rm := value.RealMap{}
		for i, k := range keys {
			rm[k] = value.Int(vals[i])
		}
		h.m = value.NewMap(rm)
	case "toMap":
		tm := value.NewToMap[attrHolder]()
		// attributes are registered as drawn: a name that is registered again overrides the
		// earlier registration (the map still has that key once)
		for i, k := range op.Keys {
			v := op.Vals[i]
			tm.Attr(k, func(a attrHolder) value.Value { return value.Int(v) })
			h.model[k] = ref.Int(v)
			for j, kk := range keys {
				if kk == k {
					vals[j] = v
				}
			}
		}
		for _, k := range keys[len(keys)-lenBig(op):] {
			k := k
			tm.Attr(k, func(a attrHolder) value.Value { return value.Int(a.vals[k]) })
		}
		holder := attrHolder{vals: map[string]int{}}
		for i, k := range keys {
			holder.vals[k] = vals[i]
		}
		m, err := tm.Create(holder)
		if err != nil {
			return nil, err.Error()
		}
		h.m = m
	case "reflection":
		r := rec1{A: 1, B: 2, C: 2.5, D: "dd", E: true}
		if len(vals) > 0 {
			r.A = vals[0]
		}
		m, err := value.NewToMapReflection[rec1]().Create(r)
		if err != nil {
			return nil, err.Error()
		}
		h.m = m
		h.model = map[string]ref.Value{"A": ref.Int(r.A), "B": ref.Int(r.B), "C": ref.Float(r.C), "D": ref.Str(r.D), "E": ref.Bool(r.E)}
	case "funcMap":
		// optional attributes: keys that are declared, but which the function reports as not
		// available for this value - they are no entries of the map
		declared := append([]string{}, keys...)
		for i := 0; i < op.N; i++ {
			opt := fmt.Sprintf("opt%d", i)
			if _, clash := h.model[opt]; !clash {
				declared = append(declared[:i%(len(declared)+1)], append([]string{opt}, declared[i%(len(declared)+1):]...)...)
			}
		}
		fac := value.NewFuncMapFactory[value.Int](func(base value.Int, key string) (value.Value, bool) {
			for i, k := range keys {
				if k == key {
					return value.Int(vals[i]) + base, true
				}
			}
			return nil, false
		}, declared...)
		h.m = fac.Create(value.Int(0))
	case "funcMapShared":
		// ONE factory for all maps of this kind: which of the declared keys are available
		// depends on the value the map is created for (a bit mask)
		mask := 0
		for _, k := range op.Keys {
			for i, d := range sharedKeys {
				if d == k {
					mask |= 1 << i
				}
			}
		}
		mask |= (op.N & 3) << len(pool) // the two optional extra keys
		h.model = map[string]ref.Value{}
		for i, d := range sharedKeys {
			if mask>>i&1 == 1 {
				h.model[d] = ref.Int(mask*100 + i)
			}
		}
		h.m = sharedFactory.Create(value.Int(mask))
	case "binDescr":
		// the description map of a bin: outer bins have one bound only
		n := 2
		res, err := fn("[1,2,3].binning(0,1,n,i->i,i->1).descr[k]", "n", "k").Eval(value.Int(n), value.Int(op.N%(n+2)))
		if err != nil {
			return nil, "binning descr: " + err.Error()
		}
		h.m = res.(value.Map)
		h.model = map[string]ref.Value{}
		idx := op.N % (n + 2)
		switch idx {
		case 0:
			h.model["str"], h.model["max"] = ref.Str("<0"), ref.Float(0)
		case n + 1:
			h.model["str"], h.model["min"] = ref.Str(fmt.Sprintf(">%d", n)), ref.Float(float64(n))
		default:
			h.model["str"] = ref.Str(fmt.Sprintf("%d-%d", idx-1, idx))
			h.model["min"], h.model["max"] = ref.Float(float64(idx-1)), ref.Float(float64(idx))
		}
	default:
		return nil, "unknown create kind " + op.Kind
	}
	return h, ""
}

var creators = []string{"literal", "listMap", "realMap", "toMap", "reflection", "funcMap", "funcMapShared", "funcMapShared", "binDescr"}

var sharedKeys = append(append([]string{}, pool...), "opt0", "opt1")

var sharedFactory = value.NewFuncMapFactory[value.Int](func(mask value.Int, key string) (value.Value, bool) {
	for i, d := range sharedKeys {
		if d == key && int(mask)>>i&1 == 1 {
			return value.Int(int(mask)*100 + i), true
		}
	}
	return nil, false
}, sharedKeys...)

func copyModel(m map[string]ref.Value) map[string]ref.Value {
	c := map[string]ref.Value{}
	for k, v := range m {
		c[k] = v
	}
	return c
}

// apply performs one derivation; returns the new handle (nil if the operation is
// expected to fail and did) or a failure message.
func apply(op Op, hs []*handle) (*handle, string) {
	if len(hs) == 0 {
		return nil, ""
	}
	h := hs[op.H%len(hs)]
	h2 := hs[op.H2%len(hs)]
	describe := func() string { return fmt.Sprintf("%s on %s", op.Kind, show(h.model)) }
	switch op.Kind {
	case "put":
		k, v := op.Keys[0], op.Vals[0]
		res, err := fn("m.put(k,v)", "m", "k", "v").Eval(h.m, value.String(k), value.Int(v))
		if _, exists := h.model[k]; exists {
			if err == nil {
				return nil, fmt.Sprintf("put of the existing key %s on %s succeeds", k, show(h.model))
			}
			return nil, ""
		}
		if err != nil {
			return nil, describe() + " fails: " + err.Error()
		}
		nm := copyModel(h.model)
		nm[k] = ref.Int(v)
		return &handle{m: res.(value.Map), model: nm, how: "put", depth: h.depth, wraps: h.wraps + 1}, ""
	case "plus":
		res, err := fn("a+b", "a", "b").Eval(h.m, h2.m)
		overlap := false
		for k := range h2.model {
			if _, ok := h.model[k]; ok {
				overlap = true
			}
		}
		if overlap {
			if err == nil {
				return nil, fmt.Sprintf("merge (+) of the overlapping maps %s and %s succeeds", show(h.model), show(h2.model))
			}
			return nil, ""
		}
		if err != nil {
			return nil, fmt.Sprintf("%s + %s fails: %v", show(h.model), show(h2.model), err)
		}
		nm := copyModel(h.model)
		for k, v := range h2.model {
			nm[k] = v
		}
		return &handle{m: res.(value.Map), model: nm, how: "plus", depth: max(h.depth, h2.depth), wraps: h.wraps + h2.wraps}, ""
	case "plusFresh":
		// merge with a small map whose key is new: always disjoint, so that chains of merges
		// and several merges with the same left operand are frequent
		k, v := fmt.Sprintf("z%d", op.N), op.Vals[0]
		res, err := fn("a+b", "a", "b").Eval(h.m, listMapOf([]string{k}, []int{v}))
		if _, exists := h.model[k]; exists {
			if err == nil {
				return nil, fmt.Sprintf("merge (+) of %s with a map holding the existing key %s succeeds", show(h.model), k)
			}
			return nil, ""
		}
		if err != nil {
			return nil, fmt.Sprintf("%s + {%s:%d} fails: %v", show(h.model), k, v, err)
		}
		nm := copyModel(h.model)
		nm[k] = ref.Int(v)
		return &handle{m: res.(value.Map), model: nm, how: "plusFresh", depth: h.depth, wraps: h.wraps + 1}, ""
	case "replace":
		// the replacement map is another handle: its keys lie inside and outside of the original key set
		res, err := fn("m.replace(x->r)", "m", "r").Eval(h.m, h2.m)
		if err != nil {
			return nil, fmt.Sprintf("%s.replace(x->%s) fails: %v", show(h.model), show(h2.model), err)
		}
		nm := copyModel(h.model)
		for k := range nm {
			if v, ok := h2.model[k]; ok {
				nm[k] = v
			}
		}
		return &handle{m: res.(value.Map), model: nm, how: "replace", depth: max(h.depth, h2.depth) + 1, wraps: h.wraps + 1}, ""
	case "replaceChain":
		cur := h.m
		nm := copyModel(h.model)
		for i := 0; i < op.N; i++ {
			k := op.Keys[i%len(op.Keys)]
			rep := listMapOf([]string{k}, []int{1000 + i})
			res, err := fn("m.replace(x->r)", "m", "r").Eval(cur, rep)
			if err != nil {
				return nil, fmt.Sprintf("replace chain step %d on %s fails: %v", i, show(nm), err)
			}
			cur = res.(value.Map)
			if _, ok := nm[k]; ok {
				nm[k] = ref.Int(1000 + i)
			}
		}
		return &handle{m: cur, model: nm, how: "replaceChain", depth: h.depth + op.N, wraps: h.wraps + 1}, ""
	case "eval":
		res, err := fn("m.eval()", "m").Eval(h.m)
		if err != nil {
			return nil, describe() + " fails: " + err.Error()
		}
		return &handle{m: res.(value.Map), model: copyModel(h.model), how: "eval", wraps: 1}, ""
	case "map":
		res, err := fn("m.map((k,v)->v)", "m").Eval(h.m)
		if err != nil {
			return nil, describe() + " fails: " + err.Error()
		}
		return &handle{m: res.(value.Map), model: copyModel(h.model), how: "map", wraps: 1}, ""
	case "accept":
		drop := op.Keys[0]
		res, err := fn("m.accept((k,v)->k!=d)", "m", "d").Eval(h.m, value.String(drop))
		if err != nil {
			return nil, describe() + " fails: " + err.Error()
		}
		nm := copyModel(h.model)
		delete(nm, drop)
		return &handle{m: res.(value.Map), model: nm, how: "accept", wraps: 1}, ""
	case "combine":
		for k := range h.model {
			if _, ok := h2.model[k]; !ok {
				return nil, "" // the second map must hold every key of the first (undocumented otherwise)
			}
		}
		res, err := fn("a.combine(b,(x,y)->[x,y].string())", "a", "b").Eval(h.m, h2.m)
		if err != nil {
			return nil, fmt.Sprintf("%s.combine(%s) fails: %v", show(h.model), show(h2.model), err)
		}
		nm := map[string]ref.Value{}
		for k, v := range h.model {
			s1, _ := ref.ToString(v)
			s2, _ := ref.ToString(h2.model[k])
			nm[k] = ref.Str("[" + s1 + ", " + s2 + "]")
		}
		return &handle{m: res.(value.Map), model: nm, how: "combine", wraps: 1}, ""
	}
	return nil, "unknown op " + op.Kind
}

func show(m map[string]ref.Value) string {
	keys := make([]string, 0, len(m))
	for k := range m {
		keys = append(keys, k)
	}
	sort.Strings(keys)
	var b strings.Builder
	b.WriteString("{")
	for i, k := range keys {
		if i > 8 {
			fmt.Fprintf(&b, ", ... %d keys", len(keys))
			break
		}
		if i > 0 {
			b.WriteString(", ")
		}
		b.WriteString(k + ":" + ref.Show(m[k]))
	}
	b.WriteString("}")
	return b.String()
}

// observe checks every observer of the handle against its model.
func observe(h *handle) string {
	where := fmt.Sprintf("map built by %s, model %s: ", h.how, show(h.model))
	probe := append([]string{}, pool...)
	for k := range h.model {
		found := false
		for _, p := range probe {
			if p == k {
				found = true
			}
		}
		if !found && len(probe) < 14 {
			probe = append(probe, k)
		}
	}
	probe = append(probe, "zz")
	for _, k := range probe {
		want, has := h.model[k]
		ks := value.String(k)
		// member access m.k
		got := progs.Observe(fn("m."+k, "m").Eval(h.m))
		if has != (got.Err == nil) || (has && !ref.Same(want, got.Val, 0)) {
			return where + fmt.Sprintf("m.%s gives %v", k, got)
		}
		got = progs.Observe(fn("m.get(k)", "m", "k").Eval(h.m, ks))
		if has != (got.Err == nil) || (has && !ref.Same(want, got.Val, 0)) {
			return where + fmt.Sprintf("get(%q) gives %v", k, got)
		}
		got = progs.Observe(fn("m.isAvail(k)", "m", "k").Eval(h.m, ks))
		if got.Err != nil || !ref.Same(ref.Bool(has), got.Val, 0) {
			return where + fmt.Sprintf("isAvail(%q) gives %v", k, got)
		}
		got = progs.Observe(fn("k ~ m", "m", "k").Eval(h.m, ks))
		if got.Err != nil || !ref.Same(ref.Bool(has), got.Val, 0) {
			return where + fmt.Sprintf("%q ~ m gives %v", k, got)
		}
	}
	// isAvail with several keys (all of them must be present), also more keys than the map
	// has entries and the same key several times
	for i := 0; i+2 < len(probe); i += 3 {
		ks := []string{probe[i], probe[i+1], probe[i], probe[i+2], probe[i]}
		for n := 2; n <= len(ks); n++ {
			all := true
			args := []value.Value{h.m}
			names := []string{"m"}
			call := "m.isAvail("
			for j, k := range ks[:n] {
				_, has := h.model[k]
				all = all && has
				args = append(args, value.String(k))
				names = append(names, fmt.Sprintf("k%d", j))
				if j > 0 {
					call += ","
				}
				call += fmt.Sprintf("k%d", j)
			}
			call += ")"
			got := progs.Observe(fn(call, names...).Eval(args...))
			if got.Err != nil || !ref.Same(ref.Bool(all), got.Val, 0) {
				return where + fmt.Sprintf("isAvail(%q) gives %v, the single key observers give %v", ks[:n], got, all)
			}
		}
	}
	got := progs.Observe(fn("m.size()", "m").Eval(h.m))
	if got.Err != nil || !ref.Same(ref.Int(len(h.model)), got.Val, 0) {
		return where + fmt.Sprintf("size() gives %v", got)
	}
	// list(): a list of {key, value} maps
	got = progs.Observe(fn("m.list()", "m").Eval(h.m))
	if got.Err != nil {
		return where + "list() fails: " + got.Err.Error()
	}
	if msg := sameEntries(h.model, got.Val, "list()"); msg != "" {
		return where + msg
	}
	// iteration based methods
	for _, prog := range []string{"m.map((k,v)->v)", "m.accept((k,v)->true)", "m.eval()"} {
		got = progs.Observe(fn(prog, "m").Eval(h.m))
		if got.Err != nil {
			return where + prog + " fails: " + got.Err.Error()
		}
		gm, ok := got.Val.(*ref.Map)
		if !ok || !sameMap(h.model, gm) {
			return where + fmt.Sprintf("%s gives %v", prog, got)
		}
	}
	// string(): "{k:v, k:v}"
	got = progs.Observe(fn("m.string()", "m").Eval(h.m))
	if got.Err != nil {
		return where + "string() fails: " + got.Err.Error()
	}
	if msg := parseString(h.model, string(got.Val.(ref.Str))); msg != "" {
		return where + msg
	}
	// equality against a freshly built literal of the model, both operand orders, and
	// against an equal hash map
	var keys []string
	for k := range h.model {
		keys = append(keys, k)
	}
	sort.Strings(keys)
	lm := listMap.New[value.Value](len(keys))
	rm := value.RealMap{}
	for i := len(keys) - 1; i >= 0; i-- {
		lm = lm.Append(keys[i], toImpl(h.model[keys[i]]))
		rm[keys[i]] = toImpl(h.model[keys[i]])
	}
	for name, other := range map[string]value.Map{"a list map literal of the model": value.NewMap(lm), "a hash map of the model": value.NewMap(rm)} {
		for _, prog := range []string{"a = b", "b = a"} {
			got = progs.Observe(fn(prog, "a", "b").Eval(h.m, other))
			if got.Err != nil || !ref.Same(ref.Bool(true), got.Val, 0) {
				return where + fmt.Sprintf("'%s' with b = %s gives %v", prog, name, got)
			}
		}
		if len(keys) > 0 {
			// one value changed / one key more: must be unequal in both orders
			diff := value.RealMap{}
			for k, v := range rm {
				diff[k] = v
			}
			diff[keys[0]] = value.String("changed")
			more := value.RealMap{}
			for k, v := range rm {
				more[k] = v
			}
			more["zz9"] = value.Int(1)
			for dn, d := range map[string]value.Map{"one value changed": value.NewMap(diff), "one key more": value.NewMap(more)} {
				for _, prog := range []string{"a = b", "b = a"} {
					got = progs.Observe(fn(prog, "a", "b").Eval(h.m, d))
					if got.Err == nil && ref.Same(ref.Bool(true), got.Val, 0) {
						return where + fmt.Sprintf("'%s' with b = the model with %s gives true", prog, dn)
					}
				}
			}
		}
	}
	// JSON export
	ex := export.JSON()
	if err := export.Export(funcGen.NewEmptyStack[value.Value](), h.m, ex); err != nil {
		return where + "JSON export fails: " + err.Error()
	}
	var decoded map[string]any
	if err := json.Unmarshal(ex.Result(), &decoded); err != nil {
		return where + fmt.Sprintf("JSON export %s is not valid: %v", ex.Result(), err)
	}
	if len(decoded) != len(h.model) {
		return where + fmt.Sprintf("JSON export %s has %d keys", ex.Result(), len(decoded))
	}
	for k, v := range h.model {
		s, _ := ref.ToString(v)
		if decoded[k] != s {
			return where + fmt.Sprintf("JSON export %s: key %s is %v, want %q", ex.Result(), k, decoded[k], s)
		}
	}
	return ""
}

func toImpl(v ref.Value) value.Value {
	switch x := v.(type) {
	case ref.Int:
		return value.Int(x)
	case ref.Float:
		return value.Float(x)
	case ref.Str:
		return value.String(x)
	case ref.Bool:
		return value.Bool(x)
	}
	panic("toImpl")
}

func sameMap(model map[string]ref.Value, got *ref.Map) bool {
	if len(got.Keys) != len(model) {
		return false
	}
	seen := map[string]bool{}
	for i, k := range got.Keys {
		if seen[k] {
			return false
		}
		seen[k] = true
		w, ok := model[k]
		if !ok || !ref.Same(w, got.Vals[i], 0) {
			return false
		}
	}
	return true
}

func sameEntries(model map[string]ref.Value, got ref.Value, what string) string {
	l, ok := got.(*ref.List)
	if !ok || l.Err != nil {
		return fmt.Sprintf("%s gives %s", what, ref.Show(got))
	}
	m := &ref.Map{}
	for _, it := range l.Items {
		e, ok := it.(*ref.Map)
		if !ok {
			return fmt.Sprintf("%s gives %s", what, ref.Show(got))
		}
		k, _ := e.Get("key")
		v, _ := e.Get("value")
		ks, ok := k.(ref.Str)
		if !ok {
			return fmt.Sprintf("%s gives %s", what, ref.Show(got))
		}
		m.Keys = append(m.Keys, string(ks))
		m.Vals = append(m.Vals, v)
	}
	if !sameMap(model, m) {
		return fmt.Sprintf("%s gives %s", what, ref.Show(got))
	}
	return ""
}

func parseString(model map[string]ref.Value, s string) string {
	if !strings.HasPrefix(s, "{") || !strings.HasSuffix(s, "}") {
		return "string() gives " + s
	}
	body := s[1 : len(s)-1]
	n := 0
	seen := map[string]bool{}
	if body != "" {
		for _, part := range strings.Split(body, ", ") {
			i := strings.Index(part, ":")
			if i < 0 {
				// a value containing ", " (combine results): glue is not needed for ints
				return ""
			}
			k, v := part[:i], part[i+1:]
			if strings.HasPrefix(v, "[") {
				return "" // list-valued entries are not re-parsed
			}
			w, ok := model[k]
			if !ok {
				return fmt.Sprintf("string() = %s shows the key %s which is not in the map", s, k)
			}
			ws, _ := ref.ToString(w)
			if ws != v {
				return fmt.Sprintf("string() = %s shows %s:%s, want %s", s, k, v, ws)
			}
			if seen[k] {
				return fmt.Sprintf("string() = %s shows the key %s twice", s, k)
			}
			seen[k] = true
			n++
		}
	}
	if n != len(model) {
		return fmt.Sprintf("string() = %s shows %d entries, the map has %d", s, n, len(model))
	}
	return ""
}

type info struct {
	nontrivial bool
	classes    []string
}

func check(c Case) (string, info) {
	var inf info
	var hs []*handle
	cls := map[string]bool{}
	for i, op := range c.Ops {
		var nh *handle
		var msg string
		isCreate := false
		for _, k := range creators {
			if op.Kind == k {
				isCreate = true
			}
		}
		if isCreate {
			nh, msg = create(op)
		} else {
			nh, msg = apply(op, hs)
		}
		if msg != "" {
			return fmt.Sprintf("step %d (%s): %s", i, op.Kind, msg), inf
		}
		if nh != nil {
			hs = append(hs, nh)
			if len(hs) > 6 {
				hs = hs[1:]
			}
			cls["op_"+op.Kind] = true
			if nh.depth >= 10 {
				cls["replace_depth_10plus"] = true
				inf.nontrivial = true
			}
			if nh.wraps >= 2 {
				cls["nested_storage_wrappers"] = true
				inf.nontrivial = true
			}
			if len(nh.model) > 20 {
				cls["more_than_20_keys"] = true
			}
		}
		for _, h := range hs {
			if m := observe(h); m != "" {
				return fmt.Sprintf("after step %d (%s): %s", i, op.Kind, m), inf
			}
		}
	}
	for k := range cls {
		inf.classes = append(inf.classes, k)
	}
	sort.Strings(inf.classes)
	return "", inf
}

func genKeys(t *rapid.T, n int) ([]string, []int) {
	var ks []string
	var vs []int
	for i := 0; i < n; i++ {
		ks = append(ks, pool[rapid.IntRange(0, len(pool)-1).Draw(t, "key")])
		vs = append(vs, rapid.IntRange(-3, 9).Draw(t, "val"))
	}
	return ks, vs
}

func TestPropC13(t *testing.T) {
	defer evid.R.Flush()
	maxOps := 15
	rapid.Check(t, func(t *rapid.T) {
		n := rapid.IntRange(2, maxOps).Draw(t, "ops")
		var c Case
		for i := 0; i < n; i++ {
			var op Op
			k := rapid.IntRange(0, 19).Draw(t, "opKind")
			if i == 0 || k < 6 {
				op.Kind = creators[rapid.IntRange(0, len(creators)-1).Draw(t, "creator")]
				op.Keys, op.Vals = genKeys(t, rapid.IntRange(0, 5).Draw(t, "nkeys"))
				op.N = rapid.IntRange(0, 3).Draw(t, "n")
				op.Big = rapid.IntRange(0, 7).Draw(t, "big") == 0 && op.Kind != "reflection" && op.Kind != "binDescr"
			} else {
				op.Kind = []string{"put", "plusFresh", "plus", "plus", "replace", "replace", "plusFresh", "replaceChain", "replaceChain", "eval", "map", "accept", "combine", "put"}[k-6]
				op.H = rapid.IntRange(0, 5).Draw(t, "h")
				if i > 0 && rapid.IntRange(0, 2).Draw(t, "branch") == 0 {
					op.H = c.Ops[i-1].H // derive again from the operand of the previous step
				}
				op.H2 = rapid.IntRange(0, 5).Draw(t, "h2")
				op.Keys, op.Vals = genKeys(t, rapid.IntRange(1, 3).Draw(t, "nkeys"))
				op.N = rapid.IntRange(1, 13).Draw(t, "chain")
				if op.Kind == "plusFresh" {
					op.N = i
				}
			}
			c.Ops = append(c.Ops, op)
		}
		msg, inf := check(c)
		if msg != "" {
			evid.Fail(t, prop, "c13", "", c, "%s", msg)
		}
		var kinds []string
		for _, o := range c.Ops {
			kinds = append(kinds, o.Kind)
		}
		evid.R.Case(inf.nontrivial, fmt.Sprint(c.Ops), func() any { return map[string]any{"ops": kinds, "first": c.Ops[0]} }, inf.classes...)
	})
}

func TestReplay(t *testing.T) {
	for _, path := range evid.ReplayFiles("c13") {
		var c Case
		if _, err := evid.ReadFailure(path, &c); err != nil {
			t.Fatalf("cannot read %s: %v", path, err)
		}
		if msg, _ := check(c); msg != "" {
			evid.ReplayFailed(t, path, msg)
		}
	}
}
