package c13

import (
	"os"
	"path/filepath"
	"testing"

	"verif/harness/evid"
)

func TestMakeExemplars(t *testing.T) {
	dir := os.Getenv("VERIF_MAKE_EXEMPLARS")
	if dir == "" {
		t.Skip("VERIF_MAKE_EXEMPLARS not set")
	}
	cases := map[string]Case{
		"F13-replace-with-outside-key": {Ops: []Op{{Kind: "literal", Keys: []string{"a"}, Vals: []int{1}}, {Kind: "listMap", Keys: []string{"b"}, Vals: []int{0}},
			{Kind: "replace", H: 0, H2: 1}}},
		"F13-outside-key-through-deep-chain": {Ops: []Op{{Kind: "literal", Keys: []string{"a", "c"}, Vals: []int{1, 2}},
			{Kind: "replaceChain", H: 0, Keys: []string{"b", "a"}, N: 12}}},
		"F31-function-map-with-optional-keys": {Ops: []Op{{Kind: "funcMap", Keys: []string{"a", "b"}, Vals: []int{1, 2}, N: 2},
			{Kind: "put", H: 0, Keys: []string{"c"}, Vals: []int{3}}, {Kind: "plusFresh", H: 0, Vals: []int{4}, N: 2}}},
		"toMap-attribute-registered-again": {Ops: []Op{{Kind: "toMap", Keys: []string{"id", "name", "id"}, Vals: []int{1, 2, 1007}}, {Kind: "put", H: 0, Keys: []string{"x"}, Vals: []int{5}}}},
		"F14-bin-description-size":         {Ops: []Op{{Kind: "binDescr", N: 0}, {Kind: "binDescr", N: 3}, {Kind: "binDescr", N: 1}}},
		"put-existing-key-and-overlapping-merge": {Ops: []Op{{Kind: "realMap", Keys: []string{"a", "b"}, Vals: []int{1, 2}},
			{Kind: "put", H: 0, Keys: []string{"a"}, Vals: []int{5}}, {Kind: "toMap", Keys: []string{"b", "c"}, Vals: []int{3, 4}}, {Kind: "plus", H: 0, H2: 1}}},
	}
	for name, c := range cases {
		os.Setenv("VERIF_FAILFILE", filepath.Join(dir, name+".json"))
		evid.WriteFailure(evid.Failure{Property: prop, Test: "c13", Message: "regression exemplar", Case: c})
	}
}
