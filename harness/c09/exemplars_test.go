package c09

import (
	"os"
	"path/filepath"
	"testing"

	"verif/harness/evid"
	. "verif/harness/lang"
)

func TestMakeExemplars(t *testing.T) {
	dir := os.Getenv("VERIF_MAKE_EXEMPLARS")
	if dir == "" {
		t.Skip("VERIF_MAKE_EXEMPLARS not set")
	}
	l5 := List(Int(1), Int(2), Int(3), Int(4), Int(5))
	cases := map[string]Case{
		"F9-combineN-windows-alias-one-buffer": {Init: []*Expr{l5}, Steps: []Step{{Op: "combineNeval", A: 0, N: 1}, {Op: "size", A: 1}}, Opt: true},
		"F9-combineN-window-order":             {Init: []*Expr{l5}, Steps: []Step{{Op: "combineN", A: 0, N: 2}, {Op: "first", A: 1}}, AsProgram: true, Opt: true},
		"branching-appends-from-spare-capacity": {Init: []*Expr{MCall(List(Int(1), Int(2)), "append", Int(3))},
			Steps: []Step{{Op: "append", A: 0, V: 4}, {Op: "append", A: 0, V: 5}, {Op: "append", A: 1, V: 6}, {Op: "append", A: 0, V: 7}}, Opt: true},
		"branching-appends-constant-folded-parent": {Init: []*Expr{MCall(List(Int(1), Int(2)), "append", Int(3))},
			Steps: []Step{{Op: "append", A: 0, V: 4}, {Op: "append", A: 0, V: 5}, {Op: "set", A: 0, N: 0, V: 9}, {Op: "reverse", A: 0}}, AsProgram: true, Opt: true},
	}
	for name, c := range cases {
		os.Setenv("VERIF_FAILFILE", filepath.Join(dir, name+".json"))
		evid.WriteFailure(evid.Failure{Property: prop, Test: "c09", Message: "regression exemplar", Case: c})
	}
}
