// Package c09: lists and maps are persistent values - no operation changes an existing
// value.
package c09

import (
	"fmt"
	"testing"

	"github.com/hneemann/parser2/funcGen"
	"github.com/hneemann/parser2/value"
	"pgregory.net/rapid"

	"verif/harness/evid"
	. "verif/harness/lang"
	"verif/harness/obs"
	"verif/harness/progs"
	"verif/harness/ref"
)

const prop = "C09"

// Step derives a new handle from existing ones (A, B: handle indices) or consumes one.
type Step struct {
	Op string `json:"op"`
	A  int    `json:"a"`
	B  int    `json:"b,omitempty"`
	N  int    `json:"n,omitempty"`
	V  int    `json:"v,omitempty"`
}

type Case struct {
	// Init: initial handles as literal expressions (lists and maps).
	Init  []*Expr `json:"init"`
	Steps []Step  `json:"steps"`
	// AsProgram: render the whole history as one program of lets (covers constant
	// folded parents and compile-time appends) instead of stepping with real values.
	AsProgram bool `json:"as_program"`
	Opt       bool `json:"optimizer"`
}

var a, b = Var("a"), Var("b")

func lam1(body *Expr) *Expr { return Lam([]string{"e"}, body) }

// opExpr returns the expression of an operation over the variables a, b (handles) and
// the kind of handle it needs: "list", "ilist" (flat list of ints), "map".
func opExpr(s Step) (e *Expr, needA, needB string, derives bool) {
	n, v := Int(s.N), Int(s.V)
	switch s.Op {
	case "append":
		return MCall(a, "append", v), "list", "", true
	case "appendList":
		return MCall(a, "append", b), "list", "any", true
	case "set":
		return MCall(a, "set", n, v), "list", "", true
	case "reverse":
		return MCall(a, "reverse"), "list", "", true
	case "order":
		return MCall(a, "order", lam1(Var("e"))), "ilist", "", true
	case "plus":
		return Bin("+", a, b), "list", "list", true
	case "top":
		return MCall(a, "top", n), "list", "", true
	case "skip":
		return MCall(a, "skip", n), "list", "", true
	case "map":
		return MCall(a, "map", lam1(Bin("+", Var("e"), Int(1)))), "ilist", "", true
	case "accept":
		return MCall(a, "accept", lam1(Bin("=", Bin("%", Var("e"), Int(2)), Int(0)))), "ilist", "", true
	case "eval":
		return MCall(a, "eval"), "list", "", true
	case "combineN":
		return MCall(a, "combineN", Int(1+s.N%3), Lam([]string{"l"}, Var("l"))), "list", "", true
	case "combineNeval":
		return MCall(MCall(a, "combineN", Int(1+s.N%3), Lam([]string{"l"}, Var("l"))), "eval"), "list", "", true
	case "iirAppend":
		return MCall(a, "iir", lam1(List(Var("e"))), Lam([]string{"e", "l"}, MCall(Var("l"), "append", Var("e")))), "list", "", true
	case "number":
		return MCall(a, "number", Lam([]string{"i", "e"}, List(Var("i"), Var("e")))), "list", "", true
	case "first":
		return MCall(a, "first"), "list", "", false
	case "size":
		return MCall(a, "size"), "list", "", false
	case "sum":
		return MCall(a, "sum"), "ilist", "", false
	// observers of one or two handles (nothing is derived): an operation never changes its operands
	case "containsAll":
		return Bin("~", a, b), "list", "list", false
	case "containsItem":
		return Bin("~", v, a), "list", "", false
	case "equalTo":
		return Bin("=", a, b), "any", "any", false
	case "string":
		return MCall(a, "string"), "any", "", false
	case "last":
		return MCall(a, "last"), "list", "", false
	case "minMax":
		return MCall(a, "minMax", lam1(Var("e"))), "ilist", "", false
	case "max":
		return MCall(a, "max"), "ilist", "", false
	case "mean":
		return MCall(a, "mean"), "ilist", "", false
	case "reduce":
		return MCall(a, "reduce", Lam([]string{"x", "y"}, Bin("+", Var("x"), Var("y")))), "ilist", "", false
	case "mapReduce":
		return MCall(a, "mapReduce", v, Lam([]string{"x", "y"}, Bin("-", Var("x"), Var("y")))), "ilist", "", false
	case "indexWhere":
		return MCall(a, "indexWhere", lam1(Bin(">", Var("e"), v))), "ilist", "", false
	case "present":
		return MCall(a, "present", lam1(Bin("=", Var("e"), v))), "ilist", "", false
	case "visit":
		return MCall(a, "visit", List(), Lam([]string{"l", "e"}, MCall(Var("l"), "append", Var("e")))), "list", "", false
	// more derivations
	case "orderRev":
		return MCall(a, "orderRev", lam1(Var("e"))), "ilist", "", true
	case "orderLess":
		return MCall(a, "orderLess", Lam([]string{"x", "y"}, Bin("<", Var("x"), Var("y")))), "ilist", "", true
	case "combine":
		return MCall(a, "combine", Lam([]string{"x", "y"}, List(Var("x"), Var("y")))), "list", "", true
	case "combine3":
		return MCall(a, "combine3", Lam([]string{"x", "y", "z"}, List(Var("x"), Var("y"), Var("z")))), "list", "", true
	case "compact":
		return MCall(a, "compact", Lam([]string{"x", "y"}, Bin("=", Var("x"), Var("y")))), "ilist", "", true
	case "cross":
		return MCall(a, "cross", b, Lam([]string{"x", "y"}, List(Var("x"), Var("y")))), "list", "list", true
	case "merge":
		return MCall(a, "merge", b, Lam([]string{"x", "y"}, Bin("<", Var("x"), Var("y")))), "ilist", "ilist", true
	case "iir":
		return MCall(a, "iir", lam1(Var("e")), Lam([]string{"e", "l"}, Bin("+", Var("e"), Var("l")))), "ilist", "", true
	case "uniqueInt":
		return MCall(a, "uniqueInt", lam1(Var("e"))), "ilist", "", true
	case "groupByInt":
		return MCall(a, "groupByInt", lam1(Bin("%", Var("e"), Int(2)))), "ilist", "", true
	case "replaceList":
		return MCall(a, "replaceList", Lam([]string{"l"}, MCall(Var("l"), "append", v))), "list", "", true
	case "mapCombine":
		return MCall(a, "combine", a, Lam([]string{"x", "y"}, List(Var("x"), Var("y")))), "map", "", true
	case "mapAccept":
		return MCall(a, "accept", Lam([]string{"k", "x"}, Bin("!=", Var("k"), Str(fmt.Sprintf("k%d", s.N%4))))), "map", "", true
	case "mapGet":
		return MCall(a, "get", Str(fmt.Sprintf("k%d", s.N%4))), "map", "", false
	case "put":
		return MCall(a, "put", Str(fmt.Sprintf("k%d", s.N%4)), v), "map", "", true
	case "replace":
		return MCall(a, "replace", Lam([]string{"m"}, b)), "map", "map", true
	case "mapPlus":
		return Bin("+", a, b), "map", "map", true
	// sub-lists handed out by a built-in are lists of their own: appending to one of them
	// changes neither the parent nor a sibling
	case "movingWindowAppend":
		return MCall(MCall(a, "movingWindow", lam1(Bin("*", Var("e"), Float(0.75)))), "map", Lam([]string{"w"}, MCall(Var("w"), "append", v))), "ilist", "", true
	case "movingWindowRemoveAppend":
		return MCall(MCall(a, "movingWindowRemove", Lam([]string{"w"}, Bin(">", MCall(Var("w"), "size"), Int(2)))), "map", Lam([]string{"w"}, MCall(Var("w"), "append", v))), "ilist", "", true
	case "combineNAppend":
		return MCall(a, "combineN", Int(2+s.N%2), Lam([]string{"w"}, MCall(Var("w"), "append", v))), "list", "", true
	case "groupValuesAppend":
		return MCall(MCall(a, "groupByInt", lam1(Bin("%", Var("e"), Int(2)))), "map", Lam([]string{"g"}, MCall(Member(Var("g"), "values"), "append", v))), "ilist", "", true
	case "mapPlusFresh":
		// merge with a one-entry literal whose key is (almost always) new
		return Bin("+", a, Map([]string{fmt.Sprintf("q%d_%d", s.N, s.V+3)}, []*Expr{v})), "map", "", true
	case "mapEval":
		return MCall(a, "eval"), "map", "", true
	case "mapList":
		return MCall(a, "list"), "map", "", true
	case "mapMap":
		return MCall(a, "map", Lam([]string{"k", "x"}, List(Var("x")))), "map", "", true
	}
	panic("unknown op " + s.Op)
}

var listOps = []string{"append", "append", "append", "appendList", "set", "reverse", "order", "plus", "top", "skip", "map", "accept", "eval", "combineN",
	"combineNeval", "iirAppend", "number", "first", "size", "sum", "put", "replace", "mapPlus", "mapEval", "mapList", "mapMap",
	"containsAll", "containsAll", "containsItem", "equalTo", "string", "last", "minMax", "max", "mean", "reduce", "mapReduce", "indexWhere", "present", "visit",
	"orderRev", "orderLess", "combine", "combine3", "compact", "cross", "merge", "iir", "uniqueInt", "groupByInt", "replaceList", "mapCombine", "mapAccept", "mapGet", "mapPlusFresh", "mapPlusFresh", "mapPlusFresh",
	"movingWindowAppend", "movingWindowAppend", "movingWindowRemoveAppend", "combineNAppend", "groupValuesAppend"}

func kindOf(v ref.Value) string {
	switch x := v.(type) {
	case *ref.List:
		for _, it := range x.Items {
			if _, ok := it.(ref.Int); !ok {
				return "list"
			}
		}
		return "ilist"
	case *ref.Map:
		return "map"
	}
	return "other"
}

func fits(have, need string) bool {
	switch need {
	case "", "any":
		return true
	case "list":
		return have == "list" || have == "ilist"
	}
	return have == need
}

type gens struct {
	g   *value.FunctionGenerator
	fns map[string]funcGen.Func[value.Value]
}

var impls = map[bool]*gens{true: {g: progs.NewImpl(true), fns: map[string]funcGen.Func[value.Value]{}},
	false: {g: progs.NewImpl(false), fns: map[string]funcGen.Func[value.Value]{}}}

func (g *gens) fn(text string) (funcGen.Func[value.Value], error) {
	if f, ok := g.fns[text]; ok {
		return f, nil
	}
	f, _, err := g.g.Generate(text, "a", "b")
	if err != nil {
		return nil, err
	}
	g.fns[text] = f
	return f, nil
}

type info struct {
	nontrivial bool
	classes    map[string]bool
	steps      int
}

func refEval(e *Expr, env *ref.Env) (ref.Value, error, bool) {
	in := progs.NewRef()
	v, err := in.Eval(e, env)
	if err == ref.ErrBudget || in.BudgetHit || in.Unspecified || in.SortTies {
		return nil, nil, true
	}
	return v, err, false
}

// observeAll compares every live handle with its model.
func observeAll(g *gens, hs []value.Value, ms []ref.Value, when string, turn int) string {
	for i, h := range hs {
		if l, ok := ms[i].(*ref.List); ok && l.Err != nil {
			continue
		}
		// size(), string() and '=' against a freshly built literal of the model; which of
		// them sees a handle first (before anything has iterated it) rotates, and the
		// observers in front of the full read run again behind it
		observers := []string{"a.size()", "a.string()", "a = b", "b = a"}
		r := (turn + i) % len(observers)
		observers = append(append([]string{}, observers[r:]...), observers[:r]...)
		observers = append(observers, "", observers[0], observers[1], observers[2], observers[3])
		for _, ob := range observers {
			if ob == "" {
				got := progs.Observe(h, nil)
				want := progs.Outcome{Val: ms[i]}
				if m := progs.Compare(want, got, 0); m != "" {
					return fmt.Sprintf("%s: handle %d changed: %s", when, i, m)
				}
				continue
			}
			f, err := g.fn(ob)
			if err != nil {
				return "harness: " + err.Error()
			}
			lit := obs.ToImpl(ms[i])
			res := progs.Observe(f.Eval(h, lit))
			var w ref.Value
			switch ob {
			case "a.size()":
				switch x := ms[i].(type) {
				case *ref.List:
					w = ref.Int(len(x.Items))
				case *ref.Map:
					w = ref.Int(len(x.Keys))
				}
			case "a.string()":
				if mm, ok := ms[i].(*ref.Map); ok && mm.Unordered {
					continue
				}
				s, err := ref.ToString(ms[i])
				if err != nil || hasUnorderedMap(ms[i]) {
					continue
				}
				w = ref.Str(s)
			default:
				if hasClosure(ms[i]) {
					continue
				}
				w = ref.Bool(true)
			}
			if res.Err != nil || !ref.Same(w, res.Val, 0) {
				return fmt.Sprintf("%s: handle %d (model %s): %s gives %v, want %s", when, i, ref.Show(ms[i]), ob, res, ref.Show(w))
			}
		}
	}
	return ""
}

func hasUnorderedMap(v ref.Value) bool {
	switch x := v.(type) {
	case *ref.Map:
		if x.Unordered && len(x.Keys) > 1 {
			return true
		}
		for _, it := range x.Vals {
			if hasUnorderedMap(it) {
				return true
			}
		}
	case *ref.List:
		if x.Unordered && len(x.Items) > 1 {
			return true
		}
		for _, it := range x.Items {
			if hasUnorderedMap(it) {
				return true
			}
		}
	}
	return false
}

func hasClosure(v ref.Value) bool {
	switch x := v.(type) {
	case *ref.Closure:
		return true
	case *ref.Map:
		for _, it := range x.Vals {
			if hasClosure(it) {
				return true
			}
		}
	case *ref.List:
		for _, it := range x.Items {
			if hasClosure(it) {
				return true
			}
		}
	}
	return false
}

func check(c Case) (string, info) {
	inf := info{classes: map[string]bool{}}
	if c.AsProgram {
		return checkProgram(c, &inf), inf
	}
	g := impls[c.Opt]
	var hs []value.Value
	var ms []ref.Value
	children := map[int]int{}
	for _, e := range c.Init {
		v, err, _ := refEval(e, ref.Globals())
		if err != nil {
			return "harness: initial value does not evaluate: " + err.Error(), inf
		}
		// the initial handles come from the implementation itself (literals, lazily
		// produced lists, lists with spare capacity), not from the host
		f, _, gerr := g.g.Generate(Render(e))
		if gerr != nil {
			return "Generate rejected " + Render(e) + ": " + gerr.Error(), inf
		}
		iv, ierr := f.Eval()
		if ierr != nil {
			return Render(e) + " fails: " + ierr.Error(), inf
		}
		hs = append(hs, iv)
		ms = append(ms, v)
	}
	for sn, s := range c.Steps {
		if len(hs) == 0 {
			break
		}
		e, needA, needB, derives := opExpr(s)
		ia, ib := s.A%len(hs), s.B%len(hs)
		if !fits(kindOf(ms[ia]), needA) || !fits(kindOf(ms[ib]), needB) {
			continue
		}
		env := ref.Globals().Bind("a", ms[ia], false).Bind("b", ms[ib], false)
		want, werr, skip := refEval(e, env)
		if skip {
			continue
		}
		f, err := g.fn(Render(e))
		if err != nil {
			return "Generate rejected " + Render(e) + ": " + err.Error(), inf
		}
		gv, gerr := f.Eval(hs[ia], hs[ib])
		inf.steps++
		when := fmt.Sprintf("after step %d: %s with a=handle %d%s", sn, Render(e), ia, map[bool]string{true: fmt.Sprintf(", b=handle %d", ib), false: ""}[needB != ""])
		if (werr != nil) != (gerr != nil) {
			return fmt.Sprintf("%s: reference %v, implementation %v", when, werr, gerr), inf
		}
		if werr == nil && derives {
			if l, ok := want.(*ref.List); (!ok || l.Err == nil) && !(ok && hasUnorderedMap(want)) {
				hs = append(hs, gv)
				ms = append(ms, want)
				children[ia]++
				if children[ia] >= 2 {
					inf.classes["two_derivations_from_one_parent"] = true
					inf.nontrivial = true
				}
				if len(hs) > 8 {
					hs, ms = hs[1:], ms[1:]
					nc := map[int]int{}
					for k, v := range children {
						if k > 0 {
							nc[k-1] = v
						}
					}
					children = nc
				}
			}
		} else if werr == nil {
			if mm, ok := ms[ia].(*ref.Map); s.Op == "string" && (hasUnorderedMap(ms[ia]) || (ok && mm.Unordered)) {
				// the key order of such a map is not specified
			} else if !ref.Same(want, progs.Observe(gv, nil).Val, 0) {
				return fmt.Sprintf("%s = %v, want %s", when, progs.Observe(gv, nil), ref.Show(want)), inf
			}
			inf.classes["partial_consumption_or_observation"] = true
		}
		inf.classes["op_"+s.Op] = true
		if m := observeAll(g, hs, ms, when, sn); m != "" {
			return m, inf
		}
	}
	return "", inf
}

// checkProgram renders the history as one program: let h0=...; let h1=op(h..); ...;
// [h0,h1,...] and evaluates it several times.
func checkProgram(c Case, inf *info) string {
	type hd struct {
		name string
		kind string
	}
	var hsd []hd
	var lets []func(*Expr) *Expr
	env := ref.Globals()
	children := map[int]int{}
	for i, e := range c.Init {
		v, err, _ := refEval(e, ref.Globals())
		if err != nil {
			return "harness: initial value does not evaluate"
		}
		name := fmt.Sprintf("h%d", i)
		hsd = append(hsd, hd{name, kindOf(v)})
		env = env.Bind(name, v, true)
		e := e
		lets = append(lets, func(body *Expr) *Expr { return Let(name, e, body) })
	}
	for _, s := range c.Steps {
		e, needA, needB, derives := opExpr(s)
		if !derives || len(hsd) == 0 {
			continue
		}
		ia, ib := s.A%len(hsd), s.B%len(hsd)
		if !fits(hsd[ia].kind, needA) || !fits(hsd[ib].kind, needB) {
			continue
		}
		inst := subst(e, map[string]string{"a": hsd[ia].name, "b": hsd[ib].name})
		v, err, skip := refEval(inst, env)
		if skip || err != nil {
			continue
		}
		if l, ok := v.(*ref.List); ok && (l.Err != nil || hasUnorderedMap(v)) {
			continue
		}
		name := fmt.Sprintf("h%d", len(hsd))
		hsd = append(hsd, hd{name, kindOf(v)})
		env = env.Bind(name, v, true)
		lets = append(lets, func(body *Expr) *Expr { return Let(name, inst, body) })
		children[ia]++
		if children[ia] >= 2 {
			inf.classes["two_derivations_from_one_parent"] = true
			inf.nontrivial = true
		}
		inf.classes["op_"+s.Op] = true
		inf.steps++
	}
	var all []*Expr
	for _, h := range hsd {
		all = append(all, Var(h.name))
	}
	body := List(all...)
	for i := len(lets) - 1; i >= 0; i-- {
		body = lets[i](body)
	}
	pc := progs.Case{Prog: Program{Body: body}, Text: Render(body)}
	in := progs.NewRef()
	want := progs.RefRun(in, pc)
	if progs.OutOfDomain(in, want) != "" {
		return ""
	}
	g := impls[c.Opt]
	f, _, err := g.g.Generate(pc.Text)
	if err != nil {
		return "Generate rejected " + pc.Text + ": " + err.Error()
	}
	inf.classes["history_as_one_program"] = true
	for round := 0; round < 3; round++ {
		got := progs.ImplEval(f, pc)
		if m := progs.Compare(want, got, 0); m != "" {
			return fmt.Sprintf("evaluation %d of %s: %s", round+1, pc.Text, m)
		}
	}
	return ""
}

func subst(e *Expr, names map[string]string) *Expr {
	c := *e
	if e.K == KVar {
		if n, ok := names[e.S]; ok {
			c.S = n
		}
	}
	c.X = make([]*Expr, len(e.X))
	for i, x := range e.X {
		c.X[i] = subst(x, names)
	}
	return &c
}

func genInit(t *rapid.T) *Expr {
	ints := func(n int) []*Expr {
		out := make([]*Expr, n)
		for i := range out {
			out[i] = Int(rapid.IntRange(-3, 9).Draw(t, "item"))
		}
		return out
	}
	switch rapid.IntRange(0, 8).Draw(t, "init") {
	case 0:
		return List(ints(rapid.IntRange(0, 5).Draw(t, "n"))...)
	case 1:
		// a list with spare capacity: built by append
		return MCall(List(ints(rapid.IntRange(0, 3).Draw(t, "n"))...), "append", Int(rapid.IntRange(0, 9).Draw(t, "app")))
	case 2:
		// lazily produced
		return MCall(SCall("numbers", Int(rapid.IntRange(0, 6).Draw(t, "numbers"))), "map", lam1(Bin("*", Var("e"), Int(2))))
	case 3:
		return MCall(MCall(List(ints(rapid.IntRange(1, 4).Draw(t, "n"))...), "append", Int(7)), "append", Int(8))
	case 4:
		return Bin("+", List(ints(2)...), List(ints(rapid.IntRange(0, 3).Draw(t, "n"))...))
	case 5:
		return MCall(List(ints(rapid.IntRange(0, 5).Draw(t, "n"))...), "eval")
	case 6:
		return Map([]string{"a", "b"}, ints(2))
	case 7:
		return MCall(Map([]string{"a"}, ints(1)), "put", Str("b"), Int(2))
	default:
		return Map([]string{"k0", "k1", "c"}, ints(3))
	}
}

func TestPropC09(t *testing.T) {
	defer evid.R.Flush()
	maxSteps := 12
	if evid.Thorough() {
		maxSteps = 30
	}
	rapid.Check(t, func(t *rapid.T) {
		c := Case{AsProgram: rapid.IntRange(0, 2).Draw(t, "asProgram") == 0, Opt: rapid.IntRange(0, 3).Draw(t, "opt") != 0}
		for i, n := 0, rapid.IntRange(1, 3).Draw(t, "inits"); i < n; i++ {
			c.Init = append(c.Init, genInit(t))
		}
		for i, n := 0, rapid.IntRange(2, maxSteps).Draw(t, "steps"); i < n; i++ {
			s := Step{Op: listOps[rapid.IntRange(0, len(listOps)-1).Draw(t, "op")], A: rapid.IntRange(0, 7).Draw(t, "a"), B: rapid.IntRange(0, 7).Draw(t, "b"),
				N: rapid.IntRange(0, 4).Draw(t, "n"), V: rapid.IntRange(-3, 9).Draw(t, "v")}
			// branching: derive again from the same parent as the previous step
			if i > 0 && rapid.IntRange(0, 2).Draw(t, "branch") == 0 {
				s.A = c.Steps[i-1].A
			}
			c.Steps = append(c.Steps, s)
		}
		msg, inf := check(c)
		if msg != "" {
			evid.Fail(t, prop, "c09", "", c, "%s", msg)
		}
		var cls []string
		for k := range inf.classes {
			cls = append(cls, k)
		}
		var ops []string
		for _, s := range c.Steps {
			ops = append(ops, s.Op)
		}
		var inits []string
		for _, e := range c.Init {
			inits = append(inits, Render(e))
		}
		evid.R.Case(inf.nontrivial, fmt.Sprint(inits, c.Steps, c.AsProgram, c.Opt), func() any {
			return map[string]any{"init": inits, "ops": ops, "as_program": c.AsProgram, "optimizer": c.Opt}
		}, cls...)
	})
}

func TestReplay(t *testing.T) {
	for _, path := range evid.ReplayFiles("c09") {
		var c Case
		if _, err := evid.ReadFailure(path, &c); err != nil {
			t.Fatalf("cannot read %s: %v", path, err)
		}
		if msg, _ := check(c); msg != "" {
			evid.ReplayFailed(t, path, msg)
		}
	}
}
