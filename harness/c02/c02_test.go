// Package c02: constant folding is unobservable (optimizer transparency).
package c02

import (
	"fmt"
	"testing"

	"github.com/hneemann/parser2/value"
	"pgregory.net/rapid"

	"verif/harness/evid"
	"verif/harness/host"
	"verif/harness/lang"
	"verif/harness/progs"
)

const prop = "C02"

type side struct {
	name string
	g    *value.FunctionGenerator
	st   *host.State
}

func newSide(name string, opt bool) *side {
	s := &side{name: name, g: progs.NewImpl(opt), st: host.NewState()}
	host.Register(s.g, s.st)
	return s
}

var on, off = newSide("optimizer on", true), newSide("optimizer off", false)

func config() lang.Config {
	c := lang.Config{MaxDepth: 6, MaxNodes: 60, FailPercent: 20, ShadowStatics: true, ConstRich: true, Host: true}
	if evid.Thorough() {
		c.MaxDepth, c.MaxNodes = 9, 150
	}
	return c
}

type result struct {
	skip     string
	msg      string
	folded   bool
	ikCalls  int64
	tolerant bool
}

func ikInClosure(e *lang.Expr) bool {
	found := false
	var walk func(e *lang.Expr, inLam bool)
	walk = func(e *lang.Expr, inLam bool) {
		if e.K == lang.KSCall && e.S == "ik" && inLam {
			found = true
		}
		for _, x := range e.X {
			walk(x, inLam || e.K == lang.KLam || e.K == lang.KFunc)
		}
	}
	walk(e, false)
	return found
}

// nestedHostCall: ik is called inside a closure that is nested in another closure and
// mentions a parameter of the outer one.
func nestedHostCall(e *lang.Expr) bool {
	found := false
	var walk func(e *lang.Expr, params [][]string)
	walk = func(e *lang.Expr, params [][]string) {
		if e.K == lang.KLam || e.K == lang.KFunc {
			if len(params) > 0 {
				hasIK := false
				e.X[0].Walk(func(x *lang.Expr) {
					if x.K == lang.KSCall && x.S == "ik" {
						hasIK = true
					}
				})
				if hasIK && e.X[0].Mentions(params[len(params)-1]...) {
					found = true
				}
			}
			walk(e.X[0], append(params, e.Names))
			for _, x := range e.X[1:] {
				walk(x, params)
			}
			return
		}
		for _, x := range e.X {
			walk(x, params)
		}
	}
	walk(e, nil)
	return found
}

func check(c progs.Case) result {
	in := progs.NewRef()
	rst := host.NewState()
	host.RegisterRef(in, rst)
	want := progs.RefRun(in, c)
	why := progs.OutOfDomain(in, want)
	tol := 0.0
	if why == "inexact_float_product" {
		// C02 tolerates the rounding caused by regrouping constant operands
		tol, why = 1e-9, ""
	}
	if why != "" {
		return result{skip: why}
	}
	var res result
	res.tolerant = tol > 0
	res.ikCalls = rst.IK.Load()
	var outs [2]progs.Outcome
	var iks [2]int64
	var asts [2]string
	for i, s := range []*side{on, off} {
		s.st.Reset()
		idents := s.g.Identifier().AddArgs(c.Prog.ArgNames, nil)
		if ast, err := s.g.CreateAst(c.Text, idents); err == nil {
			asts[i] = ast.String()
		}
		f, _, err := s.g.Generate(c.Text, c.Prog.ArgNames...)
		if err != nil {
			res.msg = s.name + ": Generate rejected a well-formed program: " + err.Error()
			return res
		}
		if n := s.st.IK.Load(); n != 0 {
			res.msg = fmt.Sprintf("%s: the impure function ik was executed %d times during Generate", s.name, n)
			return res
		}
		outs[i] = progs.ImplEval(f, c)
		iks[i] = s.st.IK.Load()
		if msg := progs.Compare(want, outs[i], tol); msg != "" {
			if tol > 0 {
				return result{skip: "inexact_mismatch"}
			}
			res.msg = s.name + ": " + msg
			return res
		}
	}
	res.folded = asts[0] != asts[1]
	if iks[0] != iks[1] {
		res.msg = fmt.Sprintf("the impure function ik ran %d times with the optimizer and %d times without", iks[0], iks[1])
		return res
	}
	if !ikInClosure(c.Prog.Body) && iks[0] != res.ikCalls {
		res.msg = fmt.Sprintf("the impure function ik ran %d times, the program text demands %d calls", iks[0], res.ikCalls)
		return res
	}
	// repeat the evaluation: constants folded at Generate time must not drift
	return res
}

func TestPropC02(t *testing.T) {
	defer evid.R.Flush()
	cfg := config()
	rapid.Check(t, func(t *rapid.T) {
		g := lang.NewGen(t, cfg)
		p := g.GenProgram()
		c := progs.Case{Prog: p, Args: progs.GenArgs(t, p.ArgTypes)}
		c.Text = lang.Render(p.Body)
		r := check(c)
		if r.skip != "" {
			evid.R.Skip()
			evid.R.Class("skipped_" + r.skip)
			return
		}
		if r.msg != "" {
			evid.Fail(t, prop, "c02", "", c, "%s\nprogram: %s\nargs: %v", r.msg, c.Text, c.Summary()["args"])
		}
		var classes []string
		if r.folded {
			classes = append(classes, "ast_changed_by_optimizer")
		}
		if r.ikCalls > 0 {
			classes = append(classes, "impure_calls_executed")
		}
		if r.tolerant {
			classes = append(classes, "rounding_tolerant")
		}
		uses := p.Body.Mentions(p.ArgNames...)
		hasImpure := false
		p.Body.Walk(func(e *lang.Expr) {
			if e.K == lang.KSCall && (e.S == "ik" || e.S == "throw") {
				hasImpure = true
			}
		})
		if hasImpure {
			classes = append(classes, "has_ik_or_throw")
		}
		if g.Stats["closed_lam_applied"] > 0 {
			classes = append(classes, "closure_without_captures_applied_to_constants")
		}
		if g.Stats["host_call_as_one_operand"] > 0 {
			classes = append(classes, "host_call_as_one_operand_of_an_operator")
		}
		if g.Stats["host_call_in_case_label"] > 0 {
			classes = append(classes, "host_call_in_a_case_label")
		}
		if g.Stats["closed_nest"] > 0 {
			classes = append(classes, "nested_closures_without_captures_from_the_program")
		}
		if g.Stats["host_call_in_closed_lam"] > 0 || g.Stats["closed_nest"] > 0 {
			classes = append(classes, "host_call_inside_closure_without_captures")
			if nestedHostCall(p.Body) {
				classes = append(classes, "impure_call_in_nested_closure_that_captures")
			}
		}
		nt := r.folded && (uses || hasImpure)
		evid.R.Case(nt, c.Text+"|"+c.Summary()["args"].(string), func() any { return c.Summary() }, classes...)
	})
}

func TestReplay(t *testing.T) {
	for _, path := range evid.ReplayFiles("c02") {
		var c progs.Case
		if _, err := evid.ReadFailure(path, &c); err != nil {
			t.Fatalf("cannot read %s: %v", path, err)
		}
		if c.Text == "" {
			c.Text = lang.Render(c.Prog.Body)
		}
		if r := check(c); r.msg != "" {
			evid.ReplayFailed(t, path, r.msg)
		}
	}
}
