package c02

import (
	"os"
	"path/filepath"
	"testing"

	"verif/harness/evid"
	. "verif/harness/lang"
	"verif/harness/progs"
)

func TestMakeExemplars(t *testing.T) {
	dir := os.Getenv("VERIF_MAKE_EXEMPLARS")
	if dir == "" {
		t.Skip("VERIF_MAKE_EXEMPLARS not set")
	}
	x := Var("x")
	exs := []progs.Exemplar{
		{"F2-constant-int-and-folds", Bin("&", Int(1), Int(3)), []*Expr{Int(0)}},
		{"F2-int-and-at-run-time", Bin("&", x, Int(3)), []*Expr{Int(1)}},
		{"F2-int-or-at-run-time", Bin("|", x, Int(2)), []*Expr{Int(5)}},
		{"F3-equal-chain-not-regrouped", Bin("=", Bin("=", Int(1), x), Float(1)), []*Expr{Bool(true)}},
		{"F3-and-chain-not-regrouped", Bin("&", Bin("&", Bool(true), x), Bool(false)), []*Expr{Int(1)}},
		{"F3-and-chain-keeps-throw", Bin("&", Bin("&", Bool(true), SCall("throw", Str("T#0#"))), Bool(false)), []*Expr{Int(1)}},
		{"F24-constant-closure-named-like-static", Let("max", Lam([]string{"a", "b"}, Var("a")), Call(Var("max"), x, Int(2))), []*Expr{Int(1)}},
		{"mul-chain-regrouping", Bin("*", Bin("*", Int(3), x), Int(5)), []*Expr{Int(7)}},
		{"impure-in-nested-capturing-closure", Call(Lam([]string{"a"}, Call(Lam([]string{"b"}, Bin("+", Bin("*", Var("a"), Var("b")), SCall("ik", Var("b")))), Int(2))), Int(1)), []*Expr{Int(7)}},
		{"impure-in-nested-closure-of-constant-map", MCall(MCall(List(Int(1), Int(2), Int(3)), "map", Lam([]string{"a"},
			MCall(MCall(List(Int(10), Int(20)), "map", Lam([]string{"b"}, Bin("+", Bin("*", Var("a"), Var("b")), SCall("ik", Int(1))))), "sum"))), "sum"), []*Expr{Int(7)}},
		{"impure-in-recursive-closure-on-constants", Func("r", []string{"n"}, If(Bin("<=", Var("n"), Int(0)), Int(0), Bin("+", SCall("ik", Var("n")), Call(Var("r"), Bin("-", Var("n"), Int(1))))),
			Call(Var("r"), Int(3))), []*Expr{Int(7)}},
		{"F30-closure-field-named-like-a-map-method", MCall(Map([]string{"v", "get"}, []*Expr{Int(0), Lam([]string{"s"}, Bin("+", MCall(Var("s"), "len"), Int(10)))}), "get", Str("v")), []*Expr{Int(7)}},
		{"F30-closure-field-named-isAvail", Bin("+", MCall(Map([]string{"v", "isAvail"}, []*Expr{Int(0), Lam([]string{"s"}, Bin("+", MCall(Var("s"), "len"), x))}), "isAvail", Str("isAvail")), Int(1)), []*Expr{Int(7)}},
		{"impure-in-untaken-branch", If(Bin("<", x, Int(0)), SCall("ik", x), Bin("+", SCall("ik", Int(1)), SCall("pk", Int(2)))), []*Expr{Int(7)}},
	}
	for _, e := range exs {
		p := Program{Body: e.Body, ArgNames: []string{"x"}, ArgTypes: []Ty{TInt}, ResType: TInt}
		c := progs.Case{Prog: p, Args: e.Args, Text: Render(e.Body)}
		os.Setenv("VERIF_FAILFILE", filepath.Join(dir, e.Name+".json"))
		evid.WriteFailure(evid.Failure{Property: prop, Test: "c02", Message: "regression exemplar: " + c.Text, Case: c})
	}
}
