package lang

import (
	"fmt"

	"pgregory.net/rapid"
)

// Ty is the generator's type of an expression (generation is by target type so that
// most programs evaluate to a value).
type Ty string

const (
	TInt   Ty = "int"
	TFloat Ty = "float"
	TStr   Ty = "str"
	TBool  Ty = "bool"
	TLInt  Ty = "lint" // list of int
	TRec   Ty = "rec"  // map {a:int, b:int}
	TFn1   Ty = "fn1"  // int -> int
	TFn2   Ty = "fn2"  // (int,int) -> int
	TCur   Ty = "cur"  // int -> (int -> int)
	TRecF  Ty = "recf" // map {v:int, f: int->int}  (closure stored in a map)
	TRecG  Ty = "recg" // map {v:int, get: str->int}: the field is named like a map method with the same signature
	TRecI  Ty = "reci" // map {v:int, isAvail: str->int}
)

var ArgTypes = []Ty{TInt, TInt, TInt, TFloat, TStr, TBool, TLInt, TRec}

type Binding struct {
	Name string
	Ty   Ty
}

// Scope is the lexical scope during generation. Frame holds the names declared in the
// current function body (they may not be declared again anywhere inside that body);
// Nest is the closure nesting depth.
type Scope struct {
	Vars  []Binding
	Frame map[string]bool
	Nest  int
}

func (s *Scope) with(b Binding, inFrame bool) *Scope {
	n := &Scope{Vars: append(append([]Binding{}, s.Vars...), b), Frame: s.Frame, Nest: s.Nest}
	if inFrame {
		n.Frame = map[string]bool{}
		for k := range s.Frame {
			n.Frame[k] = true
		}
		n.Frame[b.Name] = true
	}
	return n
}

// fn opens a new function body: the parameters form the new frame.
func (s *Scope) fn(params []Binding) *Scope {
	n := &Scope{Vars: append(append([]Binding{}, s.Vars...), params...), Frame: map[string]bool{}, Nest: s.Nest + 1}
	for _, p := range params {
		n.Frame[p.Name] = true
	}
	return n
}

// hideAll: all names stay visible for the program text (they shadow statics, they may
// be redeclared in an inner function) but none is offered to the generator any more:
// what is generated in this scope does not depend on anything declared outside.
func (s *Scope) hideAll() *Scope {
	n := &Scope{Frame: s.Frame, Nest: s.Nest}
	for _, b := range s.Vars {
		n.Vars = append(n.Vars, Binding{b.Name, "hidden"})
	}
	return n
}

// RecField is the name of the closure field of the closure-in-map types.
func RecField(t Ty) string {
	switch t {
	case TRecG:
		return "get"
	case TRecI:
		return "isAvail"
	}
	return "f"
}

func (s *Scope) ofType(t Ty) []string {
	var out []string
	seen := map[string]bool{}
	for i := len(s.Vars) - 1; i >= 0; i-- {
		b := s.Vars[i]
		if seen[b.Name] {
			continue // shadowed
		}
		seen[b.Name] = true
		if b.Ty == t {
			out = append(out, b.Name)
		}
	}
	return out
}

// Config steers the generator.
type Config struct {
	MaxDepth int
	MaxNodes int
	// FailPercent: chance (per program) that failing / ill-typed sub-terms are allowed.
	FailPercent int
	// ConstRich: prefer literals over variables (C02 profile).
	ConstRich bool
	// Host: the harness functions pk (pure) and ik (impure) may be called.
	Host bool
	// ShadowStatics: local names may coincide with static function names.
	ShadowStatics bool
	// Attr: free identifiers (the top-level bindings) are attributes of one argument map
	// (C16); nothing changes for generation, the caller renders both forms.
	NoTokensInCallee bool
	// ArgNames overrides the names of the top-level arguments (default x, y, z).
	ArgNames []string
	// FnArgs: top-level arguments may be closures int -> int.
	FnArgs bool
}

type Gen struct {
	T        *rapid.T
	C        Config
	nodes    int
	tokens   int
	failOK   bool
	inCallee int
	closed   int
	// statistics of what was generated
	Stats map[string]int
}

func NewGen(t *rapid.T, c Config) *Gen {
	g := &Gen{T: t, C: c, Stats: map[string]int{}}
	g.failOK = rapid.IntRange(0, 99).Draw(t, "failOK") < c.FailPercent
	return g
}

func (g *Gen) n(max int, label string) int {
	if max <= 1 {
		return 0
	}
	return rapid.IntRange(0, max-1).Draw(g.T, label)
}

func (g *Gen) chance(percent int, label string) bool {
	return rapid.IntRange(0, 99).Draw(g.T, label) < percent
}

var namePool = []string{"a", "b", "c", "d", "k", "m", "n", "p", "q", "r", "s", "t", "u", "v", "w"}
var staticLikeNames = []string{"max", "min", "sqr", "abs", "sign"} // never string/numbers/isInt/isFloat/round/throw

// freshName picks a name that is not declared in the current frame. Names bound in
// enclosing functions and in sibling scopes are deliberately reused (shadowing and
// slot reuse).
func (g *Gen) freshName(sc *Scope, label string) string {
	if g.chance(15, "shadowVisible") {
		// declare a name again that is visible from an enclosing function: an argument of
		// the program, an outer let, func or parameter (legal: it is another function body)
		var cand []string
		seen := map[string]bool{}
		for i := len(sc.Vars) - 1; i >= 0; i-- {
			nm := sc.Vars[i].Name
			if !seen[nm] && !sc.Frame[nm] {
				cand = append(cand, nm)
			}
			seen[nm] = true
		}
		if len(cand) > 0 {
			g.Stats["shadow_visible"]++
			return cand[g.n(len(cand), label+"Shadow")]
		}
	}
	pool := namePool
	if g.C.ShadowStatics && g.chance(6, "staticName") {
		pool = staticLikeNames
	}
	start := g.n(len(pool), label)
	for i := 0; i < len(pool); i++ {
		nm := pool[(start+i)%len(pool)]
		if !sc.Frame[nm] {
			return nm
		}
	}
	for i := 0; ; i++ {
		nm := fmt.Sprintf("v%d", i)
		if !sc.Frame[nm] {
			return nm
		}
	}
}

func (g *Gen) freshNames(sc *Scope, k int) []string {
	var out []string
	tmp := sc
	if g.chance(30, "shadowOuter") {
		// parameters open a new frame: they may shadow any outer name
		tmp = &Scope{Frame: map[string]bool{}}
	}
	for i := 0; i < k; i++ {
		nm := g.freshName(tmp, "param")
		out = append(out, nm)
		tmp = tmp.with(Binding{nm, TInt}, true)
	}
	return out
}

var dyadics = []float64{0.5, 1.5, 2, 0.25, 3, -1.5, 4, -0.5, 1, 0}
var strPool = []string{"", "a", "ab", "abc", "b", "Hello", "x y", "äöü", "zz"}

func (g *Gen) leaf(t Ty, sc *Scope) *Expr {
	g.nodes++
	vars := sc.ofType(t)
	varPct := 75
	if g.C.ConstRich {
		varPct = 35
	}
	if len(vars) > 0 && g.chance(varPct, "useVar") {
		return Var(vars[g.n(len(vars), "var")])
	}
	switch t {
	case TInt:
		e := Int(rapid.IntRange(-3, 12).Draw(g.T, "int"))
		if e.I >= 0 && g.chance(6, "leadingZeros") {
			e.Z = 1 + g.n(2, "zeros")
		}
		return e
	case TFloat:
		return Float(dyadics[g.n(len(dyadics), "flt")])
	case TStr:
		return Str(strPool[g.n(len(strPool), "str")])
	case TBool:
		return Bool(g.chance(50, "bool"))
	case TLInt:
		k := g.n(4, "llen")
		items := make([]*Expr, k)
		for i := range items {
			items[i] = Int(rapid.IntRange(-3, 12).Draw(g.T, "li"))
		}
		g.nodes += k
		return List(items...)
	case TRec:
		g.nodes += 2
		return Map([]string{"a", "b"}, []*Expr{Int(rapid.IntRange(-3, 12).Draw(g.T, "ra")), Int(rapid.IntRange(-3, 12).Draw(g.T, "rb"))})
	case TFn1:
		p := g.freshNames(sc, 1)
		g.nodes += 3
		return Lam(p, Bin("+", Var(p[0]), Int(rapid.IntRange(0, 5).Draw(g.T, "inc"))))
	case TFn2:
		p := g.freshNames(sc, 2)
		g.nodes += 3
		return Lam(p, Bin("-", Var(p[0]), Var(p[1])))
	case TCur:
		p := g.freshNames(sc, 1)
		inner := sc.fn([]Binding{{p[0], TInt}})
		q := g.freshNames(inner, 1)
		g.nodes += 5
		return Lam(p, Lam(q, Bin("*", Var(p[0]), Var(q[0]))))
	case TRecF:
		p := g.freshNames(sc, 1)
		g.nodes += 5
		return Map([]string{"v", "f"}, []*Expr{Int(rapid.IntRange(0, 9).Draw(g.T, "rv")), Lam(p, Bin("*", Var(p[0]), Int(2)))})
	case TRecG, TRecI:
		p := g.freshNames(sc, 1)
		g.nodes += 5
		return Map([]string{"v", RecField(t)}, []*Expr{Int(rapid.IntRange(0, 9).Draw(g.T, "rv")), Lam(p, Bin("+", MCall(Var(p[0]), "len"), Int(10)))})
	}
	panic("leaf: unknown type " + string(t))
}

// Expr generates an expression of type t. letOK: the position is parsed by parseLet.
func (g *Gen) Expr(t Ty, sc *Scope, d int, letOK bool) *Expr {
	if d <= 0 || g.nodes >= g.C.MaxNodes {
		return g.leaf(t, sc)
	}
	g.nodes++
	// productions common to all types
	c := g.n(100, "prod")
	switch {
	case c < 14 && letOK:
		return g.genLet(t, sc, d)
	case c < 20 && letOK:
		return g.genFunc(t, sc, d)
	case c < 27:
		g.Stats["if"]++
		return If(g.Expr(TBool, sc, d-1, false), g.Expr(t, sc, d-1, true), g.Expr(t, sc, d-1, true))
	case c < 31 || (g.closed > 0 && c >= 47 && c < 53):
		return g.genSwitch(t, sc, d)
	case c < 36 && t != TFn1 && t != TCur:
		// (a catch value that is a one-parameter closure is an error handler, so a try
		// whose own type is such a closure would hand the error text to it)
		return g.genTry(t, sc, d)
	case c < 41:
		// immediately applied lambda with 1..3 parameters; the arguments are let-positions
		k := 1 + g.n(3, "lamParams")
		outer := sc
		if g.C.Host && g.chance(40, "closedLam") {
			// a closure that captures nothing, applied to values that do not depend on the
			// arguments: the optimizer may take the whole call for a constant - unless
			// something impure happens inside, maybe only in a nested closure
			// (the names of this function body stay declared: only the values are hidden)
			outer = sc.hideAll()
			g.closed++
			defer func() { g.closed-- }()
			g.Stats["closed_lam_applied"]++
		}
		ps := g.freshNames(sc, k)
		var bs []Binding
		var args []*Expr
		for _, p := range ps {
			pt := g.pickArgType()
			bs = append(bs, Binding{p, pt})
			args = append(args, g.Expr(pt, outer, d-1, true))
		}
		g.Stats["lam_applied"]++
		body := g.Expr(t, outer.fn(bs), d-1, true)
		return Call(Lam(ps, body), args...)
	case c < 44:
		// element of a list literal / member of a map literal: their items are let-positions
		if g.chance(50, "idxOrMember") {
			k := 1 + g.n(3, "items")
			items := make([]*Expr, k)
			for i := range items {
				items[i] = g.Expr(t, sc, d-1, true)
			}
			return Index(List(items...), Int(g.n(k, "idx")))
		}
		keys := []string{"a", "b", "c"}[:1+g.n(3, "keys")]
		vals := make([]*Expr, len(keys))
		for i := range vals {
			vals[i] = g.Expr(t, sc, d-1, true)
		}
		return Member(Map(keys, vals), keys[g.n(len(keys), "key")])
	case c < 47 && g.failOK:
		return g.genFailing(t, sc, d)
	}
	switch t {
	case TInt:
		return g.genInt(sc, d)
	case TFloat:
		return g.genFloat(sc, d)
	case TStr:
		return g.genStr(sc, d)
	case TBool:
		return g.genBool(sc, d)
	case TLInt:
		return g.genLInt(sc, d)
	case TRec:
		return g.genRec(sc, d)
	case TFn1, TFn2, TCur, TRecF, TRecG, TRecI:
		return g.genFn(t, sc, d)
	}
	panic("Expr: unknown type " + string(t))
}

func (g *Gen) pickArgType() Ty {
	ts := []Ty{TInt, TInt, TInt, TInt, TFloat, TStr, TBool, TLInt, TRec, TFn1}
	return ts[g.n(len(ts), "argTy")]
}

func (g *Gen) pickLetType() Ty {
	ts := []Ty{TInt, TInt, TInt, TInt, TFloat, TStr, TBool, TLInt, TRec, TFn1, TFn2, TCur, TRecF, TRecG, TRecI}
	return ts[g.n(len(ts), "letTy")]
}

// genLazyThenLets: a lazily evaluated list is bound first, two to five more locals are
// declared behind it, and only then the list is read for the first time (the stack has
// grown between the creation of the list and its evaluation).
func (g *Gen) genLazyThenLets(t Ty, sc *Scope, d int) *Expr {
	g.Stats["lazy_list_read_behind_later_lets"]++
	lname := g.freshName(sc, "lazyName")
	src := g.Expr(TLInt, sc, d-2, false)
	var lazy *Expr
	switch g.n(6, "lazyKind") {
	case 0:
		lazy = MCall(src, "map", g.lamInt(sc, 1))
	case 1:
		lazy = MCall(src, "accept", g.lamBool(sc, 1))
	case 2, 3:
		lazy = MCall(src, "iir", g.lamInt(sc, 1), g.lam2(sc, 1, TInt, TInt, TInt))
	case 4:
		lazy = MCall(src, "number", g.lam2(sc, 1, TInt, TInt, TInt))
	default:
		lazy = MCall(src, "combine", g.lam2(sc, 1, TInt, TInt, TInt))
	}
	cur := sc.with(Binding{lname, TLInt}, true)
	type lt struct {
		name string
		val  *Expr
	}
	var lets []lt
	k := 2 + g.n(4, "moreLets")
	for i := 0; i < k; i++ {
		n := g.freshName(cur, "laterName")
		lets = append(lets, lt{n, g.Expr(TInt, cur, 1, false)})
		cur = cur.with(Binding{n, TInt}, true)
	}
	ps := g.freshNames(cur, 2)
	if ps[0] == ps[1] {
		ps[1] = ps[1] + "_"
	}
	read := Bin("+", MCall(Var(lname), "mapReduce", Int(0), Lam(ps, Bin("+", Var(ps[0]), Var(ps[1])))), Var(lets[k-1].name))
	rname := g.freshName(cur, "readName")
	cur = cur.with(Binding{rname, TInt}, true)
	g.nodes += 8 + k
	body := g.Expr(t, cur, d-2, true)
	if t == TInt {
		body = Bin("+", Var(rname), g.Expr(TInt, cur, d-2, false))
	}
	e := Let(rname, read, body)
	for i := k - 1; i >= 0; i-- {
		e = Let(lets[i].name, lets[i].val, e)
	}
	return Let(lname, lazy, e)
}

func (g *Gen) genLet(t Ty, sc *Scope, d int) *Expr {
	if d >= 3 && g.chance(5, "lazyThenLets") {
		return g.genLazyThenLets(t, sc, d)
	}
	g.Stats["let"]++
	vt := g.pickLetType()
	name := g.freshName(sc, "letName")
	val := g.Expr(vt, sc, d-1, false)
	body := g.Expr(t, sc.with(Binding{name, vt}, true), d-1, true)
	return Let(name, val, body)
}

// genFunc: func name(params) body; rest. With some probability the function is
// recursive with a decreasing counter as first parameter.
func (g *Gen) genFunc(t Ty, sc *Scope, d int) *Expr {
	g.Stats["func"]++
	name := g.freshName(sc, "funcName")
	k := 1 + g.n(2, "funcParams")
	scWith := sc.with(Binding{name, TFn1}, true)
	ps := g.freshNames(scWith, k)
	for i := range ps {
		if ps[i] == name {
			ps[i] = name + "_"
		}
	}
	bs := make([]Binding, k)
	for i, p := range ps {
		bs[i] = Binding{p, TInt}
	}
	fty := TFn1
	if k == 2 {
		fty = TFn2
	}
	// The function's own name is used only by the recursion template below (with a
	// decreasing counter); it is not offered to the general generator inside the body,
	// so every generated recursion terminates.
	// visible in the body (shadows outer names and statics), but never offered
	bodySc := sc.with(Binding{name, "self"}, false).fn(bs)
	var fbody *Expr
	if g.chance(40, "recursive") {
		g.Stats["recursion"]++
		// if n <= 0 then BASE else STEP(name(n-1, ...))
		rec := []*Expr{Bin("-", Var(ps[0]), Int(1))}
		if k == 2 {
			rec = append(rec, g.Expr(TInt, bodySc, d-2, true))
		}
		step := Bin("+", g.Expr(TInt, bodySc, d-2, false), Call(Var(name), rec...))
		fbody = If(Bin("<=", Var(ps[0]), Int(0)), g.Expr(TInt, bodySc, d-2, true), step)
	} else {
		fbody = g.Expr(TInt, bodySc, d-1, true)
	}
	restSc := sc.with(Binding{name, fty}, true)
	rest := g.Expr(t, restSc, d-1, true)
	return Func(name, ps, fbody, rest)
}

func (g *Gen) genSwitch(t Ty, sc *Scope, d int) *Expr {
	g.Stats["switch"]++
	st := TInt
	if g.chance(25, "switchStr") {
		st = TStr
	}
	v := g.Expr(st, sc, d-1, false)
	k := 1 + g.n(3, "cases")
	var pairs []*Expr
	for i := 0; i < k; i++ {
		var cv *Expr
		if g.closed > 0 && st == TInt && g.chance(40, "caseHost") {
			// a computed case label that calls a host function (inside a closure that captures nothing)
			g.Stats["host_call_in_case_label"]++
			g.nodes += 2
			cv = SCall([]string{"ik", "ik", "pk"}[g.n(3, "caseHostFn")], Int(rapid.IntRange(-2, 6).Draw(g.T, "caseHostInt")))
		} else if g.chance(70, "caseLit") {
			if st == TInt {
				cv = Int(rapid.IntRange(-2, 6).Draw(g.T, "caseInt"))
			} else {
				cv = Str(strPool[g.n(len(strPool), "caseStr")])
			}
			g.nodes++
		} else {
			cv = g.Expr(st, sc, d-2, false)
		}
		pairs = append(pairs, cv, g.Expr(t, sc, d-1, true))
	}
	return Switch(v, pairs, g.Expr(t, sc, d-1, true))
}

func (g *Gen) newToken() string {
	tok := fmt.Sprintf("T#%d#", g.tokens)
	g.tokens++
	return tok
}

func (g *Gen) genTry(t Ty, sc *Scope, d int) *Expr {
	g.Stats["try"]++
	var body *Expr
	tok := ""
	if g.chance(60, "tryFails") && g.inCallee == 0 {
		// a body that fails for some inputs: a guarded throw
		tok = g.newToken()
		body = If(g.Expr(TBool, sc, d-2, false), SCall("throw", Str(tok)), g.Expr(t, sc, d-1, true))
	} else {
		body = g.Expr(t, sc, d-1, true)
	}
	if tok != "" && g.chance(50, "catchClosure") {
		// catch closure that looks at the error text only through "token ~ text"
		p := g.freshNames(sc, 1)
		inner := sc.fn([]Binding{{p[0], "errtext"}}) // the text itself is never used as a value
		g.Stats["catch_closure"]++
		return Try(body, Lam(p, If(Bin("~", Str(tok), Var(p[0])), g.Expr(t, inner, d-2, true), g.Expr(t, inner, d-2, true))))
	}
	return Try(body, g.Expr(t, sc, d-1, true))
}

// genFailing produces a sub-term that fails at run time (or is ill-typed for some
// operator), to exercise the "error in both" half of the oracle.
func (g *Gen) genFailing(t Ty, sc *Scope, d int) *Expr {
	g.Stats["failing"]++
	switch g.n(7, "failKind") {
	case 0:
		if g.inCallee == 0 {
			return SCall("throw", Str(g.newToken()))
		}
		return Bin("%", g.Expr(TInt, sc, d-1, false), Int(0))
	case 1:
		return Bin("+", g.Expr(TInt, sc, d-1, false), g.Expr(TBool, sc, d-1, false))
	case 2:
		return Index(g.Expr(TLInt, sc, d-1, false), Int(50))
	case 3:
		return Member(g.Expr(TRec, sc, d-1, false), "zz")
	case 4:
		return Call(g.callee(TInt, sc, d-1), g.Expr(TInt, sc, d-1, true))
	case 5:
		return MCall(g.Expr(TInt, sc, d-1, false), "nosuch")
	default:
		// wrong arity on a closure
		return Call(g.callee(TFn1, sc, d-1), g.Expr(TInt, sc, d-1, true), g.Expr(TInt, sc, d-1, true))
	}
}

// scall emits a static function call unless the name is shadowed by a local binding
// (then the call would denote the local value); in that case the first argument is
// returned wrapped so that the type is unchanged only for same-typed functions, else a
// call through a non-shadowed alias is not available and the argument list is dropped.
func (g *Gen) scall(sc *Scope, name string, args ...*Expr) *Expr {
	for _, b := range sc.Vars {
		if b.Name == name {
			g.Stats["static_shadowed"]++
			switch name {
			case "abs", "sqr", "sign", "min", "max":
				// same type as the first argument (kept in a let-position)
				return Index(List(args[0]), Int(0))
			case "int":
				return SCall("round", args...)
			case "float":
				return Bin("*", Index(List(args[0]), Int(0)), Float(1))
			}
		}
	}
	return SCall(name, args...)
}

func (g *Gen) callee(t Ty, sc *Scope, d int) *Expr {
	g.inCallee++
	defer func() { g.inCallee-- }()
	return g.Expr(t, sc, d, false)
}

// hostOperand: a binary operator with a host call on a constant as ONE operand and a
// constant as the other one, in either order: whether the whole term may be folded is
// decided by the purity of both operands.
func (g *Gen) hostOperand(boolean bool) *Expr {
	g.Stats["host_call_as_one_operand"]++
	g.nodes += 4
	host := SCall([]string{"ik", "ik", "pk"}[g.n(3, "operandHostFn")], Int(rapid.IntRange(-2, 6).Draw(g.T, "operandHostArg")))
	var other *Expr = Int(rapid.IntRange(-2, 6).Draw(g.T, "operandConst"))
	op := []string{"&", "|", "&", "|", "+", "*", "-"}[g.n(7, "operandOp")]
	if boolean {
		host = Bin([]string{"=", "<", ">="}[g.n(3, "operandCmp")], host, Int(rapid.IntRange(-2, 6).Draw(g.T, "operandCmpConst")))
		other = Bool(g.chance(50, "operandBool"))
		op = []string{"&", "|"}[g.n(2, "operandLogic")]
	}
	if g.chance(50, "operandSwap") {
		return Bin(op, other, host)
	}
	return Bin(op, host, other)
}

func (g *Gen) genInt(sc *Scope, d int) *Expr {
	if g.C.Host && g.chance(3, "hostOperandInt") {
		return g.hostOperand(false)
	}
	c := g.n(100, "intProd")
	switch {
	case g.C.Host && g.closed == 0 && c >= 88 && c < 95:
		return g.closedNest(sc, d)
	case g.closed > 0 && c >= 75 && c < 95:
		// inside a closure that captures nothing the host functions are called more often
		g.Stats["host_call_in_closed_lam"]++
		return SCall([]string{"pk", "ik", "ik"}[g.n(3, "hostClosed")], g.Expr(TInt, sc, d-1, true))
	case c < 30:
		op := []string{"+", "-", "*", "+", "-", "*", "%", "<<", ">>", "^"}[g.n(10, "iop")]
		switch op {
		case "%":
			return Bin(op, g.Expr(TInt, sc, d-1, false), Int(1+g.n(7, "mod")))
		case "<<", ">>":
			return Bin(op, g.Expr(TInt, sc, d-1, false), Int(g.n(5, "sh")))
		case "^":
			return Bin(op, g.Expr(TInt, sc, d-1, false), Int(g.n(4, "pow")))
		}
		return Bin(op, g.Expr(TInt, sc, d-1, false), g.Expr(TInt, sc, d-1, false))
	case c < 32:
		return Un("-", g.Expr(TInt, sc, d-1, false))
	case c < 34:
		// the operator table defines '&' and '|' on ints as well (bitwise)
		return Bin([]string{"&", "|"}[g.n(2, "bitop")], g.Expr(TInt, sc, d-1, false), g.Expr(TInt, sc, d-1, false))
	case c < 37 && g.C.ConstRich:
		// chains of the regroupable operator '*' mixing constants and variables in every position
		k := func() *Expr { g.nodes++; return Int(rapid.IntRange(-3, 7).Draw(g.T, "chainConst")) }
		v := g.Expr(TInt, sc, d-1, false)
		switch g.n(4, "chainShape") {
		case 0:
			return Bin("*", Bin("*", k(), v), k())
		case 1:
			return Bin("*", Bin("*", v, k()), k())
		case 2:
			return Bin("*", k(), Bin("*", v, k()))
		default:
			return Bin("*", Bin("*", Bin("*", k(), v), k()), g.Expr(TInt, sc, d-1, false))
		}
	case c < 44:
		g.Stats["call_fn1"]++
		return Call(g.callee(TFn1, sc, d-1), g.Expr(TInt, sc, d-1, true))
	case c < 54:
		g.Stats["call_fn2"]++
		return Call(g.callee(TFn2, sc, d-1), g.Expr(TInt, sc, d-1, true), g.Expr(TInt, sc, d-1, true))
	case c < 59:
		g.Stats["currying"]++
		return Call(Call(g.callee(TCur, sc, d-1), g.Expr(TInt, sc, d-1, true)), g.Expr(TInt, sc, d-1, true))
	case c < 65:
		g.Stats["closure_in_map"]++
		if g.chance(50, "mapFieldCall") {
			// (also fields named like a map method: the closure field has precedence)
			rt := []Ty{TRecF, TRecF, TRecG, TRecI}[g.n(4, "recFieldName")]
			if rt == TRecG && g.chance(40, "recvBySwitch") {
				// ONE call site m.get("v") whose receiver is a map WITH a closure field get for some
				// arguments and a map WITHOUT it (the method get applies) for others
				g.Stats["call_site_sees_maps_with_and_without_the_closure_field"]++
				plain := Map([]string{"v"}, []*Expr{g.Expr(TInt, sc, d-2, true)})
				return MCall(If(g.Expr(TBool, sc, d-1, false), g.Expr(TRecG, sc, d-1, false), plain), "get", Str("v"))
			}
			if rt != TRecF {
				// the closure takes a string like the map method of that name: a key of the map in half of the cases
				arg := g.Expr(TStr, sc, d-1, true)
				if g.chance(50, "keyArg") {
					arg = Str([]string{"v", RecField(rt)}[g.n(2, "whichKey")])
				}
				return MCall(g.Expr(rt, sc, d-1, false), RecField(rt), arg)
			}
			return MCall(g.Expr(rt, sc, d-1, false), RecField(rt), g.Expr(TInt, sc, d-1, true))
		}
		return Member(g.Expr([]Ty{TRecF, TRecG, TRecI}[g.n(3, "recFieldName2")], sc, d-1, false), "v")
	case c < 75:
		// static functions, the arguments are let-positions
		g.Stats["static_call"]++
		switch g.n(6, "sfn") {
		case 0:
			return g.scall(sc, "abs", g.Expr(TInt, sc, d-1, true))
		case 1:
			return g.scall(sc, "sqr", g.Expr(TInt, sc, d-1, true))
		case 2:
			return g.scall(sc, "sign", g.Expr(TInt, sc, d-1, true))
		case 3:
			return g.scall(sc, "min", g.Expr(TInt, sc, d-1, true), g.Expr(TInt, sc, d-1, true))
		case 4:
			return g.scall(sc, "max", g.Expr(TInt, sc, d-1, true), g.Expr(TInt, sc, d-1, true), g.Expr(TInt, sc, d-1, true))
		default:
			return g.scall(sc, "int", g.Expr(TFloat, sc, d-1, true))
		}
	case c < 90:
		g.Stats["method_call"]++
		switch g.n(9, "imeth") {
		case 0:
			return MCall(g.Expr(TLInt, sc, d-1, false), "size")
		case 1:
			return MCall(g.Expr(TLInt, sc, d-1, false), "mapReduce", g.Expr(TInt, sc, d-1, true), g.Expr(TFn2, sc, d-1, true))
		case 2:
			return MCall(g.Expr(TLInt, sc, d-1, false), "indexWhere", g.lamBool(sc, d-1))
		case 3:
			return MCall(g.Expr(TStr, sc, d-1, false), "len")
		case 4:
			return MCall(g.Expr(TStr, sc, d-1, false), "indexOf", g.Expr(TStr, sc, d-1, true))
		case 5:
			return Member(g.Expr(TRec, sc, d-1, false), []string{"a", "b"}[g.n(2, "field")])
		case 6:
			return MCall(g.Expr(TRec, sc, d-1, false), "get", Str([]string{"a", "b"}[g.n(2, "field")]))
		case 7:
			return MCall(g.Expr(TFn2, sc, d-1, false), "invoke", List(g.Expr(TInt, sc, d-1, true), g.Expr(TInt, sc, d-1, true)))
		default:
			return MCall(g.Expr(TRec, sc, d-1, false), "size")
		}
	case c < 95:
		return Index(g.Expr(TLInt, sc, d-1, false), Int(g.n(3, "ix")))
	default:
		if g.C.Host {
			g.Stats["host_call"]++
			return SCall([]string{"pk", "ik"}[g.n(2, "host")], g.Expr(TInt, sc, d-1, true))
		}
		return g.leaf(TInt, sc)
	}
}

// closedNest: nested closures that capture nothing from the program (the whole
// expression is argument independent), where the inner closure captures a parameter of
// the outer one and calls a host function. Only the impure host function keeps the
// optimizer from folding the expression.
func (g *Gen) closedNest(sc *Scope, d int) *Expr {
	g.closed++
	defer func() { g.closed-- }()
	g.Stats["closed_nest"]++
	empty := sc.hideAll()
	konst := func(s *Scope) *Expr { return g.Expr(TInt, s, d-3, false) }
	p := g.freshNames(sc, 1)[0]
	s1 := empty.fn([]Binding{{p, TInt}})
	q := g.freshNames(s1, 1)[0]
	if q == p {
		q = p + "_"
	}
	s2 := s1.fn([]Binding{{q, TInt}})
	inner := g.Expr(TInt, s2, d-2, false)
	if g.chance(70, "nestHost") {
		inner = SCall([]string{"ik", "ik", "pk"}[g.n(3, "nestHostFn")], inner)
	}
	body := Bin("+", Bin("*", Var(p), Var(q)), inner)
	add := Lam([]string{"a", "b"}, Bin("+", Var("a"), Var("b")))
	switch g.n(4, "nestShape") {
	case 0:
		return Call(Lam([]string{p}, Call(Lam([]string{q}, body), konst(s1))), konst(empty))
	case 1:
		in := MCall(MCall(List(konst(s1), konst(s1)), "map", Lam([]string{q}, body)), "mapReduce", Int(0), add)
		return MCall(MCall(List(konst(empty), konst(empty), konst(empty)), "map", Lam([]string{p}, in)), "mapReduce", Int(0), add)
	case 2:
		return Call(Call(Lam([]string{p}, Lam([]string{q}, body)), konst(empty)), konst(empty))
	default:
		// a recursive function that captures nothing
		fname := g.freshName(sc, "nestFunc")
		if fname == p {
			fname = p + "_f"
		}
		fs := empty.with(Binding{fname, "self"}, false).fn([]Binding{{p, TInt}})
		step := g.Expr(TInt, fs, d-3, false)
		if g.chance(70, "nestHostRec") {
			step = SCall("ik", step)
		}
		fbody := If(Bin("<=", Var(p), Int(0)), Int(g.n(4, "nestBase")), Bin("+", step, Call(Var(fname), Bin("-", Var(p), Int(1)))))
		// (a list item is a let-position: the func statement may stand there)
		return Index(List(Func(fname, []string{p}, fbody, Call(Var(fname), Int(g.n(4, "nestDepth"))))), Int(0))
	}
}

func (g *Gen) lamBool(sc *Scope, d int) *Expr {
	p := g.freshNames(sc, 1)
	return Lam(p, g.Expr(TBool, sc.fn([]Binding{{p[0], TInt}}), d, true))
}

func (g *Gen) lamInt(sc *Scope, d int) *Expr {
	p := g.freshNames(sc, 1)
	return Lam(p, g.Expr(TInt, sc.fn([]Binding{{p[0], TInt}}), d, true))
}

func (g *Gen) genFloat(sc *Scope, d int) *Expr {
	c := g.n(100, "fltProd")
	switch {
	case c < 35:
		op := []string{"+", "-", "+", "-", "*", "/"}[g.n(6, "fop")]
		if op == "/" {
			return Bin(op, g.Expr(TFloat, sc, d-1, false), Float([]float64{2, 4, 0.5, 8}[g.n(4, "div")]))
		}
		return Bin(op, g.Expr(TFloat, sc, d-1, false), g.Expr(TFloat, sc, d-1, false))
	case c < 45:
		// mixed int/float arithmetic
		op := []string{"+", "-", "*"}[g.n(3, "mop")]
		if g.chance(50, "intLeft") {
			return Bin(op, g.Expr(TInt, sc, d-1, false), g.Expr(TFloat, sc, d-1, false))
		}
		return Bin(op, g.Expr(TFloat, sc, d-1, false), g.Expr(TInt, sc, d-1, false))
	case c < 55:
		return Bin("/", g.Expr(TInt, sc, d-1, false), Int([]int{1, 2, 4, 8}[g.n(4, "idiv")]))
	case c < 60:
		return Un("-", g.Expr(TFloat, sc, d-1, false))
	case c < 75:
		switch g.n(4, "ffn") {
		case 0:
			return g.scall(sc, "float", g.Expr(TInt, sc, d-1, true))
		case 1:
			return g.scall(sc, "abs", g.Expr(TFloat, sc, d-1, true))
		case 2:
			return g.scall(sc, "sqr", g.Expr(TFloat, sc, d-1, true))
		default:
			return g.scall(sc, "min", g.Expr(TFloat, sc, d-1, true), g.Expr(TFloat, sc, d-1, true))
		}
	case c < 85:
		return MCall(g.Expr(TLInt, sc, d-1, false), "mapReduce", g.Expr(TFloat, sc, d-1, true), g.lam2(sc, d-1, TFloat, TInt, TFloat))
	default:
		return g.leaf(TFloat, sc)
	}
}

// lam2 builds (p,q) -> body with typed parameters.
func (g *Gen) lam2(sc *Scope, d int, t1, t2, res Ty) *Expr {
	ps := g.freshNames(sc, 2)
	return Lam(ps, g.Expr(res, sc.fn([]Binding{{ps[0], t1}, {ps[1], t2}}), d, true))
}

func (g *Gen) genStr(sc *Scope, d int) *Expr {
	c := g.n(100, "strProd")
	switch {
	case c < 30:
		// string '+' (left operand string, right operand anything with a stable string form)
		rt := []Ty{TStr, TStr, TInt, TBool, TFloat, TLInt}[g.n(6, "catTy")]
		return Bin("+", g.Expr(TStr, sc, d-1, false), g.Expr(rt, sc, d-1, false))
	case c < 45:
		rt := []Ty{TInt, TBool, TFloat, TLInt, TStr, TRec}[g.n(6, "strOf")]
		return g.scall(sc, "string", g.Expr(rt, sc, d-1, true))
	case c < 60:
		meth := []string{"toUpper", "toLower", "trim", "string"}[g.n(4, "smeth")]
		return MCall(g.Expr(TStr, sc, d-1, false), meth)
	case c < 70:
		return MCall(g.Expr(TStr, sc, d-1, false), "cut", Int(g.n(3, "pos")), Int(g.n(4, "len")))
	case c < 80:
		return MCall(g.Expr(TStr, sc, d-1, false), "replace", g.Expr(TStr, sc, d-2, true), g.Expr(TStr, sc, d-2, true))
	case c < 90:
		return MCall(g.Expr([]Ty{TInt, TLInt, TBool, TRec, TFloat}[g.n(5, "strRecv")], sc, d-1, false), "string")
	default:
		return g.leaf(TStr, sc)
	}
}

func (g *Gen) genBool(sc *Scope, d int) *Expr {
	if g.C.Host && g.chance(5, "hostOperandBool") {
		return g.hostOperand(true)
	}
	c := g.n(100, "boolProd")
	switch {
	case c < 35:
		op := []string{"<", ">", "<=", ">=", "=", "!="}[g.n(6, "cmp")]
		t := []Ty{TInt, TInt, TInt, TFloat, TStr}[g.n(5, "cmpTy")]
		if t == TFloat && g.chance(40, "mixedCmp") {
			return Bin(op, g.Expr(TInt, sc, d-1, false), g.Expr(TFloat, sc, d-1, false))
		}
		return Bin(op, g.Expr(t, sc, d-1, false), g.Expr(t, sc, d-1, false))
	case c < 55:
		op := []string{"&", "|"}[g.n(2, "logic")]
		return Bin(op, g.Expr(TBool, sc, d-1, false), g.Expr(TBool, sc, d-1, false))
	case c < 63:
		return Un("!", g.Expr(TBool, sc, d-1, false))
	case c < 70:
		return Bin("=", g.Expr(TLInt, sc, d-1, false), g.Expr(TLInt, sc, d-1, false))
	case c < 75:
		return Bin("=", g.Expr(TRec, sc, d-1, false), g.Expr(TRec, sc, d-1, false))
	case c < 78:
		return Bin("~", g.Expr(TInt, sc, d-1, false), g.Expr(TLInt, sc, d-1, false))
	case c < 82:
		// the list form: every item of the left list occurs in the right list
		return Bin("~", g.Expr(TLInt, sc, d-1, false), g.Expr(TLInt, sc, d-1, false))
	case c < 86:
		return Bin("~", Str([]string{"a", "b", "c"}[g.n(3, "key")]), g.Expr(TRec, sc, d-1, false))
	case c < 90:
		return MCall(g.Expr(TLInt, sc, d-1, false), "present", g.lamBool(sc, d-1))
	case c < 94:
		return MCall(g.Expr(TRec, sc, d-1, false), "isAvail", Str([]string{"a", "b", "c"}[g.n(3, "key")]))
	case c < 97:
		return g.scall(sc, []string{"isInt", "isFloat"}[g.n(2, "isfn")], g.Expr([]Ty{TInt, TFloat}[g.n(2, "isTy")], sc, d-1, true))
	default:
		return MCall(g.Expr(TStr, sc, d-1, false), "contains", g.Expr(TStr, sc, d-1, true))
	}
}

func (g *Gen) genLInt(sc *Scope, d int) *Expr {
	if g.failOK && g.chance(10, "partialList") {
		// a lazy list over constants whose closure fails at one element (or at none): the
		// list is argument independent, so it is shared by all evaluations of the function;
		// consumers that need only a prefix succeed, the others fail - every time
		g.Stats["partial_constant_list"]++
		k := 2 + g.n(4, "plLen")
		items := make([]*Expr, k)
		for i := range items {
			items[i] = Int(rapid.IntRange(0, 5).Draw(g.T, "plItem"))
		}
		g.nodes += k + 4
		p := g.freshNames(sc, 1)
		v := Var(p[0])
		var body *Expr
		if g.chance(50, "plThrow") {
			body = If(Bin("=", v, Int(rapid.IntRange(0, 5).Draw(g.T, "plFailAt"))), SCall("throw", Str(g.newToken())), Bin("+", v, Int(1)))
		} else {
			body = Bin("%", Int(12), v) // fails at the item 0
		}
		return MCall(List(items...), "map", Lam(p, body))
	}
	c := g.n(100, "listProd")
	switch {
	case c < 20:
		k := g.n(4, "llen")
		items := make([]*Expr, k)
		for i := range items {
			items[i] = g.Expr(TInt, sc, d-1, true)
		}
		return List(items...)
	case c < 35:
		g.Stats["list_map"]++
		return MCall(g.Expr(TLInt, sc, d-1, false), "map", g.lamInt(sc, d-1))
	case c < 43:
		return MCall(g.Expr(TLInt, sc, d-1, false), "accept", g.lamBool(sc, d-1))
	case c < 50:
		return Bin("+", g.Expr(TLInt, sc, d-1, false), g.Expr(TLInt, sc, d-1, false))
	case c < 57:
		return MCall(g.Expr(TLInt, sc, d-1, false), "append", g.Expr(TInt, sc, d-1, true))
	case c < 62:
		return MCall(g.Expr(TLInt, sc, d-1, false), []string{"reverse", "eval"}[g.n(2, "lm0")])
	case c < 70:
		return MCall(g.Expr(TLInt, sc, d-1, false), []string{"top", "skip"}[g.n(2, "lm1")], Int(g.n(4, "n")))
	case c < 76:
		return g.scall(sc, "numbers", Int(g.n(6, "numbers")))
	case c < 82:
		return MCall(g.Expr(TLInt, sc, d-1, false), "combine", g.lam2(sc, d-1, TInt, TInt, TInt))
	case c < 85:
		return MCall(g.Expr(TLInt, sc, d-1, false), "number", g.lam2(sc, d-1, TInt, TInt, TInt))
	case c < 87:
		// compact with an equivalence relation (equal, or equal modulo 2)
		p := g.freshNames(sc, 2)
		if p[0] == p[1] {
			p[1] = p[1] + "_"
		}
		eq := Bin("=", Var(p[0]), Var(p[1]))
		if g.chance(30, "compactMod") {
			eq = Bin("=", Bin("%", Var(p[0]), Int(2)), Bin("%", Var(p[1]), Int(2)))
		}
		return MCall(g.Expr(TLInt, sc, d-1, false), "compact", Lam(p, eq))
	case c < 92:
		// order with the identity key: a total order on ints, ties are identical items
		p := g.freshNames(sc, 1)
		return MCall(g.Expr(TLInt, sc, d-1, false), []string{"order", "orderRev"}[g.n(2, "ord")], Lam(p, Var(p[0])))
	case c < 96:
		return MCall(g.Expr(TLInt, sc, d-1, false), "set", Int(g.n(3, "setIdx")), g.Expr(TInt, sc, d-1, true))
	default:
		return MCall(g.Expr(TLInt, sc, d-1, false), "iir", g.lamInt(sc, d-1), g.lam2(sc, d-1, TInt, TInt, TInt))
	}
}

func (g *Gen) genRec(sc *Scope, d int) *Expr {
	c := g.n(100, "recProd")
	switch {
	case c < 40:
		return Map([]string{"a", "b"}, []*Expr{g.Expr(TInt, sc, d-1, true), g.Expr(TInt, sc, d-1, true)})
	case c < 55:
		// {a:..} + {b:..}: disjoint merge
		return Bin("+", Map([]string{"a"}, []*Expr{g.Expr(TInt, sc, d-1, true)}), Map([]string{"b"}, []*Expr{g.Expr(TInt, sc, d-1, true)}))
	case c < 70:
		return MCall(Map([]string{"a"}, []*Expr{g.Expr(TInt, sc, d-1, true)}), "put", Str("b"), g.Expr(TInt, sc, d-1, true))
	case c < 85:
		ps := g.freshNames(sc, 2)
		body := g.Expr(TInt, sc.fn([]Binding{{ps[0], TStr}, {ps[1], TInt}}), d-1, true)
		return MCall(g.Expr(TRec, sc, d-1, false), "map", Lam(ps, body))
	default:
		p := g.freshNames(sc, 1)
		inner := sc.fn([]Binding{{p[0], TRec}})
		return MCall(g.Expr(TRec, sc, d-1, false), "replace", Lam(p, Map([]string{"a"}, []*Expr{g.Expr(TInt, inner, d-1, true)})))
	}
}

func (g *Gen) genFn(t Ty, sc *Scope, d int) *Expr {
	switch t {
	case TFn1:
		if g.chance(25, "partial") {
			// a closure returned from a curried function
			g.Stats["closure_returned"]++
			return Call(g.callee(TCur, sc, d-1), g.Expr(TInt, sc, d-1, true))
		}
		return g.lamInt(sc, d-1)
	case TFn2:
		return g.lam2(sc, d-1, TInt, TInt, TInt)
	case TCur:
		p := g.freshNames(sc, 1)
		inner := sc.fn([]Binding{{p[0], TInt}})
		q := g.freshNames(inner, 1)
		inner2 := inner.fn([]Binding{{q[0], TInt}})
		g.Stats["nested_closure"]++
		return Lam(p, Lam(q, g.Expr(TInt, inner2, d-1, true)))
	case TRecF:
		return Map([]string{"v", "f"}, []*Expr{g.Expr(TInt, sc, d-1, true), g.lamInt(sc, d-1)})
	case TRecG, TRecI:
		p := g.freshNames(sc, 1)
		return Map([]string{"v", RecField(t)}, []*Expr{g.Expr(TInt, sc, d-1, true), Lam(p, g.Expr(TInt, sc.fn([]Binding{{p[0], TStr}}), d-1, true))})
	}
	panic("genFn")
}

// Program is a generated program with the signature of its top-level function.
type Program struct {
	Body     *Expr    `json:"body"`
	ArgNames []string `json:"arg_names"`
	ArgTypes []Ty     `json:"arg_types"`
	ResType  Ty       `json:"res_type"`
}

// GenProgram draws a program with 1..3 arguments.
func (g *Gen) GenProgram() Program {
	k := 1 + g.n(3, "nargs")
	names := []string{"x", "y", "z"}[:k]
	if len(g.C.ArgNames) >= k {
		names = g.C.ArgNames[:k]
	}
	sc := &Scope{Frame: map[string]bool{}}
	var tys []Ty
	for i := 0; i < k; i++ {
		choices := ArgTypes
		if g.C.FnArgs {
			choices = append(append([]Ty{}, ArgTypes...), TFn1, TFn1, TFn1, TFn1, TFn1, TFn1)
		}
		t := choices[g.n(len(choices), "argType")]
		if i == 0 && g.chance(60, "firstInt") {
			t = TInt
		}
		tys = append(tys, t)
		sc = sc.with(Binding{names[i], t}, true)
	}
	res := []Ty{TInt, TInt, TInt, TFloat, TStr, TBool, TLInt, TRec, TFn1}[g.n(9, "resTy")]
	d := 2 + g.n(g.C.MaxDepth-1, "depth")
	body := g.Expr(res, sc, d, true)
	return Program{Body: body, ArgNames: names, ArgTypes: tys, ResType: res}
}
