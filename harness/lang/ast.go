// Package lang is the harness' own AST of the value expression language, with a
// renderer to program text and generators. The reference interpreter (package ref)
// runs on this AST; the implementation under test only ever sees the rendered text.
package lang

// Expr is a node of the program AST. One struct with a kind tag keeps the cases
// JSON-serialisable (replay files store whole programs).
type Expr struct {
	K string `json:"k"`
	// S: literal text / identifier / operator / method or field name / let or func name
	S string `json:"s,omitempty"`
	// I, F, B: literal payloads
	I int     `json:"i,omitempty"`
	F float64 `json:"f,omitempty"`
	B bool    `json:"b,omitempty"`
	// Names: closure/func parameter names, map literal keys
	Names []string `json:"n,omitempty"`
	// X: sub-expressions, meaning depends on K (see constructors)
	X []*Expr `json:"x,omitempty"`
	// P: render this node in parentheses although not required (layout variety)
	P bool `json:"p,omitempty"`
	// Z: spell a non-negative int literal with this many leading zeros (it stays decimal)
	Z int `json:"z,omitempty"`
}

const (
	KInt    = "int"    // I
	KFloat  = "float"  // F
	KStr    = "str"    // S
	KVar    = "var"    // S (also true/false/pi)
	KUn     = "un"     // S op, X[0]
	KBin    = "bin"    // S op, X[0], X[1]
	KLet    = "let"    // S name, X[0] value, X[1] body
	KFunc   = "func"   // S name, Names params, X[0] function body, X[1] rest
	KLam    = "lam"    // Names params, X[0] body
	KCall   = "call"   // X[0] callee, X[1:] args
	KSCall  = "scall"  // S static function, X args
	KMCall  = "mcall"  // S method, X[0] receiver, X[1:] args
	KIf     = "if"     // X[0] cond, X[1] then, X[2] else
	KSwitch = "switch" // X[0] value, X[1..2n] pairs (const, result), X[last] default
	KTry    = "try"    // X[0] try, X[1] catch
	KList   = "list"   // X items
	KMap    = "map"    // Names keys, X values
	KIndex  = "index"  // X[0] list, X[1] index
	KMember = "member" // S key, X[0] map
)

func Int(i int) *Expr       { return &Expr{K: KInt, I: i} }
func Float(f float64) *Expr { return &Expr{K: KFloat, F: f} }
func Str(s string) *Expr    { return &Expr{K: KStr, S: s} }
func Var(n string) *Expr    { return &Expr{K: KVar, S: n} }
func Bool(b bool) *Expr {
	if b {
		return Var("true")
	}
	return Var("false")
}
func Un(op string, x *Expr) *Expr       { return &Expr{K: KUn, S: op, X: []*Expr{x}} }
func Bin(op string, a, b *Expr) *Expr   { return &Expr{K: KBin, S: op, X: []*Expr{a, b}} }
func Let(n string, v, body *Expr) *Expr { return &Expr{K: KLet, S: n, X: []*Expr{v, body}} }
func Func(n string, params []string, fbody, rest *Expr) *Expr {
	return &Expr{K: KFunc, S: n, Names: params, X: []*Expr{fbody, rest}}
}
func Lam(params []string, body *Expr) *Expr  { return &Expr{K: KLam, Names: params, X: []*Expr{body}} }
func Call(f *Expr, args ...*Expr) *Expr      { return &Expr{K: KCall, X: append([]*Expr{f}, args...)} }
func SCall(name string, args ...*Expr) *Expr { return &Expr{K: KSCall, S: name, X: args} }
func MCall(recv *Expr, name string, args ...*Expr) *Expr {
	return &Expr{K: KMCall, S: name, X: append([]*Expr{recv}, args...)}
}
func If(c, t, e *Expr) *Expr { return &Expr{K: KIf, X: []*Expr{c, t, e}} }
func Switch(v *Expr, pairs []*Expr, def *Expr) *Expr {
	x := append([]*Expr{v}, pairs...)
	return &Expr{K: KSwitch, X: append(x, def)}
}
func Try(t, c *Expr) *Expr                  { return &Expr{K: KTry, X: []*Expr{t, c}} }
func List(items ...*Expr) *Expr             { return &Expr{K: KList, X: items} }
func Map(keys []string, vals []*Expr) *Expr { return &Expr{K: KMap, Names: keys, X: vals} }
func Index(l, i *Expr) *Expr                { return &Expr{K: KIndex, X: []*Expr{l, i}} }
func Member(m *Expr, key string) *Expr      { return &Expr{K: KMember, S: key, X: []*Expr{m}} }

// Walk visits every node (pre-order).
func (e *Expr) Walk(f func(*Expr)) {
	if e == nil {
		return
	}
	f(e)
	for _, x := range e.X {
		x.Walk(f)
	}
}

// Size is the number of nodes.
func (e *Expr) Size() int {
	n := 0
	e.Walk(func(*Expr) { n++ })
	return n
}
