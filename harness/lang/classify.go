package lang

// Classify returns syntactic classes of a program (used for the coverage histogram
// and for the generator health checks).
func Classify(e *Expr) map[string]bool {
	out := map[string]bool{}
	var walk func(e *Expr, inArg string, condInArg bool, lamDepth int)
	walk = func(e *Expr, inArg string, condInArg bool, lamDepth int) {
		if e == nil {
			return
		}
		switch e.K {
		case KInt:
			if e.Z > 0 {
				out["int_literal_with_leading_zeros"] = true
			}
		case KLet, KFunc:
			if inArg != "" {
				out["binding_in_"+inArg] = true
				if condInArg {
					out["binding_in_cond_in_arg"] = true
				}
			}
			if e.K == KFunc {
				out["func"] = true
				rec := false
				e.X[0].Walk(func(x *Expr) {
					if x.K == KCall && x.X[0].K == KVar && x.X[0].S == e.S {
						rec = true
					}
				})
				if rec {
					out["recursion"] = true
				}
			} else {
				out["let"] = true
			}
		case KLam:
			lamDepth++
			if lamDepth == 2 {
				out["closure_depth_2"] = true
			}
			if lamDepth >= 3 {
				out["closure_depth_3plus"] = true
			}
			if inArg != "" {
				out["lambda_in_arg"] = true
			}
		case KIf, KSwitch, KTry:
			out[e.K] = true
			if inArg != "" {
				condInArg = true
			}
		}
		switch e.K {
		case KCall:
			if e.X[0].K == KCall {
				out["currying"] = true
			}
			walk(e.X[0], inArg, condInArg, lamDepth)
			for i, a := range e.X[1:] {
				if i == 0 {
					walk(a, "first_call_arg", false, lamDepth)
				} else {
					walk(a, "later_call_arg", false, lamDepth)
				}
			}
		case KSCall:
			for i, a := range e.X {
				if i == 0 {
					walk(a, "first_static_arg", false, lamDepth)
				} else {
					walk(a, "later_static_arg", false, lamDepth)
				}
			}
		case KMCall:
			if e.S == "f" {
				out["closure_in_map_call"] = true
			}
			if (e.S == "get" || e.S == "isAvail") && len(e.X) == 2 && (e.X[0].K == KMap || e.X[0].K == KVar) && len(e.X[0].Names) != 1 {
				out["closure_in_map_call"] = true
				out["closure_field_named_like_a_map_method"] = true
			}
			walk(e.X[0], inArg, condInArg, lamDepth)
			for _, a := range e.X[1:] {
				walk(a, "method_arg", false, lamDepth)
			}
		case KList:
			for i, a := range e.X {
				if i == 0 {
					walk(a, "first_list_item", false, lamDepth)
				} else {
					walk(a, "later_list_item", false, lamDepth)
				}
			}
		case KMap:
			for _, a := range e.X {
				walk(a, "map_value", false, lamDepth)
			}
		case KLam:
			// a closure body starts a new stack frame: bindings inside are not "in an argument"
			walk(e.X[0], "", false, lamDepth)
		case KFunc:
			walk(e.X[0], "", false, lamDepth+1)
			walk(e.X[1], inArg, condInArg, lamDepth)
		default:
			for _, x := range e.X {
				walk(x, inArg, condInArg, lamDepth)
			}
		}
	}
	walk(e, "", false, 0)
	return out
}

// Mentions reports whether any of the names occurs as a variable.
func (e *Expr) Mentions(names ...string) bool {
	found := false
	e.Walk(func(x *Expr) {
		if x.K == KVar {
			for _, n := range names {
				if x.S == n {
					found = true
				}
			}
		}
	})
	return found
}

// ShadowClasses reports how a program redeclares names that are visible from an
// enclosing function (arguments of the top-level function, outer lets, funcs and
// parameters): legal shadowing, as opposed to the redeclaration inside one function
// body that the compiler rejects.
func ShadowClasses(body *Expr, args []string) map[string]bool {
	out := map[string]bool{}
	type set = map[string]bool
	with := func(s set, names ...string) set {
		n := set{}
		for k := range s {
			n[k] = true
		}
		for _, k := range names {
			n[k] = true
		}
		return n
	}
	var walk func(e *Expr, outer, frame, redeclared set)
	fn := func(params []string, fbody *Expr, outer, frame set, self string) {
		o := with(outer)
		for k := range frame {
			o[k] = true
		}
		if self != "" {
			o[self] = true
		}
		for _, p := range params {
			if o[p] {
				out["parameter_shadows_a_name_of_an_enclosing_function"] = true
			}
		}
		walk(fbody, o, with(set{}, params...), set{})
	}
	walk = func(e *Expr, outer, frame, redeclared set) {
		if e == nil {
			return
		}
		switch e.K {
		case KLet:
			walk(e.X[0], outer, frame, redeclared)
			rd := redeclared
			if outer[e.S] && !frame[e.S] {
				out["let_redeclares_a_name_of_an_enclosing_function"] = true
				if e.X[0].Mentions(e.S) {
					out["let_value_reads_the_outer_name_it_redeclares"] = true
				}
				rd = with(redeclared, e.S)
			}
			walk(e.X[1], outer, with(frame, e.S), rd)
		case KFunc:
			rd := redeclared
			if outer[e.S] && !frame[e.S] {
				out["func_redeclares_a_name_of_an_enclosing_function"] = true
				rd = with(redeclared, e.S)
			}
			fn(e.Names, e.X[0], outer, frame, e.S)
			walk(e.X[1], outer, with(frame, e.S), rd)
		case KLam:
			for n := range redeclared {
				if e.X[0].Mentions(n) {
					out["closure_captures_a_redeclared_name"] = true
				}
			}
			fn(e.Names, e.X[0], outer, frame, "")
		default:
			for _, x := range e.X {
				walk(x, outer, frame, redeclared)
			}
		}
	}
	walk(body, set{}, with(set{}, args...), set{})
	return out
}
