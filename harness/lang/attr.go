package lang

// RewriteAttrs returns a copy of e in which every free occurrence of one of the
// attribute names is written as member access on mapName (exp -> exp' of C16). Locals
// (let, func names, parameters) shadow attributes; constants and static functions are
// never attributes (the caller does not list them).
func RewriteAttrs(e *Expr, mapName string, attrs map[string]bool) *Expr {
	return rewrite(e, mapName, attrs, nil)
}

type bound struct {
	name string
	next *bound
}

func (b *bound) has(n string) bool {
	for p := b; p != nil; p = p.next {
		if p.name == n {
			return true
		}
	}
	return false
}

func rewrite(e *Expr, mapName string, attrs map[string]bool, b *bound) *Expr {
	if e == nil {
		return nil
	}
	c := *e
	c.X = make([]*Expr, len(e.X))
	switch e.K {
	case KVar:
		if attrs[e.S] && !b.has(e.S) {
			return Member(Var(mapName), e.S)
		}
		return &c
	case KLet:
		c.X[0] = rewrite(e.X[0], mapName, attrs, b)
		c.X[1] = rewrite(e.X[1], mapName, attrs, &bound{e.S, b})
		return &c
	case KFunc:
		inner := &bound{e.S, b}
		for _, p := range e.Names {
			inner = &bound{p, inner}
		}
		c.X[0] = rewrite(e.X[0], mapName, attrs, inner)
		c.X[1] = rewrite(e.X[1], mapName, attrs, &bound{e.S, b})
		return &c
	case KLam:
		inner := b
		for _, p := range e.Names {
			inner = &bound{p, inner}
		}
		c.X[0] = rewrite(e.X[0], mapName, attrs, inner)
		return &c
	}
	for i, x := range e.X {
		c.X[i] = rewrite(x, mapName, attrs, b)
	}
	return &c
}

// AttrUseInClosure reports whether a free attribute occurrence lies inside a closure
// or func body.
func AttrUseInClosure(e *Expr, attrs map[string]bool) bool {
	found := false
	var walk func(e *Expr, b *bound, inFn bool)
	walk = func(e *Expr, b *bound, inFn bool) {
		if e == nil {
			return
		}
		switch e.K {
		case KVar:
			if attrs[e.S] && !b.has(e.S) && inFn {
				found = true
			}
		case KLet:
			walk(e.X[0], b, inFn)
			walk(e.X[1], &bound{e.S, b}, inFn)
		case KFunc:
			inner := &bound{e.S, b}
			for _, p := range e.Names {
				inner = &bound{p, inner}
			}
			walk(e.X[0], inner, true)
			walk(e.X[1], &bound{e.S, b}, inFn)
		case KLam:
			inner := b
			for _, p := range e.Names {
				inner = &bound{p, inner}
			}
			walk(e.X[0], inner, true)
		default:
			for _, x := range e.X {
				walk(x, b, inFn)
			}
		}
	}
	walk(e, nil, false)
	return found
}
