package lang

import (
	"strconv"
	"strings"
	"unicode"

	"verif/harness/pratt"
)

// BinOps is the operator table of the value language in ascending priority (every
// operator has its own level, as declared in value.New()).
var BinOps = []string{"|", "&", "=", "!=", "~", "<", ">", "<=", ">=", "+", "-", "<<", ">>", "*", "%", "/", "^"}

// ValueTable is the operator table of the value language for the reference parser.
var ValueTable = pratt.Table{Bin: BinOps, Prefix: []string{"-", "!"}, Keywords: true}

var Keywords = map[string]bool{"let": true, "func": true, "if": true, "then": true, "else": true, "switch": true, "case": true,
	"default": true, "const": true, "try": true, "catch": true}

func Prio(op string) int {
	for i, o := range BinOps {
		if o == op {
			return i
		}
	}
	return -1
}

type ctx int

const (
	ctxLet     ctx = iota // a position parsed by parseLet: everything may stand bare
	ctxExpr               // a position parsed by parseExpression: no bare let/func
	ctxOperand            // operand of an operator, receiver of a postfix form
)

// emitter collects the tokens of the rendered program.
type emitter struct {
	toks []pratt.Tok
}

func (e *emitter) kw(s string)  { e.toks = append(e.toks, pratt.Tok{Kind: "kw", Text: s}) }
func (e *emitter) op(s string)  { e.toks = append(e.toks, pratt.Tok{Kind: "op", Text: s}) }
func (e *emitter) p(s string)   { e.toks = append(e.toks, pratt.Tok{Kind: s}) }
func (e *emitter) num(s string) { e.toks = append(e.toks, pratt.Tok{Kind: "num", Text: s}) }
func (e *emitter) str(s string) { e.toks = append(e.toks, pratt.Tok{Kind: "str", Text: s}) }
func (e *emitter) id(s string) {
	e.toks = append(e.toks, pratt.Tok{Kind: "id", Text: s, Quoted: !IsPlainIdent(s)})
}

// Tokens renders the program as a token list. Parentheses are minimal with respect to
// the grammar (plus the redundant ones requested by Expr.P).
func Tokens(e *Expr) []pratt.Tok {
	em := &emitter{}
	render(em, e, ctxLet)
	return em.toks
}

// JoinPretty joins tokens with blanks where a lexer needs them, around binary
// operators and keywords and behind commas, colons and semicolons.
func JoinPretty(toks []pratt.Tok) string {
	var b strings.Builder
	prefix := map[int]bool{}
	// an operator is a prefix operator if it stands at the start or behind an operator,
	// a keyword or an opening/separating token
	for i, t := range toks {
		if t.Kind == "op" && t.Text != "->" {
			if i == 0 {
				prefix[i] = true
			} else {
				switch toks[i-1].Kind {
				case "op", "kw", "(", "[", "{", ",", ":", ";":
					prefix[i] = true
				}
			}
		}
	}
	for i, t := range toks {
		if i > 0 {
			a := toks[i-1]
			sp := ValueTable.NeedBlank(a, t)
			if (t.Kind == "op" && !prefix[i]) || (a.Kind == "op" && !prefix[i-1]) {
				sp = true
			}
			if a.Kind == "," || a.Kind == ";" || a.Kind == ":" || t.Kind == "kw" || a.Kind == "kw" {
				sp = true
			}
			if t.Kind == "," || t.Kind == ";" || t.Kind == ")" || t.Kind == "]" || t.Kind == ":" {
				sp = ValueTable.NeedBlank(a, t)
			}
			if sp {
				b.WriteByte(' ')
			}
		}
		b.WriteString(pratt.TokText(t))
	}
	return b.String()
}

// Render produces program text.
func Render(e *Expr) string {
	return JoinPretty(Tokens(e))
}

func isPostfixBase(e *Expr) bool {
	switch e.K {
	case KVar, KStr, KList, KMap, KCall, KSCall, KMCall, KIndex, KMember:
		return true
	}
	return false
}

// endsOpen: the text of e (rendered without own parentheses) ends with the operand of
// a unary minus, which would swallow a following operator of priority > prio("-").
func endsOpen(e *Expr) int {
	if e.P {
		return -1
	}
	switch e.K {
	case KUn:
		if e.S == "-" {
			return Prio("-")
		}
		return endsOpen(e.X[0])
	case KBin:
		if operandParens(e.X[1], Prio(e.S), true) {
			return -1
		}
		return endsOpen(e.X[1])
	}
	return -1
}

func operandParens(c *Expr, p int, right bool) bool {
	if c.P {
		return true
	}
	switch c.K {
	case KBin:
		cp := Prio(c.S)
		if right {
			return cp <= p
		}
		return cp < p
	case KUn:
		if c.S == "-" && !right {
			return p > Prio("-")
		}
		return false
	case KIf, KSwitch, KTry, KLam, KLet, KFunc:
		return true
	}
	return false
}

func wrap(b *emitter, e *Expr, parens bool, c ctx) {
	if parens {
		b.p("(")
		// inside parentheses parseExpression is used
		renderNoP(b, e, ctxExpr)
		b.p(")")
	} else {
		renderNoP(b, e, c)
	}
}

func render(b *emitter, e *Expr, c ctx) {
	if e.P && e.K != KLet && e.K != KFunc {
		b.p("(")
		renderNoP(b, e, ctxExpr)
		b.p(")")
		return
	}
	renderNoP(b, e, c)
}

func QuoteStr(s string) string {
	return pratt.TokText(pratt.Tok{Kind: "str", Text: s})
}

func IsPlainIdent(s string) bool {
	if s == "" || Keywords[s] {
		return false
	}
	for i, r := range s {
		if !(unicode.IsLetter(r) || r == '_' || (i > 0 && unicode.IsDigit(r))) {
			return false
		}
	}
	return true
}

func RenderKey(k string) string {
	if IsPlainIdent(k) {
		return k
	}
	return "'" + k + "'"
}

func FloatLit(f float64) string {
	s := strconv.FormatFloat(f, 'f', -1, 64)
	if !strings.ContainsAny(s, ".") {
		s += ".0"
	}
	return s
}

func renderArgs(b *emitter, args []*Expr) {
	for i, a := range args {
		if i > 0 {
			b.p(",")
		}
		render(b, a, ctxLet)
	}
}

func renderRecv(b *emitter, r *Expr) {
	if r.P || !isPostfixBase(r) {
		b.p("(")
		renderNoP(b, r, ctxExpr)
		b.p(")")
		return
	}
	renderNoP(b, r, ctxOperand)
}

func renderNoP(b *emitter, e *Expr, c ctx) {
	switch e.K {
	case KInt:
		if e.I < 0 {
			b.p("(")
			b.op("-")
			b.num(strconv.Itoa(-e.I))
			b.p(")")
		} else {
			b.num(strings.Repeat("0", e.Z) + strconv.Itoa(e.I))
		}
	case KFloat:
		if e.F < 0 {
			b.p("(")
			b.op("-")
			b.num(FloatLit(-e.F))
			b.p(")")
		} else {
			b.num(FloatLit(e.F))
		}
	case KStr:
		b.str(e.S)
	case KVar:
		b.id(e.S)
	case KUn:
		b.op(e.S)
		ch := e.X[0]
		var parens bool
		if e.S == "-" {
			switch ch.K {
			case KBin:
				parens = Prio(ch.S) <= Prio("-")
			case KUn, KIf, KSwitch, KTry, KLam:
				parens = true
			}
		} else {
			parens = !(isPostfixBase(ch) || (ch.K == KInt && ch.I >= 0) || (ch.K == KFloat && ch.F >= 0))
			if (ch.K == KInt && ch.I < 0) || (ch.K == KFloat && ch.F < 0) {
				parens = false // the literal renders its own parentheses
			}
		}
		if ch.P {
			parens = true
		}
		wrap(b, ch, parens, ctxOperand)
	case KBin:
		p := Prio(e.S)
		l, r := e.X[0], e.X[1]
		lp := operandParens(l, p, false)
		if !lp && endsOpen(l) > -1 && p > endsOpen(l) {
			lp = true
		}
		wrap(b, l, lp, ctxOperand)
		b.op(e.S)
		wrap(b, r, operandParens(r, p, true), ctxOperand)
	case KLet:
		if c != ctxLet {
			panic("lang: let in a position where the grammar does not allow it")
		}
		b.kw("let")
		b.id(e.S)
		b.op("=")
		render(b, e.X[0], ctxExpr)
		b.p(";")
		render(b, e.X[1], ctxLet)
	case KFunc:
		if c != ctxLet {
			panic("lang: func in a position where the grammar does not allow it")
		}
		b.kw("func")
		b.id(e.S)
		b.p("(")
		for i, n := range e.Names {
			if i > 0 {
				b.p(",")
			}
			b.id(n)
		}
		b.p(")")
		render(b, e.X[0], ctxLet)
		b.p(";")
		render(b, e.X[1], ctxLet)
	case KLam:
		if c == ctxOperand {
			panic("lang: bare lambda as operand")
		}
		if len(e.Names) == 1 {
			b.id(e.Names[0])
		} else {
			b.p("(")
			for i, n := range e.Names {
				if i > 0 {
					b.p(",")
				}
				b.id(n)
			}
			b.p(")")
		}
		b.op("->")
		render(b, e.X[0], ctxLet)
	case KCall:
		renderRecv(b, e.X[0])
		b.p("(")
		renderArgs(b, e.X[1:])
		b.p(")")
	case KSCall:
		b.id(e.S)
		b.p("(")
		renderArgs(b, e.X)
		b.p(")")
	case KMCall:
		renderRecv(b, e.X[0])
		b.p(".")
		b.id(e.S)
		b.p("(")
		renderArgs(b, e.X[1:])
		b.p(")")
	case KIf:
		if c == ctxOperand {
			panic("lang: bare if as operand")
		}
		b.kw("if")
		render(b, e.X[0], ctxExpr)
		b.kw("then")
		render(b, e.X[1], ctxLet)
		b.kw("else")
		render(b, e.X[2], ctxLet)
	case KSwitch:
		if c == ctxOperand {
			panic("lang: bare switch as operand")
		}
		b.kw("switch")
		render(b, e.X[0], ctxExpr)
		n := len(e.X)
		for i := 1; i+1 <= n-1; i += 2 {
			b.kw("case")
			render(b, e.X[i], ctxExpr)
			b.p(":")
			render(b, e.X[i+1], ctxLet)
		}
		b.kw("default")
		render(b, e.X[n-1], ctxLet)
	case KTry:
		if c == ctxOperand {
			panic("lang: bare try as operand")
		}
		b.kw("try")
		render(b, e.X[0], ctxLet)
		b.kw("catch")
		render(b, e.X[1], ctxLet)
	case KList:
		b.p("[")
		renderArgs(b, e.X)
		b.p("]")
	case KMap:
		b.p("{")
		for i, k := range e.Names {
			if i > 0 {
				b.p(",")
			}
			b.id(k)
			b.p(":")
			render(b, e.X[i], ctxLet)
		}
		b.p("}")
	case KIndex:
		renderRecv(b, e.X[0])
		b.p("[")
		render(b, e.X[1], ctxExpr)
		b.p("]")
	case KMember:
		renderRecv(b, e.X[0])
		b.p(".")
		b.id(e.S)
	default:
		panic("lang: unknown node kind " + e.K)
	}
}
