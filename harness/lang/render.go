package lang

import (
	"strconv"
	"strings"
	"unicode"
)

// BinOps is the operator table of the value language in ascending priority (every
// operator has its own level, as declared in value.New()).
var BinOps = []string{"|", "&", "=", "!=", "~", "<", ">", "<=", ">=", "+", "-", "<<", ">>", "*", "%", "/", "^"}

var Keywords = map[string]bool{"let": true, "func": true, "if": true, "then": true, "else": true, "switch": true, "case": true,
	"default": true, "const": true, "try": true, "catch": true}

func Prio(op string) int {
	for i, o := range BinOps {
		if o == op {
			return i
		}
	}
	return -1
}

type ctx int

const (
	ctxLet     ctx = iota // a position parsed by parseLet: everything may stand bare
	ctxExpr               // a position parsed by parseExpression: no bare let/func
	ctxOperand            // operand of an operator, receiver of a postfix form
)

// Render produces program text. Parentheses are minimal with respect to the grammar
// (plus the redundant ones requested by Expr.P).
func Render(e *Expr) string {
	var b strings.Builder
	render(&b, e, ctxLet)
	return b.String()
}

func isPostfixBase(e *Expr) bool {
	switch e.K {
	case KVar, KStr, KList, KMap, KCall, KSCall, KMCall, KIndex, KMember:
		return true
	}
	return false
}

// endsOpen: the text of e (rendered without own parentheses) ends with the operand of
// a unary minus, which would swallow a following operator of priority > prio("-"); or
// ends with a construct that extends to the right without bound (lambda body, else
// branch, catch, default), reported as 1000.
func endsOpen(e *Expr) int {
	if e.P {
		return -1
	}
	switch e.K {
	case KUn:
		if e.S == "-" {
			return Prio("-")
		}
		return endsOpen(e.X[0])
	case KBin:
		if operandParens(e.X[1], Prio(e.S), true) {
			return -1
		}
		return endsOpen(e.X[1])
	case KInt:
		if e.I < 0 {
			return -1 // rendered in parentheses
		}
	}
	return -1
}

func operandParens(c *Expr, p int, right bool) bool {
	if c.P {
		return true
	}
	switch c.K {
	case KBin:
		cp := Prio(c.S)
		if right {
			return cp <= p
		}
		return cp < p
	case KUn:
		if c.S == "-" && !right {
			return p > Prio("-")
		}
		return false
	case KIf, KSwitch, KTry, KLam, KLet, KFunc:
		return true
	}
	return false
}

func wrap(b *strings.Builder, e *Expr, parens bool, c ctx) {
	if parens {
		b.WriteString("(")
		// inside parentheses parseExpression is used
		renderNoP(b, e, ctxExpr)
		b.WriteString(")")
	} else {
		renderNoP(b, e, c)
	}
}

func render(b *strings.Builder, e *Expr, c ctx) {
	if e.P && e.K != KLet && e.K != KFunc {
		b.WriteString("(")
		renderNoP(b, e, ctxExpr)
		b.WriteString(")")
		return
	}
	renderNoP(b, e, c)
}

func QuoteStr(s string) string {
	var b strings.Builder
	b.WriteByte('"')
	for _, r := range s {
		switch r {
		case '\\':
			b.WriteString(`\\`)
		case '"':
			b.WriteString(`\"`)
		case '\n':
			b.WriteString(`\n`)
		case '\r':
			b.WriteString(`\r`)
		case '\t':
			b.WriteString(`\t`)
		default:
			b.WriteRune(r)
		}
	}
	b.WriteByte('"')
	return b.String()
}

func IsPlainIdent(s string) bool {
	if s == "" || Keywords[s] {
		return false
	}
	for i, r := range s {
		if !(unicode.IsLetter(r) || r == '_' || (i > 0 && unicode.IsDigit(r))) {
			return false
		}
	}
	return true
}

func RenderKey(k string) string {
	if IsPlainIdent(k) {
		return k
	}
	return "'" + k + "'"
}

func FloatLit(f float64) string {
	s := strconv.FormatFloat(f, 'f', -1, 64)
	if !strings.ContainsAny(s, ".") {
		s += ".0"
	}
	return s
}

func renderArgs(b *strings.Builder, args []*Expr) {
	for i, a := range args {
		if i > 0 {
			b.WriteString(", ")
		}
		render(b, a, ctxLet)
	}
}

func renderRecv(b *strings.Builder, r *Expr) {
	if r.P || !isPostfixBase(r) {
		b.WriteString("(")
		renderNoP(b, r, ctxExpr)
		b.WriteString(")")
		return
	}
	renderNoP(b, r, ctxOperand)
}

func renderNoP(b *strings.Builder, e *Expr, c ctx) {
	switch e.K {
	case KInt:
		if e.I < 0 {
			b.WriteString("(-" + strconv.Itoa(-e.I) + ")")
		} else {
			b.WriteString(strconv.Itoa(e.I))
		}
	case KFloat:
		if e.F < 0 {
			b.WriteString("(-" + FloatLit(-e.F) + ")")
		} else {
			b.WriteString(FloatLit(e.F))
		}
	case KStr:
		b.WriteString(QuoteStr(e.S))
	case KVar:
		b.WriteString(RenderKey(e.S))
	case KUn:
		b.WriteString(e.S)
		ch := e.X[0]
		var parens bool
		if e.S == "-" {
			switch ch.K {
			case KBin:
				parens = Prio(ch.S) <= Prio("-")
			case KUn, KIf, KSwitch, KTry, KLam:
				parens = true
			}
		} else {
			parens = !(isPostfixBase(ch) || (ch.K == KInt && ch.I >= 0) || (ch.K == KFloat && ch.F >= 0))
			if (ch.K == KInt && ch.I < 0) || (ch.K == KFloat && ch.F < 0) {
				parens = false // literal renders its own parentheses
			}
		}
		if ch.P {
			parens = true
		}
		wrap(b, ch, parens, ctxOperand)
	case KBin:
		p := Prio(e.S)
		l, r := e.X[0], e.X[1]
		lp := operandParens(l, p, false)
		if !lp && endsOpen(l) > -1 && p > endsOpen(l) {
			lp = true
		}
		wrap(b, l, lp, ctxOperand)
		b.WriteString(" " + e.S + " ")
		wrap(b, r, operandParens(r, p, true), ctxOperand)
	case KLet:
		if c != ctxLet {
			panic("lang: let in a position where the grammar does not allow it")
		}
		b.WriteString("let " + RenderKey(e.S) + " = ")
		render(b, e.X[0], ctxExpr)
		b.WriteString("; ")
		render(b, e.X[1], ctxLet)
	case KFunc:
		if c != ctxLet {
			panic("lang: func in a position where the grammar does not allow it")
		}
		b.WriteString("func " + RenderKey(e.S) + "(")
		for i, n := range e.Names {
			if i > 0 {
				b.WriteString(", ")
			}
			b.WriteString(RenderKey(n))
		}
		b.WriteString(") ")
		render(b, e.X[0], ctxLet)
		b.WriteString("; ")
		render(b, e.X[1], ctxLet)
	case KLam:
		if c == ctxOperand {
			panic("lang: bare lambda as operand")
		}
		if len(e.Names) == 1 {
			b.WriteString(RenderKey(e.Names[0]))
		} else {
			b.WriteString("(")
			for i, n := range e.Names {
				if i > 0 {
					b.WriteString(", ")
				}
				b.WriteString(RenderKey(n))
			}
			b.WriteString(")")
		}
		b.WriteString(" -> ")
		render(b, e.X[0], ctxLet)
	case KCall:
		renderRecv(b, e.X[0])
		b.WriteString("(")
		renderArgs(b, e.X[1:])
		b.WriteString(")")
	case KSCall:
		b.WriteString(e.S + "(")
		renderArgs(b, e.X)
		b.WriteString(")")
	case KMCall:
		renderRecv(b, e.X[0])
		b.WriteString("." + RenderKey(e.S) + "(")
		renderArgs(b, e.X[1:])
		b.WriteString(")")
	case KIf:
		if c == ctxOperand {
			panic("lang: bare if as operand")
		}
		b.WriteString("if ")
		render(b, e.X[0], ctxExpr)
		b.WriteString(" then ")
		render(b, e.X[1], ctxLet)
		b.WriteString(" else ")
		render(b, e.X[2], ctxLet)
	case KSwitch:
		if c == ctxOperand {
			panic("lang: bare switch as operand")
		}
		b.WriteString("switch ")
		render(b, e.X[0], ctxExpr)
		n := len(e.X)
		for i := 1; i+1 < n-0 && i+1 <= n-1; i += 2 {
			b.WriteString(" case ")
			render(b, e.X[i], ctxExpr)
			b.WriteString(" : ")
			render(b, e.X[i+1], ctxLet)
		}
		b.WriteString(" default ")
		render(b, e.X[n-1], ctxLet)
	case KTry:
		if c == ctxOperand {
			panic("lang: bare try as operand")
		}
		b.WriteString("try ")
		render(b, e.X[0], ctxLet)
		b.WriteString(" catch ")
		render(b, e.X[1], ctxLet)
	case KList:
		b.WriteString("[")
		renderArgs(b, e.X)
		b.WriteString("]")
	case KMap:
		b.WriteString("{")
		for i, k := range e.Names {
			if i > 0 {
				b.WriteString(", ")
			}
			b.WriteString(RenderKey(k) + ": ")
			render(b, e.X[i], ctxLet)
		}
		b.WriteString("}")
	case KIndex:
		renderRecv(b, e.X[0])
		b.WriteString("[")
		render(b, e.X[1], ctxExpr)
		b.WriteString("]")
	case KMember:
		renderRecv(b, e.X[0])
		b.WriteString("." + RenderKey(e.S))
	default:
		panic("lang: unknown node kind " + e.K)
	}
}
