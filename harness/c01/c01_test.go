// Package c01: compiled evaluation equals lexically-scoped reference semantics.
package c01

import (
	"testing"

	"pgregory.net/rapid"

	"verif/harness/evid"
	"verif/harness/lang"
	"verif/harness/progs"
)

const prop = "C01"

var implOn = progs.NewImpl(true)
var implOff = progs.NewImpl(false)

func config() lang.Config {
	c := lang.Config{MaxDepth: 6, MaxNodes: 60, FailPercent: 20, ShadowStatics: true}
	if evid.Thorough() {
		c.MaxDepth, c.MaxNodes = 9, 150
	}
	return c
}

// check runs one case; returns (skipReason, message).
func check(c progs.Case) (string, string, int) {
	in := progs.NewRef()
	want := progs.RefRun(in, c)
	if why := progs.OutOfDomain(in, want); why != "" {
		return why, "", 0
	}
	for _, g := range []struct {
		name string
		on   bool
	}{{"optimizer on", true}, {"optimizer off", false}} {
		impl := implOff
		if g.on {
			impl = implOn
		}
		got := progs.ImplRun(impl, c)
		if msg := progs.Compare(want, got, 0); msg != "" {
			return "", g.name + ": " + msg, in.LocalReads
		}
	}
	return "", "", in.LocalReads
}

func TestPropC01(t *testing.T) {
	defer evid.R.Flush()
	cfg := config()
	rapid.Check(t, func(t *rapid.T) {
		g := lang.NewGen(t, cfg)
		p := g.GenProgram()
		c := progs.Case{Prog: p, Args: progs.GenArgs(t, p.ArgTypes)}
		c.Text = lang.Render(p.Body)
		skip, msg, reads := check(c)
		if skip != "" {
			evid.R.Skip()
			evid.R.Class("skipped_" + skip)
			return
		}
		if msg != "" {
			evid.Fail(t, prop, "c01", "", c, "%s\nprogram: %s\nargs: %v", msg, c.Text, c.Summary()["args"])
		}
		cls := lang.Classify(p.Body)
		names := make([]string, 0, len(cls))
		for k := range cls {
			names = append(names, k)
		}
		for k := range lang.ShadowClasses(p.Body, p.ArgNames) {
			names = append(names, k)
		}
		if g.Stats["lazy_list_read_behind_later_lets"] > 0 {
			names = append(names, "lazy_list_read_behind_later_lets")
		}
		nt := reads >= 1 && p.Body.Mentions(p.ArgNames...)
		evid.R.Case(nt, c.Text+"|"+c.Summary()["args"].(string), func() any { return c.Summary() }, names...)
	})
}

func TestReplay(t *testing.T) {
	for _, path := range evid.ReplayFiles("c01") {
		var c progs.Case
		if _, err := evid.ReadFailure(path, &c); err != nil {
			t.Fatalf("cannot read %s: %v", path, err)
		}
		if c.Text == "" {
			c.Text = lang.Render(c.Prog.Body)
		}
		_, msg, _ := check(c)
		if msg != "" {
			evid.ReplayFailed(t, path, msg)
		}
	}
}
