package c01

import (
	"os"
	"path/filepath"
	"testing"

	"verif/harness/evid"
	. "verif/harness/lang"
	"verif/harness/progs"
)

// TestMakeExemplars writes the regression cases of the repaired findings as replay
// files (run by hand: VERIF_MAKE_EXEMPLARS=/verif/replay/C01 go test -run TestMakeExemplars).
func TestMakeExemplars(t *testing.T) {
	dir := os.Getenv("VERIF_MAKE_EXEMPLARS")
	if dir == "" {
		t.Skip("VERIF_MAKE_EXEMPLARS not set")
	}
	x := Var("x")
	type ex struct {
		name string
		body *Expr
		args []*Expr
	}
	exs := []ex{
		{"F1-let-in-second-closure-arg", Func("f", []string{"a", "b"}, Bin("+", Bin("*", Var("a"), Int(100)), Var("b")),
			Call(Var("f"), x, Let("y", Bin("*", x, Int(2)), Var("y")))), []*Expr{Int(3)}},
		{"F1-let-in-method-arg", MCall(Str("abcdefgh"), "cut", x, Let("y", Bin("*", x, Int(2)), Var("y"))), []*Expr{Int(1)}},
		{"F1-let-in-static-arg", SCall("max", x, Let("y", Bin("*", x, Int(2)), Var("y"))), []*Expr{Int(3)}},
		{"F1-let-in-map-field-closure-arg", Let("m", Map([]string{"f"}, []*Expr{Lam([]string{"a", "b"}, Bin("-", Var("a"), Var("b")))}),
			MCall(Var("m"), "f", Let("p", Bin("+", x, Int(1)), Var("p")), Let("q", Bin("*", x, Int(5)), Var("q")))), []*Expr{Int(3)}},
		{"F24-local-function-named-like-static", Func("sqr", []string{"a", "b"}, Bin("+", Bin("*", Var("a"), Var("b")), x),
			Call(Var("sqr"), Int(2), Int(3))), []*Expr{Int(1)}},
		{"F24-local-closure-named-like-static", Func("abs", []string{"a"}, Bin("+", Var("a"), x), Call(Var("abs"), Int(-2))), []*Expr{Int(0)}},
		// shadowing across function bodies: the inner closure sees the nearest binding
		{"shadow-rebinding-let-seen-by-inner-closure", Let("f", Lam([]string{"a"}, Let("x", Bin("*", x, Int(10)), Lam([]string{"z"}, Bin("+", Bin("+", x, Var("z")), Var("a"))))),
			Call(Call(Var("f"), Int(1)), Int(2))), []*Expr{Int(3)}},
		{"shadow-direct-use-equals-nested-use", Func("f", []string{"a"}, Let("t", Bin("+", x, Var("a")), Let("x", Bin("*", Var("t"), Int(100)),
			Bin("-", x, Call(Lam([]string{"z"}, Bin("+", x, Var("z"))), Int(0))))), Call(Var("f"), Int(1))), []*Expr{Int(3)}},
		{"F8-cut-on-empty-string", MCall(If(Bin("=", x, Int(0)), Str(""), Str("")), "cut", Int(0), Int(1)), []*Expr{Int(0)}},
		{"F5-modulo-by-zero-is-catchable", Try(Bin("%", Int(1), x), Int(7)), []*Expr{Int(0)}},
		{"F5-negative-shift-is-catchable", Try(Bin("<<", Int(1), x), Int(7)), []*Expr{Int(-1)}},
		{"F5-unequal-on-incomparable-is-catchable", Try(Bin("!=", x, Str("a")), Int(5)), []*Expr{Int(1)}},
		{"F5-switch-on-incomparable-is-catchable", Try(Switch(x, []*Expr{Str("a"), Int(1)}, Int(2)), Int(5)), []*Expr{Int(1)}},
	}
	for _, e := range exs {
		p := Program{Body: e.body, ArgNames: []string{"x"}, ArgTypes: []Ty{TInt}, ResType: TInt}
		c := progs.Case{Prog: p, Args: e.args, Text: Render(e.body)}
		os.Setenv("VERIF_FAILFILE", filepath.Join(dir, e.name+".json"))
		evid.WriteFailure(evid.Failure{Property: prop, Test: "c01", Message: "regression exemplar: " + c.Text, Case: c})
	}
}
