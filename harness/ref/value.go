// Package ref is the reference semantics of the value expression language: an
// independent, eager, environment-based interpreter over the harness' own AST (package
// lang) and an eager reference library. It never parses text and shares no code with
// /repo. Lists are modelled as "prefix + failure": the elements that can be produced
// before the first failing element, and the failure. That is exactly what a lazy,
// re-iterable producer of pure element computations can reveal to any consumer.
package ref

import (
	"fmt"
	"math"
	"sort"
	"strconv"
	"strings"
)

type Value interface{}

type (
	Int   int
	Float float64
	Str   string
	Bool  bool
)

// List is a possibly failing sequence: Items are the elements produced before the
// failure Err (nil: the list is complete).
type List struct {
	Items []Value
	Err   error
	// Unordered marks results whose order is documented as unspecified.
	Unordered bool
}

// Map is an ordered association list (order = iteration order of the implementation
// for the ordered representations; comparisons ignore it).
type Map struct {
	Keys []string
	Vals []Value
	// Unordered: iteration order is unspecified (evaluated / wrapped maps).
	Unordered bool
}

// Closure is a callable value.
type Closure struct {
	N    int
	Call func(args []Value) (Value, error)
}

// Error is a runtime failure. Thrown carries the text passed through throw().
type Error struct {
	Msg    string
	Thrown []string
}

func (e *Error) Error() string { return e.Msg }

func Errf(format string, args ...any) error {
	return &Error{Msg: fmt.Sprintf(format, args...)}
}

func Throw(tok string) error {
	return &Error{Msg: "thrown: " + tok, Thrown: []string{tok}}
}

// ThrownTokens returns the tokens carried by an error.
func ThrownTokens(err error) []string {
	if e, ok := err.(*Error); ok {
		return e.Thrown
	}
	return nil
}

func NewList(items ...Value) *List { return &List{Items: items} }

func NewMap() *Map { return &Map{} }

func (m *Map) Get(k string) (Value, bool) {
	for i, kk := range m.Keys {
		if kk == k {
			return m.Vals[i], true
		}
	}
	return nil, false
}

func (m *Map) With(k string, v Value) *Map {
	n := &Map{Keys: append(append([]string{}, m.Keys...), k), Vals: append(append([]Value{}, m.Vals...), v), Unordered: m.Unordered}
	return n
}

func TypeName(v Value) string {
	switch v.(type) {
	case Int:
		return "int"
	case Float:
		return "float"
	case Str:
		return "string"
	case Bool:
		return "bool"
	case *List:
		return "list"
	case *Map:
		return "map"
	case *Closure:
		return "closure"
	}
	return fmt.Sprintf("%T", v)
}

func ToFloat(v Value) (float64, bool) {
	switch x := v.(type) {
	case Int:
		return float64(x), true
	case Float:
		return float64(x), true
	}
	return 0, false
}

// ToString is the string form used by string(), '+' on strings and string().
func ToString(v Value) (string, error) {
	switch x := v.(type) {
	case Int:
		return strconv.Itoa(int(x)), nil
	case Float:
		return strconv.FormatFloat(float64(x), 'g', -1, 64), nil
	case Str:
		return string(x), nil
	case Bool:
		if x {
			return "true", nil
		}
		return "false", nil
	case *List:
		var b strings.Builder
		b.WriteString("[")
		for i, it := range x.Items {
			if i > 0 {
				b.WriteString(", ")
			}
			s, err := ToString(it)
			if err != nil {
				return "", err
			}
			b.WriteString(s)
		}
		if x.Err != nil {
			return "", x.Err
		}
		b.WriteString("]")
		return b.String(), nil
	case *Map:
		var b strings.Builder
		b.WriteString("{")
		for i, k := range x.Keys {
			if i > 0 {
				b.WriteString(", ")
			}
			b.WriteString(k)
			b.WriteString(":")
			s, err := ToString(x.Vals[i])
			if err != nil {
				return "", err
			}
			b.WriteString(s)
		}
		b.WriteString("}")
		return b.String(), nil
	case *Closure:
		return fmt.Sprintf("func%d", x.N), nil
	}
	return "", Errf("no string form for %T", v)
}

// Show renders a value for messages (never fails).
func Show(v Value) string {
	switch x := v.(type) {
	case nil:
		return "<nil>"
	case Str:
		return strconv.Quote(string(x))
	case Float:
		return "float(" + strconv.FormatFloat(float64(x), 'g', -1, 64) + ")"
	case *List:
		var b strings.Builder
		b.WriteString("[")
		for i, it := range x.Items {
			if i > 0 {
				b.WriteString(", ")
			}
			b.WriteString(Show(it))
		}
		if x.Err != nil {
			if len(x.Items) > 0 {
				b.WriteString(", ")
			}
			b.WriteString("<fails>")
		}
		b.WriteString("]")
		return b.String()
	case *Map:
		keys := append([]string{}, x.Keys...)
		idx := map[string]int{}
		for i, k := range x.Keys {
			idx[k] = i
		}
		sort.Strings(keys)
		var b strings.Builder
		b.WriteString("{")
		for i, k := range keys {
			if i > 0 {
				b.WriteString(", ")
			}
			b.WriteString(k + ":" + Show(x.Vals[idx[k]]))
		}
		b.WriteString("}")
		return b.String()
	case *Closure:
		return fmt.Sprintf("func%d", x.N)
	}
	return fmt.Sprint(v)
}

// Same compares two observed values: lists by element sequence (Unordered lists as
// multisets), maps by key/value set, numbers by kind and value (NaN equals NaN; -0
// equals +0), closures by arity. tol is the relative tolerance for floats (0 = exact).
func Same(a, b Value, tol float64) bool {
	switch x := a.(type) {
	case Int:
		y, ok := b.(Int)
		return ok && x == y
	case Float:
		y, ok := b.(Float)
		if !ok {
			return false
		}
		fx, fy := float64(x), float64(y)
		if math.IsNaN(fx) || math.IsNaN(fy) {
			return math.IsNaN(fx) && math.IsNaN(fy)
		}
		if fx == fy {
			return true
		}
		if tol > 0 {
			d := math.Abs(fx - fy)
			return d <= tol*math.Max(math.Abs(fx), math.Abs(fy)) || d <= tol*1e-3
		}
		return false
	case Str:
		y, ok := b.(Str)
		return ok && x == y
	case Bool:
		y, ok := b.(Bool)
		return ok && x == y
	case *List:
		y, ok := b.(*List)
		if ok && (x.Unordered || y.Unordered) && x.Err != nil && y.Err != nil {
			// which elements precede the failure depends on the unspecified order
			return true
		}
		if !ok || len(x.Items) != len(y.Items) || (x.Err == nil) != (y.Err == nil) {
			return false
		}
		if x.Unordered || y.Unordered {
			used := make([]bool, len(y.Items))
		outer:
			for _, xi := range x.Items {
				for j, yj := range y.Items {
					if !used[j] && Same(xi, yj, tol) {
						used[j] = true
						continue outer
					}
				}
				return false
			}
			return true
		}
		for i := range x.Items {
			if !Same(x.Items[i], y.Items[i], tol) {
				return false
			}
		}
		return true
	case *Map:
		y, ok := b.(*Map)
		if !ok || len(x.Keys) != len(y.Keys) {
			return false
		}
		for i, k := range x.Keys {
			yv, ok := y.Get(k)
			if !ok || !Same(x.Vals[i], yv, tol) {
				return false
			}
		}
		return true
	case *Closure:
		y, ok := b.(*Closure)
		return ok && x.N == y.N
	}
	return false
}
