package ref

import (
	"sort"
)

// Method is an entry of the reference method table. Min/Max: allowed argument counts
// (Min<0: unchecked). CheckInside: the count is checked by the method body, i.e. after
// the arguments were evaluated (optional-argument methods).
type Method struct {
	Min, Max    int
	CheckInside bool
	Fn          func(in *Interp, recv Value, args []Value) (Value, error)
}

func m(n int, fn func(in *Interp, recv Value, args []Value) (Value, error)) Method {
	return Method{Min: n, Max: n, Fn: fn}
}

// LookupMethod finds the method of a value by name.
func LookupMethod(recv Value, name string) (Method, bool) {
	var tab map[string]Method
	switch recv.(type) {
	case *List:
		tab = listMethods
	case *Map:
		tab = mapMethods
	case Str:
		tab = strMethods
	case *Closure:
		tab = closureMethods
	case Int, Float, Bool:
		tab = scalarMethods
	}
	me, ok := tab[name]
	return me, ok
}

func wantFn(name string, args []Value, i, n int) (*Closure, error) {
	c, ok := args[i].(*Closure)
	if !ok {
		return nil, Errf("argument %d of %s needs to be a function", i+1, name)
	}
	if c.N != n {
		return nil, Errf("argument %d of %s needs to be a function with %d arguments", i+1, name, n)
	}
	return c, nil
}

func wantInt(name string, v Value) (int, error) {
	i, ok := v.(Int)
	if !ok {
		return 0, Errf("%s needs an int, got %s", name, TypeName(v))
	}
	return int(i), nil
}

func wantBool(name string, v Value) (bool, error) {
	b, ok := v.(Bool)
	if !ok {
		return false, Errf("function in %s does not return a bool", name)
	}
	return bool(b), nil
}

// all returns the complete element list or the failure.
func (l *List) all() ([]Value, error) {
	if l.Err != nil {
		return nil, l.Err
	}
	return l.Items, nil
}

func lst(v Value) *List { return v.(*List) }

// stage builds a derived lazy list: f is called for each source element in order and
// may emit elements; the first error ends the list with that failure.
func stage(src *List, f func(i int, v Value, emit func(Value)) error) *List {
	out := &List{Unordered: src.Unordered}
	for i, v := range src.Items {
		if err := f(i, v, func(x Value) { out.Items = append(out.Items, x) }); err != nil {
			out.Err = err
			return out
		}
	}
	out.Err = src.Err
	return out
}

var listMethods map[string]Method

func init() {
	listMethods = map[string]Method{
		"accept": m(1, func(in *Interp, r Value, a []Value) (Value, error) {
			f, err := wantFn("accept", a, 0, 1)
			if err != nil {
				return nil, err
			}
			return stage(lst(r), func(i int, v Value, emit func(Value)) error {
				res, err := in.Apply(f, []Value{v})
				if err != nil {
					return err
				}
				ok, err := wantBool("accept", res)
				if err != nil {
					return err
				}
				if ok {
					emit(v)
				}
				return nil
			}), nil
		}),
		"map": m(1, func(in *Interp, r Value, a []Value) (Value, error) {
			f, err := wantFn("map", a, 0, 1)
			if err != nil {
				return nil, err
			}
			return stage(lst(r), func(i int, v Value, emit func(Value)) error {
				res, err := in.Apply(f, []Value{v})
				if err != nil {
					return err
				}
				emit(res)
				return nil
			}), nil
		}),
		"reduce": m(1, func(in *Interp, r Value, a []Value) (Value, error) {
			f, err := wantFn("reduce", a, 0, 2)
			if err != nil {
				return nil, err
			}
			l := lst(r)
			var sum Value
			for i, v := range l.Items {
				if i == 0 {
					sum = v
					continue
				}
				sum, err = in.Apply(f, []Value{sum, v})
				if err != nil {
					return nil, err
				}
			}
			if l.Err != nil {
				return nil, l.Err
			}
			if len(l.Items) == 0 {
				return nil, Errf("reduce on empty list")
			}
			return sum, nil
		}),
		"sum": m(0, func(in *Interp, r Value, a []Value) (Value, error) {
			l := lst(r)
			var sum Value
			for i, v := range l.Items {
				if i == 0 {
					sum = v
					continue
				}
				var err error
				sum, err = in.Binary("+", sum, v)
				if err != nil {
					return nil, err
				}
			}
			if l.Err != nil {
				return nil, l.Err
			}
			if len(l.Items) == 0 {
				return nil, Errf("sum on empty list")
			}
			return sum, nil
		}),
		"mapReduce": m(2, func(in *Interp, r Value, a []Value) (Value, error) {
			f, err := wantFn("mapReduce", a, 1, 2)
			if err != nil {
				return nil, err
			}
			l := lst(r)
			sum := a[0]
			for _, v := range l.Items {
				sum, err = in.Apply(f, []Value{sum, v})
				if err != nil {
					return nil, err
				}
			}
			if l.Err != nil {
				return nil, l.Err
			}
			return sum, nil
		}),
		"mean": m(0, func(in *Interp, r Value, a []Value) (Value, error) {
			l := lst(r)
			var sum Value
			for i, v := range l.Items {
				if i == 0 {
					sum = v
					continue
				}
				var err error
				sum, err = in.Binary("+", sum, v)
				if err != nil {
					return nil, err
				}
			}
			if l.Err != nil {
				return nil, l.Err
			}
			if len(l.Items) == 0 {
				return nil, Errf("mean of empty list")
			}
			return in.Binary("/", sum, Int(len(l.Items)))
		}),
		"min": m(0, func(in *Interp, r Value, a []Value) (Value, error) { return minMaxList(lst(r), false) }),
		"max": m(0, func(in *Interp, r Value, a []Value) (Value, error) { return minMaxList(lst(r), true) }),
		"minMax": m(1, func(in *Interp, r Value, a []Value) (Value, error) {
			f, err := wantFn("minMax", a, 0, 1)
			if err != nil {
				return nil, err
			}
			l := lst(r)
			var minV, maxV, minI, maxI Value = Int(0), Int(0), Int(0), Int(0)
			for i, v := range l.Items {
				k, err := in.Apply(f, []Value{v})
				if err != nil {
					return nil, err
				}
				if i == 0 {
					minV, maxV, minI, maxI = k, k, v, v
					continue
				}
				le, err := Less(k, minV)
				if err != nil {
					return nil, err
				}
				if le {
					minV, minI = k, v
				}
				gr, err := Less(maxV, k)
				if err != nil {
					return nil, err
				}
				if gr {
					maxV, maxI = k, v
				}
			}
			if l.Err != nil {
				return nil, l.Err
			}
			return &Map{Keys: []string{"min", "max", "minItem", "maxItem", "valid"},
				Vals: []Value{minV, maxV, minI, maxI, Bool(len(l.Items) > 0)}}, nil
		}),
		"replaceList": m(1, func(in *Interp, r Value, a []Value) (Value, error) {
			f, err := wantFn("replaceList", a, 0, 1)
			if err != nil {
				return nil, err
			}
			return in.Apply(f, []Value{r})
		}),
		"combine": m(1, func(in *Interp, r Value, a []Value) (Value, error) {
			f, err := wantFn("combine", a, 0, 2)
			if err != nil {
				return nil, err
			}
			l := lst(r)
			return stage(l, func(i int, v Value, emit func(Value)) error {
				if i == 0 {
					return nil
				}
				res, err := in.Apply(f, []Value{l.Items[i-1], v})
				if err != nil {
					return err
				}
				emit(res)
				return nil
			}), nil
		}),
		"combine3": m(1, func(in *Interp, r Value, a []Value) (Value, error) {
			f, err := wantFn("combine3", a, 0, 3)
			if err != nil {
				return nil, err
			}
			l := lst(r)
			return stage(l, func(i int, v Value, emit func(Value)) error {
				if i < 2 {
					return nil
				}
				res, err := in.Apply(f, []Value{l.Items[i-2], l.Items[i-1], v})
				if err != nil {
					return err
				}
				emit(res)
				return nil
			}), nil
		}),
		"combineN": m(2, func(in *Interp, r Value, a []Value) (Value, error) {
			n, err := wantInt("combineN", a[0])
			if err != nil {
				return nil, err
			}
			if n < 1 {
				return nil, Errf("combineN needs n>0")
			}
			f, err := wantFn("combineN", a, 1, 1)
			if err != nil {
				return nil, err
			}
			l := lst(r)
			return stage(l, func(i int, v Value, emit func(Value)) error {
				if i < n-1 {
					return nil
				}
				win := append([]Value{}, l.Items[i-n+1:i+1]...)
				res, err := in.Apply(f, []Value{&List{Items: win}})
				if err != nil {
					return err
				}
				emit(res)
				return nil
			}), nil
		}),
		"indexWhere": m(1, func(in *Interp, r Value, a []Value) (Value, error) {
			f, err := wantFn("indexWhere", a, 0, 1)
			if err != nil {
				return nil, err
			}
			l := lst(r)
			for i, v := range l.Items {
				res, err := in.Apply(f, []Value{v})
				if err != nil {
					return nil, err
				}
				ok, err := wantBool("indexWhere", res)
				if err != nil {
					return nil, err
				}
				if ok {
					return Int(i), nil
				}
			}
			if l.Err != nil {
				return nil, l.Err
			}
			return Int(-1), nil
		}),
		"present": m(1, func(in *Interp, r Value, a []Value) (Value, error) {
			f, err := wantFn("present", a, 0, 1)
			if err != nil {
				return nil, err
			}
			l := lst(r)
			for _, v := range l.Items {
				res, err := in.Apply(f, []Value{v})
				if err != nil {
					return nil, err
				}
				ok, err := wantBool("present", res)
				if err != nil {
					return nil, err
				}
				if ok {
					return Bool(true), nil
				}
			}
			if l.Err != nil {
				return nil, l.Err
			}
			return Bool(false), nil
		}),
		"groupByString": m(1, func(in *Interp, r Value, a []Value) (Value, error) {
			return groupBy(in, "groupByString", lst(r), a, func(k Value) (Value, error) {
				s, err := ToString(k)
				return Str(s), err
			}, true)
		}),
		"groupByInt": m(1, func(in *Interp, r Value, a []Value) (Value, error) {
			return groupBy(in, "groupByInt", lst(r), a, func(k Value) (Value, error) {
				if _, ok := k.(Int); !ok {
					return nil, Errf("groupByInt requires an int as key")
				}
				return k, nil
			}, true)
		}),
		"groupByEqual": m(1, func(in *Interp, r Value, a []Value) (Value, error) {
			return groupBy(in, "groupByEqual", lst(r), a, func(k Value) (Value, error) { return k, nil }, false)
		}),
		"uniqueString": m(1, func(in *Interp, r Value, a []Value) (Value, error) {
			return unique(in, "uniqueString", lst(r), a, func(k Value) (Value, error) {
				s, err := ToString(k)
				return Str(s), err
			})
		}),
		"uniqueInt": m(1, func(in *Interp, r Value, a []Value) (Value, error) {
			return unique(in, "uniqueInt", lst(r), a, func(k Value) (Value, error) {
				if _, ok := k.(Int); !ok {
					return nil, Errf("uniqueInt requires an int as key")
				}
				return k, nil
			})
		}),
		"compact": m(1, func(in *Interp, r Value, a []Value) (Value, error) {
			f, err := wantFn("compact", a, 0, 2)
			if err != nil {
				return nil, err
			}
			var last Value
			return stage(lst(r), func(i int, v Value, emit func(Value)) error {
				if i == 0 {
					last = v
					emit(v)
					return nil
				}
				res, err := in.Apply(f, []Value{last, v})
				if err != nil {
					return err
				}
				eq, ok := res.(Bool)
				if !ok {
					return Errf("function given to compact does not return a bool")
				}
				if !eq {
					last = v
					emit(v)
				}
				return nil
			}), nil
		}),
		"cross": m(2, func(in *Interp, r Value, a []Value) (Value, error) {
			f, err := wantFn("cross", a, 1, 2)
			if err != nil {
				return nil, err
			}
			other, ok := a[0].(*List)
			if !ok {
				return nil, Errf("first argument in cross needs to be a list")
			}
			return stage(lst(r), func(i int, v Value, emit func(Value)) error {
				for _, w := range other.Items {
					res, err := in.Apply(f, []Value{v, w})
					if err != nil {
						return err
					}
					emit(res)
				}
				return other.Err
			}), nil
		}),
		"merge": m(2, func(in *Interp, r Value, a []Value) (Value, error) {
			f, err := wantFn("merge", a, 1, 2)
			if err != nil {
				return nil, err
			}
			other, ok := a[0].(*List)
			if !ok {
				return nil, Errf("first argument in merge needs to be a list")
			}
			l := lst(r)
			out := &List{}
			ia, ib := 0, 0
			for {
				// both heads are fetched before they are compared
				if ia >= len(l.Items) {
					if l.Err != nil {
						out.Err = l.Err
						return out, nil
					}
					out.Items = append(out.Items, other.Items[ib:]...)
					out.Err = other.Err
					return out, nil
				}
				if ib >= len(other.Items) {
					if other.Err != nil {
						out.Err = other.Err
						return out, nil
					}
					out.Items = append(out.Items, l.Items[ia:]...)
					out.Err = l.Err
					return out, nil
				}
				res, err := in.Apply(f, []Value{l.Items[ia], other.Items[ib]})
				if err != nil {
					out.Err = err
					return out, nil
				}
				less, ok := res.(Bool)
				if !ok {
					out.Err = Errf("function in merge needs to return a bool")
					return out, nil
				}
				if less {
					out.Items = append(out.Items, l.Items[ia])
					ia++
				} else {
					out.Items = append(out.Items, other.Items[ib])
					ib++
				}
			}
		}),
		"order":    m(1, func(in *Interp, r Value, a []Value) (Value, error) { return order(in, "order", lst(r), a, false) }),
		"orderRev": m(1, func(in *Interp, r Value, a []Value) (Value, error) { return order(in, "orderRev", lst(r), a, true) }),
		"orderLess": m(1, func(in *Interp, r Value, a []Value) (Value, error) {
			f, err := wantFn("orderLess", a, 0, 2)
			if err != nil {
				return nil, err
			}
			items, err := lst(r).all()
			if err != nil {
				return nil, err
			}
			out := append([]Value{}, items...)
			var ferr error
			sort.SliceStable(out, func(i, j int) bool {
				res, err := in.Apply(f, []Value{out[i], out[j]})
				if err != nil {
					if ferr == nil {
						ferr = err
					}
					return false
				}
				b, ok := res.(Bool)
				if !ok {
					if ferr == nil {
						ferr = Errf("function in orderLess needs to return a bool")
					}
					return false
				}
				return bool(b)
			})
			if ferr != nil {
				return nil, ferr
			}
			// the sort of the implementation is not stable: neighbours that the function does
			// not order, but that are different items, may come out in either order
			for i := 1; i < len(out); i++ {
				if Same(out[i-1], out[i], 0) {
					continue
				}
				r1, e1 := in.Apply(f, []Value{out[i-1], out[i]})
				r2, e2 := in.Apply(f, []Value{out[i], out[i-1]})
				if e1 != nil || e2 != nil || (r1 == Bool(false) && r2 == Bool(false)) {
					in.SortTies = true
				}
			}
			in.SortUsed = true
			return &List{Items: out}, nil
		}),
		"reverse": m(0, func(in *Interp, r Value, a []Value) (Value, error) {
			items, err := lst(r).all()
			if err != nil {
				return nil, err
			}
			out := make([]Value, len(items))
			for i, v := range items {
				out[len(items)-1-i] = v
			}
			return &List{Items: out, Unordered: lst(r).Unordered}, nil
		}),
		"append": m(1, func(in *Interp, r Value, a []Value) (Value, error) {
			items, err := lst(r).all()
			if err != nil {
				return nil, err
			}
			return &List{Items: append(append([]Value{}, items...), a[0]), Unordered: lst(r).Unordered}, nil
		}),
		"iir": m(2, func(in *Interp, r Value, a []Value) (Value, error) {
			ini, err := wantFn("iir", a, 0, 1)
			if err != nil {
				return nil, err
			}
			f, err := wantFn("iir", a, 1, 2)
			if err != nil {
				return nil, err
			}
			var last Value
			return stage(lst(r), func(i int, v Value, emit func(Value)) error {
				var err error
				if i == 0 {
					last, err = in.Apply(ini, []Value{v})
				} else {
					last, err = in.Apply(f, []Value{v, last})
				}
				if err != nil {
					return err
				}
				emit(last)
				return nil
			}), nil
		}),
		"iirCombine": m(2, func(in *Interp, r Value, a []Value) (Value, error) {
			ini, err := wantFn("iirCombine", a, 0, 1)
			if err != nil {
				return nil, err
			}
			f, err := wantFn("iirCombine", a, 1, 3)
			if err != nil {
				return nil, err
			}
			return iirCombine(in, lst(r), ini, f), nil
		}),
		"iirApply": m(1, func(in *Interp, r Value, a []Value) (Value, error) {
			mm, ok := a[0].(*Map)
			if !ok {
				return nil, Errf("first argument in iirApply needs to be a map")
			}
			ini, err := fnFromMap(mm, "initial", 1)
			if err != nil {
				return nil, err
			}
			f, err := fnFromMap(mm, "filter", 3)
			if err != nil {
				return nil, err
			}
			return iirCombine(in, lst(r), ini, f), nil
		}),
		"visit": m(2, func(in *Interp, r Value, a []Value) (Value, error) {
			f, err := wantFn("visit", a, 1, 2)
			if err != nil {
				return nil, err
			}
			l := lst(r)
			vis := a[0]
			for _, v := range l.Items {
				vis, err = in.Apply(f, []Value{vis, v})
				if err != nil {
					return nil, err
				}
			}
			if l.Err != nil {
				return nil, l.Err
			}
			return vis, nil
		}),
		"fsm": m(1, func(in *Interp, r Value, a []Value) (Value, error) {
			f, err := wantFn("fsm", a, 0, 2)
			if err != nil {
				return nil, err
			}
			var state Value = &Map{Keys: []string{"state"}, Vals: []Value{Int(0)}}
			return stage(lst(r), func(i int, v Value, emit func(Value)) error {
				var err error
				state, err = in.Apply(f, []Value{state, v})
				if err != nil {
					return err
				}
				emit(state)
				return nil
			}), nil
		}),
		"top": m(1, func(in *Interp, r Value, a []Value) (Value, error) {
			n, ok := a[0].(Int)
			if !ok {
				return nil, Errf("error in top, no int given")
			}
			l := lst(r)
			if n < 0 {
				in.Unspecified = true
			}
			if n >= 0 && len(l.Items) >= int(n) {
				return &List{Items: l.Items[:n], Unordered: l.Unordered}, nil
			}
			return &List{Items: l.Items, Err: l.Err, Unordered: l.Unordered}, nil
		}),
		"skip": m(1, func(in *Interp, r Value, a []Value) (Value, error) {
			n, ok := a[0].(Int)
			if !ok {
				return nil, Errf("error in skip, no int given")
			}
			l := lst(r)
			if n < 0 {
				in.Unspecified = true
			}
			if int(n) <= 0 {
				return &List{Items: l.Items, Err: l.Err, Unordered: l.Unordered}, nil
			}
			if len(l.Items) >= int(n) {
				return &List{Items: l.Items[n:], Err: l.Err, Unordered: l.Unordered}, nil
			}
			// a failing element inside the skipped region is passed on
			return &List{Err: l.Err, Unordered: l.Unordered}, nil
		}),
		"number": m(1, func(in *Interp, r Value, a []Value) (Value, error) {
			f, err := wantFn("number", a, 0, 2)
			if err != nil {
				return nil, err
			}
			return stage(lst(r), func(i int, v Value, emit func(Value)) error {
				res, err := in.Apply(f, []Value{Int(i), v})
				if err != nil {
					return err
				}
				emit(res)
				return nil
			}), nil
		}),
		"set": m(2, func(in *Interp, r Value, a []Value) (Value, error) {
			idx, err := wantInt("set", a[0])
			if err != nil {
				return nil, err
			}
			items, err := lst(r).all()
			if err != nil {
				return nil, err
			}
			if idx < 0 || idx >= len(items) {
				return nil, Errf("index %d out of range", idx)
			}
			out := append([]Value{}, items...)
			out[idx] = a[1]
			return &List{Items: out, Unordered: lst(r).Unordered}, nil
		}),
		"size": m(0, func(in *Interp, r Value, a []Value) (Value, error) {
			items, err := lst(r).all()
			if err != nil {
				return nil, err
			}
			return Int(len(items)), nil
		}),
		"first": m(0, func(in *Interp, r Value, a []Value) (Value, error) {
			l := lst(r)
			if len(l.Items) > 0 {
				return l.Items[0], nil
			}
			if l.Err != nil {
				return nil, l.Err
			}
			return nil, Errf("error in first, no items in list")
		}),
		"single": m(0, func(in *Interp, r Value, a []Value) (Value, error) {
			l := lst(r)
			if len(l.Items) >= 2 {
				return nil, Errf("error in single, more than one item in list")
			}
			if l.Err != nil {
				return nil, l.Err
			}
			if len(l.Items) == 1 {
				return l.Items[0], nil
			}
			return nil, Errf("error in single, no item in list")
		}),
		"last": m(0, func(in *Interp, r Value, a []Value) (Value, error) {
			items, err := lst(r).all()
			if err != nil {
				return nil, err
			}
			if len(items) == 0 {
				return nil, Errf("error in last, no items in list")
			}
			return items[len(items)-1], nil
		}),
		"eval": m(0, func(in *Interp, r Value, a []Value) (Value, error) {
			if _, err := lst(r).all(); err != nil {
				return nil, err
			}
			return r, nil
		}),
		"string": m(0, func(in *Interp, r Value, a []Value) (Value, error) {
			s, err := ToString(r)
			if err != nil {
				return nil, err
			}
			if DeepUnordered(r) {
				in.OrderLeak = true
			}
			return Str(s), nil
		}),
		"linearReg": m(2, func(in *Interp, r Value, a []Value) (Value, error) {
			fx, err := wantFn("linearReg", a, 0, 1)
			if err != nil {
				return nil, err
			}
			fy, err := wantFn("linearReg", a, 1, 1)
			if err != nil {
				return nil, err
			}
			l := lst(r)
			var sx, sy, sxx, sxy float64
			n := 0
			xs := map[float64]bool{}
			for _, v := range l.Items {
				x, err := floatOf(in, fx, v)
				if err != nil {
					return nil, err
				}
				y, err := floatOf(in, fy, v)
				if err != nil {
					return nil, err
				}
				sx += x
				sy += y
				sxx += x * x
				sxy += x * y
				xs[x] = true
				n++
			}
			if l.Err != nil {
				return nil, l.Err
			}
			if len(xs) < 2 {
				in.Unspecified = true // fewer than two different x values: 0/0
			}
			in.Rounded = true
			fn := float64(n)
			ca := (sxy - sx*sy/fn) / (sxx - sx*sx/fn)
			cb := (sy - ca*sx) / fn
			line := &Closure{N: 1, Call: func(args []Value) (Value, error) {
				x, ok := ToFloat(args[0])
				if !ok {
					return nil, Errf("argument in linear needs to be a float")
				}
				return Float(ca*x + cb), nil
			}}
			return &Map{Keys: []string{"a", "b", "lineFunc"}, Vals: []Value{Float(ca), Float(cb), line}}, nil
		}),
		"createInterpolation": m(2, func(in *Interp, r Value, a []Value) (Value, error) {
			fx, err := wantFn("createInterpolation", a, 0, 1)
			if err != nil {
				return nil, err
			}
			fy, err := wantFn("createInterpolation", a, 1, 1)
			if err != nil {
				return nil, err
			}
			l := lst(r)
			type pt struct{ x, y float64 }
			var pts []pt
			for _, v := range l.Items {
				x, err := floatOf(in, fx, v)
				if err != nil {
					return nil, err
				}
				if len(pts) > 0 && x <= pts[len(pts)-1].x {
					return nil, Errf("x values in interpolation need to be increasing")
				}
				y, err := floatOf(in, fy, v)
				if err != nil {
					return nil, err
				}
				pts = append(pts, pt{x, y})
			}
			if l.Err != nil {
				return nil, l.Err
			}
			if len(pts) < 2 {
				in.Unspecified = true
			}
			in.Rounded = true
			return &Closure{N: 1, Call: func(args []Value) (Value, error) {
				x, ok := ToFloat(args[0])
				if !ok {
					return nil, Errf("argument in interpolation needs to be a float")
				}
				if len(pts) == 0 {
					return nil, Errf("no points")
				}
				if x <= pts[0].x {
					return Float(pts[0].y), nil
				}
				if x >= pts[len(pts)-1].x {
					return Float(pts[len(pts)-1].y), nil
				}
				for i := 1; i < len(pts); i++ {
					if x < pts[i].x {
						p0, p1 := pts[i-1], pts[i]
						return Float(p0.y + (p1.y-p0.y)*((x-p0.x)/(p1.x-p0.x))), nil
					}
				}
				return Float(pts[len(pts)-1].y), nil
			}}, nil
		}),
		"multiUse": m(1, func(in *Interp, r Value, a []Value) (Value, error) {
			mm, ok := a[0].(*Map)
			if !ok {
				return nil, Errf("first argument in multiUse needs to be a map")
			}
			var fs []*Closure
			for _, v := range mm.Vals {
				c, ok := v.(*Closure)
				if !ok || c.N != 1 {
					return nil, Errf("map in multiUse needs to contain functions with one argument")
				}
				fs = append(fs, c)
			}
			if len(fs) < 1 {
				return nil, Errf("map in multiUse needs to contain functions")
			}
			out := &Map{}
			for i, f := range fs {
				res, err := in.Apply(f, []Value{r})
				if err != nil {
					return nil, err
				}
				if err := deepCheck(res); err != nil {
					return nil, err
				}
				out.Keys = append(out.Keys, mm.Keys[i])
				out.Vals = append(out.Vals, res)
			}
			return out, nil
		}),
		"movingWindow": m(1, func(in *Interp, r Value, a []Value) (Value, error) {
			f, err := wantFn("movingWindow", a, 0, 1)
			if err != nil {
				return nil, err
			}
			items, err := lst(r).all()
			if err != nil {
				return nil, err
			}
			keys := make([]float64, len(items))
			for i, it := range items {
				k, err := in.Apply(f, []Value{it})
				if err != nil {
					return nil, err
				}
				fl, ok := ToFloat(k)
				if !ok {
					return nil, Errf("function in movingWindow needs to return a float")
				}
				keys[i] = fl
			}
			out := &List{}
			start := 0
			for i := range items {
				for abs(keys[i]-keys[start]) > 1 {
					start++
				}
				out.Items = append(out.Items, &List{Items: append([]Value{}, items[start:i+1]...)})
			}
			return out, nil
		}),
		"movingWindowRemove": m(1, func(in *Interp, r Value, a []Value) (Value, error) {
			f, err := wantFn("movingWindowRemove", a, 0, 1)
			if err != nil {
				return nil, err
			}
			items, err := lst(r).all()
			if err != nil {
				return nil, err
			}
			out := &List{}
			start := 0
			for i := range items {
				for {
					win := &List{Items: append([]Value{}, items[start:i+1]...)}
					if start == i {
						out.Items = append(out.Items, win)
						break
					}
					res, err := in.Apply(f, []Value{win})
					if err != nil {
						return nil, err
					}
					rm, ok := res.(Bool)
					if !ok {
						return nil, Errf("function in movingWindowRemove needs to return a bool")
					}
					if rm {
						start++
					} else {
						out.Items = append(out.Items, win)
						break
					}
				}
			}
			return out, nil
		}),
	}
}

func abs(f float64) float64 {
	if f < 0 {
		return -f
	}
	return f
}

func deepCheck(v Value) error {
	switch x := v.(type) {
	case *List:
		if x.Err != nil {
			return x.Err
		}
		for _, it := range x.Items {
			if err := deepCheck(it); err != nil {
				return err
			}
		}
	case *Map:
		for _, it := range x.Vals {
			if err := deepCheck(it); err != nil {
				return err
			}
		}
	}
	return nil
}

func fnFromMap(mm *Map, key string, n int) (*Closure, error) {
	v, ok := mm.Get(key)
	if !ok {
		return nil, Errf("function %s is missing", key)
	}
	c, ok := v.(*Closure)
	if !ok {
		return nil, Errf("value in %s needs to be a function", key)
	}
	if c.N != n {
		return nil, Errf("function in %s needs to have %d arguments", key, n)
	}
	return c, nil
}

func iirCombine(in *Interp, l *List, ini, f *Closure) *List {
	var last Value
	return stage(l, func(i int, v Value, emit func(Value)) error {
		var err error
		if i == 0 {
			last, err = in.Apply(ini, []Value{v})
		} else {
			last, err = in.Apply(f, []Value{l.Items[i-1], v, last})
		}
		if err != nil {
			return err
		}
		emit(last)
		return nil
	})
}

func minMaxList(l *List, max bool) (Value, error) {
	var best Value
	for i, v := range l.Items {
		if i == 0 {
			best = v
			continue
		}
		var le bool
		var err error
		if max {
			le, err = Less(best, v)
		} else {
			le, err = Less(v, best)
		}
		if err != nil {
			return nil, err
		}
		if le {
			best = v
		}
	}
	if l.Err != nil {
		return nil, l.Err
	}
	if len(l.Items) == 0 {
		return nil, Errf("min/max of empty list")
	}
	return best, nil
}

func groupBy(in *Interp, name string, l *List, a []Value, conv func(Value) (Value, error), hashed bool) (Value, error) {
	f, err := wantFn(name, a, 0, 1)
	if err != nil {
		return nil, err
	}
	type group struct {
		key  Value
		vals []Value
	}
	var groups []*group
	for _, v := range l.Items {
		k, err := in.Apply(f, []Value{v})
		if err != nil {
			return nil, err
		}
		k, err = conv(k)
		if err != nil {
			return nil, err
		}
		found := false
		for _, g := range groups {
			var eq bool
			if hashed {
				eq = g.key == k
			} else {
				eq, err = Equal(g.key, k)
				if err != nil {
					return nil, err
				}
			}
			if eq {
				g.vals = append(g.vals, v)
				found = true
				break
			}
		}
		if !found {
			groups = append(groups, &group{k, []Value{v}})
		}
	}
	if l.Err != nil {
		return nil, l.Err
	}
	out := &List{Unordered: hashed || l.Unordered}
	for _, g := range groups {
		out.Items = append(out.Items, &Map{Keys: []string{"key", "values"}, Vals: []Value{g.key, &List{Items: g.vals, Unordered: l.Unordered}}})
	}
	return out, nil
}

func unique(in *Interp, name string, l *List, a []Value, conv func(Value) (Value, error)) (Value, error) {
	f, err := wantFn(name, a, 0, 1)
	if err != nil {
		return nil, err
	}
	out := &List{Unordered: true}
	for _, v := range l.Items {
		k, err := in.Apply(f, []Value{v})
		if err != nil {
			return nil, err
		}
		k, err = conv(k)
		if err != nil {
			return nil, err
		}
		dup := false
		for _, o := range out.Items {
			if o == k {
				dup = true
				break
			}
		}
		if !dup {
			out.Items = append(out.Items, k)
		}
	}
	if l.Err != nil {
		return nil, l.Err
	}
	return out, nil
}

// order sorts by the keys the pick function returns. Keys must be mutually comparable
// (all numbers or all strings) as soon as there are two elements: every comparison
// sort compares along a connected graph, so a mixed key set always meets an
// incomparable pair. The sort is not stable in the implementation: if equal keys
// belong to different items the result is one of several valid ones (SortTies).
func order(in *Interp, name string, l *List, a []Value, rev bool) (Value, error) {
	f, err := wantFn(name, a, 0, 1)
	if err != nil {
		return nil, err
	}
	items, err := l.all()
	if err != nil {
		return nil, err
	}
	keys := make([]Value, len(items))
	var kerr error
	for i, it := range items {
		k, err := in.Apply(f, []Value{it})
		if err != nil {
			if kerr == nil {
				kerr = err
			}
			continue
		}
		keys[i] = k
	}
	if len(items) >= 2 {
		if kerr != nil {
			return nil, kerr
		}
		for i := 1; i < len(keys); i++ {
			if _, err := Less(keys[0], keys[i]); err != nil {
				return nil, err
			}
		}
		if _, err := Less(keys[0], keys[0]); err != nil {
			return nil, err
		}
	}
	// with fewer than two elements the pick function is never called by the sort
	idx := make([]int, len(items))
	for i := range idx {
		idx[i] = i
	}
	sort.SliceStable(idx, func(i, j int) bool {
		var le bool
		if rev {
			le, _ = Less(keys[idx[j]], keys[idx[i]])
		} else {
			le, _ = Less(keys[idx[i]], keys[idx[j]])
		}
		return le
	})
	out := make([]Value, len(items))
	for i, ix := range idx {
		out[i] = items[ix]
	}
	for i := 1; i < len(idx); i++ {
		a, b := keys[idx[i-1]], keys[idx[i]]
		l1, _ := Less(a, b)
		l2, _ := Less(b, a)
		if !l1 && !l2 && !Same(out[i-1], out[i], 0) {
			in.SortTies = true
		}
	}
	in.SortUsed = true
	return &List{Items: out}, nil
}


func floatOf(in *Interp, f *Closure, v Value) (float64, error) {
	r, err := in.Apply(f, []Value{v})
	if err != nil {
		return 0, err
	}
	x, ok := ToFloat(r)
	if !ok {
		return 0, Errf("not a float: %s", TypeName(r))
	}
	return x, nil
}

// DeepUnordered reports whether the value contains a list or map of more than one
// entry whose order is unspecified.
func DeepUnordered(v Value) bool {
	switch x := v.(type) {
	case *List:
		if x.Unordered && len(x.Items) > 1 {
			return true
		}
		for _, it := range x.Items {
			if DeepUnordered(it) {
				return true
			}
		}
	case *Map:
		if x.Unordered && len(x.Keys) > 1 {
			return true
		}
		for _, it := range x.Vals {
			if DeepUnordered(it) {
				return true
			}
		}
	}
	return false
}
