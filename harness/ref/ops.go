package ref

import (
	"math"
	"strings"
)

// Equal is the '=' of the language (deep on lists and maps).
func Equal(a, b Value) (bool, error) {
	switch x := a.(type) {
	case *List:
		if y, ok := b.(*List); ok {
			if x.Err != nil {
				return false, x.Err
			}
			if y.Err != nil {
				return false, y.Err
			}
			if len(x.Items) != len(y.Items) {
				return false, nil
			}
			for i := range x.Items {
				eq, err := Equal(x.Items[i], y.Items[i])
				if err != nil {
					return false, err
				}
				if !eq {
					return false, nil
				}
			}
			return true, nil
		}
	case *Map:
		if y, ok := b.(*Map); ok {
			if len(x.Keys) != len(y.Keys) {
				return false, nil
			}
			for i, k := range x.Keys {
				o, ok := y.Get(k)
				if !ok {
					return false, nil
				}
				eq, err := Equal(o, x.Vals[i])
				if err != nil {
					return false, err
				}
				if !eq {
					return false, nil
				}
			}
			return true, nil
		}
	case Bool:
		if y, ok := b.(Bool); ok {
			return x == y, nil
		}
	case Str:
		if y, ok := b.(Str); ok {
			return x == y, nil
		}
	case Int:
		switch y := b.(type) {
		case Int:
			return x == y, nil
		case Float:
			return Float(x) == y, nil
		}
	case Float:
		switch y := b.(type) {
		case Int:
			return x == Float(y), nil
		case Float:
			return x == y, nil
		}
	}
	return false, Errf("'=' not defined on %s, %s", TypeName(a), TypeName(b))
}

// Less is the '<' of the language.
func Less(a, b Value) (bool, error) {
	switch x := a.(type) {
	case Str:
		if y, ok := b.(Str); ok {
			return x < y, nil
		}
	case Int:
		switch y := b.(type) {
		case Int:
			return x < y, nil
		case Float:
			return Float(x) < y, nil
		}
	case Float:
		switch y := b.(type) {
		case Int:
			return x < Float(y), nil
		case Float:
			return x < y, nil
		}
	}
	return false, Errf("'<' not defined on %s, %s", TypeName(a), TypeName(b))
}

// Contains is 'a ~ b'.
func Contains(a, b Value) (Value, error) {
	if list, ok := b.(*List); ok {
		if search, ok := a.(*List); ok {
			if search.Err != nil {
				return nil, search.Err
			}
			lookFor := append([]Value{}, search.Items...)
			if len(lookFor) == 0 {
				// the implementation answers after inspecting nothing of an empty request
				if len(list.Items) == 0 && list.Err != nil {
					return nil, list.Err
				}
			}
			for _, v := range list.Items {
				for i, lf := range lookFor {
					eq, err := Equal(lf, v)
					if err != nil {
						return nil, err
					}
					if eq {
						lookFor = append(lookFor[:i], lookFor[i+1:]...)
						break
					}
				}
				if len(lookFor) == 0 {
					return Bool(true), nil
				}
			}
			if list.Err != nil {
				return nil, list.Err
			}
			return Bool(len(lookFor) == 0), nil
		}
		for _, v := range list.Items {
			eq, err := Equal(a, v)
			if err != nil {
				return nil, err
			}
			if eq {
				return Bool(true), nil
			}
		}
		if list.Err != nil {
			return nil, list.Err
		}
		return Bool(false), nil
	}
	if m, ok := b.(*Map); ok {
		if key, ok := a.(Str); ok {
			_, has := m.Get(string(key))
			return Bool(has), nil
		}
	}
	if s, ok := a.(Str); ok {
		if in, ok := b.(Str); ok {
			return Bool(strings.Contains(string(in), string(s))), nil
		}
	}
	return nil, Errf("'~' not allowed on %s, %s", TypeName(a), TypeName(b))
}

func numOp(op string, a, b Value, fi func(x, y int) Value, ff func(x, y float64) float64) (Value, error) {
	switch x := a.(type) {
	case Int:
		switch y := b.(type) {
		case Int:
			if fi != nil {
				return fi(int(x), int(y)), nil
			}
			return Float(ff(float64(x), float64(y))), nil
		case Float:
			return Float(ff(float64(x), float64(y))), nil
		}
	case Float:
		switch y := b.(type) {
		case Int:
			return Float(ff(float64(x), float64(y))), nil
		case Float:
			return Float(ff(float64(x), float64(y))), nil
		}
	}
	return nil, Errf("operation '%s' not defined on %s, %s", op, TypeName(a), TypeName(b))
}

func intOp(op string, a, b Value, f func(x, y int) (Value, error)) (Value, error) {
	if x, ok := a.(Int); ok {
		if y, ok := b.(Int); ok {
			return f(int(x), int(y))
		}
	}
	return nil, Errf("operation '%s' not defined on %s, %s", op, TypeName(a), TypeName(b))
}

// Concat models list '+': a lazy concatenation.
func Concat(a, b *List) *List {
	if a.Err != nil {
		return &List{Items: a.Items, Err: a.Err, Unordered: a.Unordered}
	}
	items := append(append([]Value{}, a.Items...), b.Items...)
	return &List{Items: items, Err: b.Err, Unordered: a.Unordered || b.Unordered}
}

// Binary evaluates a strict binary operator on values (not '&' and '|', whose
// short-circuit form lives in the interpreter; AndOr is their strict table).
func (in *Interp) Binary(op string, a, b Value) (Value, error) {
	v, err := binary(op, a, b)
	if in != nil {
		// an operand that is a FAILING list of unspecified order: how far an operator gets
		// before it meets the failing item (membership stops at the first hit) depends on the order
		for _, x := range []Value{a, b} {
			if l, ok := x.(*List); ok && l.Unordered && l.Err != nil {
				in.OrderLeak = true
			}
		}
	}
	if in != nil && op == "~" {
		if x, ok := a.(*List); ok {
			if y, ok := b.(*List); ok && len(y.Items) < len(x.Items) {
				// "all of these in that list" on a shorter list: false, or an error if the
				// (lazy) list is compared first - not specified
				in.Unspecified = true
			}
		}
	}
	if in != nil && op == "+" {
		if _, isStr := a.(Str); isStr && DeepUnordered(b) {
			in.OrderLeak = true
		}
	}
	if in != nil && err == nil && op == "*" {
		// '*' is the one arithmetic operator of the value language whose constant
		// operands the optimizer regroups; an inexact float product makes the result
		// depend on the grouping (C02 allows that rounding, C01 compares exactly).
		if r, ok := v.(Float); ok {
			x, _ := ToFloat(a)
			y, _ := ToFloat(b)
			if e := math.FMA(x, y, -float64(r)); e != 0 && !math.IsNaN(e) {
				in.Inexact = true
			}
		}
	}
	return v, err
}

// Binary evaluates without an interpreter (no exactness tracking).
func Binary(op string, a, b Value) (Value, error) { return binary(op, a, b) }

func binary(op string, a, b Value) (Value, error) {
	switch op {
	case "+":
		if s, ok := a.(Str); ok {
			t, err := ToString(b)
			if err != nil {
				return nil, err
			}
			return s + Str(t), nil
		}
		if x, ok := a.(*List); ok {
			if y, ok := b.(*List); ok {
				return Concat(x, y), nil
			}
		}
		if x, ok := a.(*Map); ok {
			if y, ok := b.(*Map); ok {
				return MergeMaps(x, y)
			}
		}
		return numOp(op, a, b, func(x, y int) Value { return Int(x + y) }, func(x, y float64) float64 { return x + y })
	case "-":
		return numOp(op, a, b, func(x, y int) Value { return Int(x - y) }, func(x, y float64) float64 { return x - y })
	case "*":
		return numOp(op, a, b, func(x, y int) Value { return Int(x * y) }, func(x, y float64) float64 { return x * y })
	case "/":
		return numOp(op, a, b, nil, func(x, y float64) float64 { return x / y })
	case "^":
		return numOp(op, a, b, func(x, y int) Value {
			if y > 0 && y < 10 {
				n := x
				for j := 1; j < y; j++ {
					n *= x
				}
				return Int(n)
			}
			return Int(math.Pow(float64(x), float64(y)))
		}, math.Pow)
	case "%":
		return intOp(op, a, b, func(x, y int) (Value, error) {
			if y == 0 {
				return nil, Errf("modulo by zero")
			}
			return Int(x % y), nil
		})
	case "<<":
		return intOp(op, a, b, func(x, y int) (Value, error) {
			if y < 0 {
				return nil, Errf("negative shift count")
			}
			return Int(x << uint(y)), nil
		})
	case ">>":
		return intOp(op, a, b, func(x, y int) (Value, error) {
			if y < 0 {
				return nil, Errf("negative shift count")
			}
			return Int(x >> uint(y)), nil
		})
	case "=":
		eq, err := Equal(a, b)
		if err != nil {
			return nil, err
		}
		return Bool(eq), nil
	case "!=":
		eq, err := Equal(a, b)
		if err != nil {
			return nil, err
		}
		return Bool(!eq), nil
	case "<":
		l, err := Less(a, b)
		if err != nil {
			return nil, err
		}
		return Bool(l), nil
	case ">":
		l, err := Less(b, a)
		if err != nil {
			return nil, err
		}
		return Bool(l), nil
	case "<=":
		l, err := Less(a, b)
		if err != nil {
			return nil, err
		}
		if l {
			return Bool(true), nil
		}
		eq, err := Equal(a, b)
		if err != nil {
			return nil, err
		}
		return Bool(eq), nil
	case ">=":
		l, err := Less(b, a)
		if err != nil {
			return nil, err
		}
		if l {
			return Bool(true), nil
		}
		eq, err := Equal(a, b)
		if err != nil {
			return nil, err
		}
		return Bool(eq), nil
	case "~":
		return Contains(a, b)
	case "&", "|":
		return AndOr(op, a, b)
	}
	return nil, Errf("unknown operator %s", op)
}

// AndOr is the strict operator table of '&' and '|' (Bool x Bool, Int x Int).
func AndOr(op string, a, b Value) (Value, error) {
	switch x := a.(type) {
	case Bool:
		if y, ok := b.(Bool); ok {
			if op == "&" {
				return x && y, nil
			}
			return x || y, nil
		}
	case Int:
		if y, ok := b.(Int); ok {
			if op == "&" {
				return x & y, nil
			}
			return x | y, nil
		}
	}
	return nil, Errf("operation '%s' not defined on %s, %s", op, TypeName(a), TypeName(b))
}

func Unary(op string, a Value) (Value, error) {
	switch op {
	case "-":
		switch x := a.(type) {
		case Int:
			return -x, nil
		case Float:
			return -x, nil
		}
	case "!":
		if x, ok := a.(Bool); ok {
			return !x, nil
		}
	}
	return nil, Errf("unary '%s' not defined on %s", op, TypeName(a))
}

// MergeMaps is map '+': a disjoint union (error on a common key). Iteration order:
// entries of a, then entries of b.
func MergeMaps(a, b *Map) (Value, error) {
	for _, k := range b.Keys {
		if _, ok := a.Get(k); ok {
			return nil, Errf("first map already contains key '%s'", k)
		}
	}
	return &Map{Keys: append(append([]string{}, a.Keys...), b.Keys...), Vals: append(append([]Value{}, a.Vals...), b.Vals...),
		Unordered: a.Unordered || b.Unordered}, nil
}
