package ref

import (
	"math"
	"strconv"
	"strings"
	"unicode/utf8"
)

var mapMethods, strMethods, closureMethods, scalarMethods map[string]Method

func mp(v Value) *Map { return v.(*Map) }

func init() {
	mapMethods = map[string]Method{
		"eval": m(0, func(in *Interp, r Value, a []Value) (Value, error) {
			x := mp(r)
			return &Map{Keys: x.Keys, Vals: x.Vals, Unordered: true}, nil
		}),
		"accept": m(1, func(in *Interp, r Value, a []Value) (Value, error) {
			f, err := wantFn("accept", a, 0, 2)
			if err != nil {
				return nil, err
			}
			x := mp(r)
			out := &Map{Unordered: x.Unordered}
			for i, k := range x.Keys {
				res, err := in.Apply(f, []Value{Str(k), x.Vals[i]})
				if err != nil {
					return nil, err
				}
				ok, err := wantBool("accept", res)
				if err != nil {
					return nil, err
				}
				if ok {
					out.Keys = append(out.Keys, k)
					out.Vals = append(out.Vals, x.Vals[i])
				}
			}
			return out, nil
		}),
		"map": m(1, func(in *Interp, r Value, a []Value) (Value, error) {
			f, err := wantFn("map", a, 0, 2)
			if err != nil {
				return nil, err
			}
			x := mp(r)
			out := &Map{Unordered: x.Unordered}
			for i, k := range x.Keys {
				res, err := in.Apply(f, []Value{Str(k), x.Vals[i]})
				if err != nil {
					return nil, err
				}
				out.Keys = append(out.Keys, k)
				out.Vals = append(out.Vals, res)
			}
			return out, nil
		}),
		"replaceMap": m(1, func(in *Interp, r Value, a []Value) (Value, error) {
			f, err := wantFn("replaceMap", a, 0, 1)
			if err != nil {
				return nil, err
			}
			return in.Apply(f, []Value{r})
		}),
		"list": m(0, func(in *Interp, r Value, a []Value) (Value, error) {
			x := mp(r)
			out := &List{Unordered: x.Unordered}
			for i, k := range x.Keys {
				out.Items = append(out.Items, &Map{Keys: []string{"key", "value"}, Vals: []Value{Str(k), x.Vals[i]}})
			}
			return out, nil
		}),
		"size": m(0, func(in *Interp, r Value, a []Value) (Value, error) { return Int(len(mp(r).Keys)), nil }),
		"string": m(0, func(in *Interp, r Value, a []Value) (Value, error) {
			s, err := ToString(r)
			if err != nil {
				return nil, err
			}
			if mp(r).Unordered && len(mp(r).Keys) > 1 {
				in.OrderLeak = true
			}
			return Str(s), nil
		}),
		"isAvail": {Min: -1, Fn: func(in *Interp, r Value, a []Value) (Value, error) {
			for _, k := range a {
				s, ok := k.(Str)
				if !ok {
					return nil, Errf("isAvail requires a string as argument")
				}
				if _, ok := mp(r).Get(string(s)); !ok {
					return Bool(false), nil
				}
			}
			return Bool(true), nil
		}},
		"get": m(1, func(in *Interp, r Value, a []Value) (Value, error) {
			s, ok := a[0].(Str)
			if !ok {
				return nil, Errf("get requires a string as argument")
			}
			v, ok := mp(r).Get(string(s))
			if !ok {
				return nil, Errf("key '%s' not found in map", s)
			}
			return v, nil
		}),
		"put": m(2, func(in *Interp, r Value, a []Value) (Value, error) {
			s, ok := a[0].(Str)
			if !ok {
				return nil, Errf("put requires a string as first argument")
			}
			x := mp(r)
			if _, ok := x.Get(string(s)); ok {
				return nil, Errf("key '%s' already present in map", s)
			}
			// the new entry is iterated first
			return &Map{Keys: append([]string{string(s)}, x.Keys...), Vals: append([]Value{a[1]}, x.Vals...), Unordered: x.Unordered}, nil
		}),
		"replace": m(1, func(in *Interp, r Value, a []Value) (Value, error) {
			f, err := wantFn("replace", a, 0, 1)
			if err != nil {
				return nil, err
			}
			res, err := in.Apply(f, []Value{r})
			if err != nil {
				return nil, err
			}
			rep, ok := res.(*Map)
			if !ok {
				return nil, Errf("the result of the function passed to replace must be a map")
			}
			x := mp(r)
			out := &Map{Unordered: x.Unordered}
			for i, k := range x.Keys {
				out.Keys = append(out.Keys, k)
				if v, ok := rep.Get(k); ok {
					out.Vals = append(out.Vals, v)
				} else {
					out.Vals = append(out.Vals, x.Vals[i])
				}
			}
			return out, nil
		}),
		"combine": m(2, func(in *Interp, r Value, a []Value) (Value, error) {
			f, err := wantFn("combine", a, 1, 2)
			if err != nil {
				return nil, err
			}
			other, ok := a[0].(*Map)
			if !ok {
				return nil, Errf("combine requires a map as first argument")
			}
			x := mp(r)
			out := &Map{Unordered: x.Unordered}
			for i, k := range x.Keys {
				o, ok := other.Get(k)
				if !ok {
					return nil, Errf("key '%s' not present in second map", k)
				}
				res, err := in.Apply(f, []Value{x.Vals[i], o})
				if err != nil {
					return nil, err
				}
				out.Keys = append(out.Keys, k)
				out.Vals = append(out.Vals, res)
			}
			return out, nil
		}),
	}

	strMethods = map[string]Method{
		"len":     m(0, func(in *Interp, r Value, a []Value) (Value, error) { return Int(len(string(r.(Str)))), nil }),
		"string":  m(0, func(in *Interp, r Value, a []Value) (Value, error) { return r, nil }),
		"trim":    m(0, func(in *Interp, r Value, a []Value) (Value, error) { return Str(strings.TrimSpace(string(r.(Str)))), nil }),
		"toLower": m(0, func(in *Interp, r Value, a []Value) (Value, error) { return Str(strings.ToLower(string(r.(Str)))), nil }),
		"toUpper": m(0, func(in *Interp, r Value, a []Value) (Value, error) { return Str(strings.ToUpper(string(r.(Str)))), nil }),
		"contains": m(1, func(in *Interp, r Value, a []Value) (Value, error) {
			s, ok := a[0].(Str)
			if !ok {
				return nil, Errf("contains needs a string as argument")
			}
			return Bool(strings.Contains(string(r.(Str)), string(s))), nil
		}),
		"indexOf": m(1, func(in *Interp, r Value, a []Value) (Value, error) {
			s, ok := a[0].(Str)
			if !ok {
				return nil, Errf("indexOf needs a string as argument")
			}
			return Int(strings.Index(string(r.(Str)), string(s))), nil
		}),
		"split": m(1, func(in *Interp, r Value, a []Value) (Value, error) {
			s, ok := a[0].(Str)
			if !ok {
				return nil, Errf("split needs a string as argument")
			}
			out := &List{}
			for _, p := range strings.Split(string(r.(Str)), string(s)) {
				out.Items = append(out.Items, Str(p))
			}
			return out, nil
		}),
		"cut": m(2, func(in *Interp, r Value, a []Value) (Value, error) {
			p, ok1 := a[0].(Int)
			n, ok2 := a[1].(Int)
			if !ok1 || !ok2 {
				return nil, Errf("cut requires integers as arguments (pos,len)")
			}
			// runes from position p, n of them (n<=0: the rest); documented by the
			// description and by the tests ("cut(5,0)" is the rest of the string)
			rs := []rune(string(r.(Str)))
			if !utf8.ValidString(string(r.(Str))) {
				in.Unspecified = true
			}
			if int(p) >= len(rs) {
				return Str(""), nil
			}
			if p > 0 {
				rs = rs[p:]
			}
			if n > 0 && int(n) < len(rs) {
				rs = rs[:n]
			}
			return Str(string(rs)), nil
		}),
		"behind": m(1, func(in *Interp, r Value, a []Value) (Value, error) {
			pre, ok := a[0].(Str)
			if !ok {
				return nil, Errf("behind needs a string as argument")
			}
			for _, line := range strings.Split(string(r.(Str)), "\n") {
				if p := strings.Index(line, string(pre)); p >= 0 {
					if p > 0 {
						in.Unspecified = true // documented for a prefix only
					}
					return Str(strings.TrimSpace(line[p+len(pre):])), nil
				}
			}
			return Str(""), nil
		}),
		"behindList": m(1, func(in *Interp, r Value, a []Value) (Value, error) {
			kl, ok := a[0].(Str)
			if !ok {
				return nil, Errf("behindList needs a string as argument")
			}
			key := strings.TrimSpace(string(kl))
			out := &List{}
			found := false
			for _, line := range strings.Split(string(r.(Str)), "\n") {
				line = strings.TrimSpace(line)
				if found {
					if line == "" {
						break
					}
					out.Items = append(out.Items, Str(line))
				} else if line == key {
					found = true
				}
			}
			return out, nil
		}),
		"replace": m(2, func(in *Interp, r Value, a []Value) (Value, error) {
			o, ok1 := a[0].(Str)
			n, ok2 := a[1].(Str)
			if !ok1 || !ok2 {
				return nil, Errf("replace needs two strings (old,new) as arguments")
			}
			if o == "" {
				in.Unspecified = true
			}
			return Str(strings.ReplaceAll(string(r.(Str)), string(o), string(n))), nil
		}),
		"toFloat": m(0, func(in *Interp, r Value, a []Value) (Value, error) {
			f, err := strconv.ParseFloat(string(r.(Str)), 64)
			if err != nil {
				return nil, Errf("not a float")
			}
			return Float(f), nil
		}),
		"toInt": m(0, func(in *Interp, r Value, a []Value) (Value, error) {
			i, err := strconv.Atoi(string(r.(Str)))
			if err != nil {
				return nil, Errf("not an int")
			}
			return Int(i), nil
		}),
	}

	closureMethods = map[string]Method{
		"args": m(0, func(in *Interp, r Value, a []Value) (Value, error) { return Int(r.(*Closure).N), nil }),
		"invoke": m(1, func(in *Interp, r Value, a []Value) (Value, error) {
			l, ok := a[0].(*List)
			if !ok {
				return nil, Errf("argument of invoke needs to be a list")
			}
			items, err := l.all()
			if err != nil {
				return nil, err
			}
			c := r.(*Closure)
			if len(items) != c.N {
				return nil, Errf("wrong number of arguments in invoke")
			}
			return in.Apply(c, items)
		}),
	}

	scalarMethods = map[string]Method{
		"string": m(0, func(in *Interp, r Value, a []Value) (Value, error) {
			s, err := ToString(r)
			return Str(s), err
		}),
	}
}

func floatFn(name string, valid func(float64) bool, f func(float64) float64) StaticFunc {
	return func(in *Interp, a []Value) (Value, error) {
		x, ok := ToFloat(a[0])
		if !ok {
			return nil, Errf("%s not allowed on %s", name, TypeName(a[0]))
		}
		if valid != nil && !valid(x) {
			return nil, Errf("%s not allowed with argument %v", name, x)
		}
		return Float(f(x)), nil
	}
}

// StaticArity gives the fixed argument count of a static function (-1: variable).
var StaticArity = map[string]int{
	"throw": 1, "string": 1, "isFloat": 1, "isInt": 1, "float": 1, "int": 1, "abs": 1, "sign": 1, "sqr": 1, "round": 1,
	"binAnd": 2, "binOr": 2, "numbers": 1, "goto": 1, "sqrt": 1, "ln": 1, "log10": 1, "trunc": 1, "floor": 1, "ceil": 1,
	"exp": 1, "sin": 1, "cos": 1, "tan": 1, "asin": 1, "acos": 1, "atan": 1, "min": -1, "max": -1,
}

// AddLanguageStatics registers the static functions of the value language.
func (in *Interp) AddLanguageStatics() {
	s := in.Statics
	s["throw"] = func(in *Interp, a []Value) (Value, error) {
		if t, ok := a[0].(Str); ok {
			return nil, Throw(string(t))
		}
		return nil, Errf("throw needs a string as argument")
	}
	s["string"] = func(in *Interp, a []Value) (Value, error) {
		t, err := ToString(a[0])
		if err != nil {
			return nil, err
		}
		if DeepUnordered(a[0]) {
			in.OrderLeak = true
		}
		return Str(t), nil
	}
	s["isFloat"] = func(in *Interp, a []Value) (Value, error) { _, ok := a[0].(Float); return Bool(ok), nil }
	s["isInt"] = func(in *Interp, a []Value) (Value, error) { _, ok := a[0].(Int); return Bool(ok), nil }
	s["float"] = func(in *Interp, a []Value) (Value, error) {
		f, ok := ToFloat(a[0])
		if !ok {
			return nil, Errf("float not allowed on %s", TypeName(a[0]))
		}
		return Float(f), nil
	}
	s["int"] = func(in *Interp, a []Value) (Value, error) {
		switch x := a[0].(type) {
		case Int:
			return x, nil
		case Float:
			if math.IsNaN(float64(x)) || math.Abs(float64(x)) >= 9.2e18 {
				in.Unspecified = true
			}
			return Int(int(x)), nil
		}
		return nil, Errf("int not allowed on %s", TypeName(a[0]))
	}
	s["abs"] = func(in *Interp, a []Value) (Value, error) {
		switch x := a[0].(type) {
		case Int:
			if x < 0 {
				return -x, nil
			}
			return x, nil
		case Float:
			return Float(math.Abs(float64(x))), nil
		}
		return nil, Errf("abs not allowed on %s", TypeName(a[0]))
	}
	s["sign"] = func(in *Interp, a []Value) (Value, error) {
		switch x := a[0].(type) {
		case Int:
			switch {
			case x < 0:
				return Int(-1), nil
			case x == 0:
				return Int(0), nil
			}
			return Int(1), nil
		case Float:
			switch {
			case x < 0:
				return Float(-1), nil
			case x == 0:
				return Float(0), nil
			}
			if math.IsNaN(float64(x)) {
				in.Unspecified = true
			}
			return Float(1), nil
		}
		return nil, Errf("sign not allowed on %s", TypeName(a[0]))
	}
	s["sqr"] = func(in *Interp, a []Value) (Value, error) {
		switch x := a[0].(type) {
		case Int:
			return x * x, nil
		case Float:
			return x * x, nil
		}
		return nil, Errf("sqr not allowed on %s", TypeName(a[0]))
	}
	s["round"] = func(in *Interp, a []Value) (Value, error) {
		switch x := a[0].(type) {
		case Int:
			return x, nil
		case Float:
			if math.IsNaN(float64(x)) || math.Abs(float64(x)) >= 9.2e18 {
				in.Unspecified = true
			}
			return Int(math.Round(float64(x))), nil
		}
		return nil, Errf("round not allowed on %s", TypeName(a[0]))
	}
	bin := func(name string, f func(x, y Int) Int) StaticFunc {
		return func(in *Interp, a []Value) (Value, error) {
			x, ok1 := a[0].(Int)
			y, ok2 := a[1].(Int)
			if !ok1 || !ok2 {
				return nil, Errf("%s not allowed on %s, %s", name, TypeName(a[0]), TypeName(a[1]))
			}
			return f(x, y), nil
		}
	}
	s["binAnd"] = bin("binAnd", func(x, y Int) Int { return x & y })
	s["binOr"] = bin("binOr", func(x, y Int) Int { return x | y })
	s["numbers"] = func(in *Interp, a []Value) (Value, error) {
		n, ok := a[0].(Int)
		if !ok {
			return nil, Errf("numbers requires an int value")
		}
		if n > 100000 {
			in.BudgetHit = true
			return nil, ErrBudget
		}
		out := &List{}
		for i := 0; i < int(n); i++ {
			out.Items = append(out.Items, Int(i))
		}
		return out, nil
	}
	s["goto"] = func(in *Interp, a []Value) (Value, error) {
		n, ok := a[0].(Int)
		if !ok {
			return nil, Errf("goto requires an int")
		}
		return &Map{Keys: []string{"state"}, Vals: []Value{n}}, nil
	}
	nonNeg := func(x float64) bool { return x >= 0 }
	unit := func(x float64) bool { return x >= -1 && x <= 1 }
	s["sqrt"] = floatFn("sqrt", nonNeg, math.Sqrt)
	s["ln"] = floatFn("ln", nonNeg, math.Log)
	s["log10"] = floatFn("log10", nonNeg, math.Log10)
	s["trunc"] = floatFn("trunc", nil, math.Trunc)
	s["floor"] = floatFn("floor", nil, math.Floor)
	s["ceil"] = floatFn("ceil", nil, math.Ceil)
	s["exp"] = floatFn("exp", nil, math.Exp)
	s["sin"] = floatFn("sin", nil, math.Sin)
	s["cos"] = floatFn("cos", nil, math.Cos)
	s["tan"] = floatFn("tan", nil, math.Tan)
	s["asin"] = floatFn("asin", unit, math.Asin)
	s["acos"] = floatFn("acos", unit, math.Acos)
	s["atan"] = floatFn("atan", nil, math.Atan)
	mm := func(max bool) StaticFunc {
		return func(in *Interp, a []Value) (Value, error) {
			if len(a) == 0 {
				return nil, Errf("min/max need at least one argument")
			}
			best := a[0]
			for _, v := range a[1:] {
				var le bool
				var err error
				if max {
					le, err = Less(best, v)
				} else {
					le, err = Less(v, best)
				}
				if err != nil {
					return nil, err
				}
				if le {
					best = v
				}
			}
			return best, nil
		}
	}
	s["min"] = mm(false)
	s["max"] = mm(true)
}
