package ref

import (
	"math"

	"verif/harness/lang"
)

// Env is a linked lexical environment.
type Env struct {
	Name  string
	Val   Value
	Local bool // bound by let/func/closure parameter (not a top-level argument or constant)
	Next  *Env
}

func (e *Env) Bind(name string, v Value, local bool) *Env {
	return &Env{Name: name, Val: v, Local: local, Next: e}
}

func (e *Env) Lookup(name string) (*Env, bool) {
	for p := e; p != nil; p = p.Next {
		if p.Name == name {
			return p, true
		}
	}
	return nil, false
}

// StaticFunc is a host/static function of the reference.
type StaticFunc func(in *Interp, args []Value) (Value, error)

// Interp holds the per-evaluation state of the reference interpreter.
type Interp struct {
	Statics map[string]StaticFunc
	// statistics
	LocalReads int // reads of let/func/parameter bindings
	Calls      int
	Depth      int
	MaxDepth   int
	Steps      int
	// Budget bounds the work of one evaluation; exceeding it makes the case
	// "out of domain" (ErrBudget), never a verdict.
	Budget int
	// Flags raised by the library when the outcome is not fully specified:
	SortUsed    bool // an order* method ran
	SortTies    bool // ... and equal keys belong to different items (several valid results)
	OrderLeak   bool // the string form of a map with unspecified iteration order was taken
	Unspecified bool // an edge the documentation leaves open was touched
	Rounded     bool // a numeric method with inherently rounded results ran (compare with a tolerance)
	Inexact     bool // a float product was rounded (regrouping by the optimizer may change the last bit)
	// BudgetHit: the budget was exceeded somewhere - also where the error does not reach the
	// outcome itself (an element of a list result, a branch behind try)
	BudgetHit bool
}

// ErrBudget is returned when the evaluation exceeds the step or depth budget.
var ErrBudget = &Error{Msg: "reference budget exceeded"}

func NewInterp() *Interp {
	return &Interp{Statics: map[string]StaticFunc{}, Budget: 200000}
}

// Globals returns the environment of the language constants.
func Globals() *Env {
	var e *Env
	e = e.Bind("pi", Float(math.Pi), false)
	e = e.Bind("true", Bool(true), false)
	e = e.Bind("false", Bool(false), false)
	return e
}

func (in *Interp) step() error {
	in.Steps++
	if in.Steps > in.Budget {
		in.BudgetHit = true
		return ErrBudget
	}
	return nil
}

// Eval evaluates e in env.
func (in *Interp) Eval(e *lang.Expr, env *Env) (Value, error) {
	if err := in.step(); err != nil {
		return nil, err
	}
	switch e.K {
	case lang.KInt:
		return Int(e.I), nil
	case lang.KFloat:
		return Float(e.F), nil
	case lang.KStr:
		return Str(e.S), nil
	case lang.KVar:
		b, ok := env.Lookup(e.S)
		if !ok {
			return nil, Errf("unbound identifier %s (generator bug)", e.S)
		}
		if b.Local {
			in.LocalReads++
		}
		return b.Val, nil
	case lang.KUn:
		v, err := in.Eval(e.X[0], env)
		if err != nil {
			return nil, err
		}
		return Unary(e.S, v)
	case lang.KBin:
		a, err := in.Eval(e.X[0], env)
		if err != nil {
			return nil, err
		}
		if e.S == "&" || e.S == "|" {
			if ab, ok := a.(Bool); ok {
				if (e.S == "&" && !bool(ab)) || (e.S == "|" && bool(ab)) {
					return ab, nil
				}
				b, err := in.Eval(e.X[1], env)
				if err != nil {
					return nil, err
				}
				if bb, ok := b.(Bool); ok {
					return bb, nil
				}
				return nil, Errf("not a bool: %s", TypeName(b))
			}
			b, err := in.Eval(e.X[1], env)
			if err != nil {
				return nil, err
			}
			return AndOr(e.S, a, b)
		}
		b, err := in.Eval(e.X[1], env)
		if err != nil {
			return nil, err
		}
		return in.Binary(e.S, a, b)
	case lang.KLet:
		v, err := in.Eval(e.X[0], env)
		if err != nil {
			return nil, err
		}
		return in.Eval(e.X[1], env.Bind(e.S, v, true))
	case lang.KFunc:
		clo := &Closure{N: len(e.Names)}
		fenv := env.Bind(e.S, clo, true)
		clo.Call = in.makeCall(e.Names, e.X[0], fenv)
		return in.Eval(e.X[1], fenv)
	case lang.KLam:
		return &Closure{N: len(e.Names), Call: in.makeCall(e.Names, e.X[0], env)}, nil
	case lang.KCall:
		f, err := in.Eval(e.X[0], env)
		if err != nil {
			return nil, err
		}
		clo, ok := f.(*Closure)
		if !ok {
			return nil, Errf("not a function: %s", TypeName(f))
		}
		if clo.N >= 0 && clo.N != len(e.X)-1 {
			return nil, Errf("wrong number of arguments: required %d, found %d", clo.N, len(e.X)-1)
		}
		args, err := in.evalArgs(e.X[1:], env)
		if err != nil {
			return nil, err
		}
		return in.Apply(clo, args)
	case lang.KSCall:
		sf, ok := in.Statics[e.S]
		if !ok {
			return nil, Errf("unknown static function %s (generator bug)", e.S)
		}
		args, err := in.evalArgs(e.X, env)
		if err != nil {
			return nil, err
		}
		return sf(in, args)
	case lang.KMCall:
		recv, err := in.Eval(e.X[0], env)
		if err != nil {
			return nil, err
		}
		// a map field holding a closure wins over the method table
		if m, ok := recv.(*Map); ok {
			if fv, ok := m.Get(e.S); ok {
				if clo, ok := fv.(*Closure); ok {
					if clo.N >= 0 && clo.N != len(e.X)-1 {
						return nil, Errf("wrong number of arguments at call of %s", e.S)
					}
					args, err := in.evalArgs(e.X[1:], env)
					if err != nil {
						return nil, err
					}
					return in.Apply(clo, args)
				}
			}
		}
		me, ok := LookupMethod(recv, e.S)
		if !ok {
			return nil, Errf("method %s not found on %s", e.S, TypeName(recv))
		}
		// (a failing list keeps only the prefix in front of the failure: which items that are depends on the order too)
		if l, isList := recv.(*List); isList && l.Unordered && (len(l.Items) > 1 || l.Err != nil) && !orderInsensitive[e.S] {
			in.OrderLeak = true // an order-sensitive use of a list whose order is unspecified
		}
		if me.Min >= 0 && (len(e.X)-1 < me.Min || len(e.X)-1 > me.Max) && !me.CheckInside {
			return nil, Errf("wrong number of arguments at call of %s", e.S)
		}
		args, err := in.evalArgs(e.X[1:], env)
		if err != nil {
			return nil, err
		}
		if me.CheckInside && (len(args) < me.Min || len(args) > me.Max) {
			return nil, Errf("wrong number of arguments at call of %s", e.S)
		}
		for _, a := range args {
			if l, isList := a.(*List); isList && l.Unordered && (len(l.Items) > 1 || l.Err != nil) {
				in.OrderLeak = true // a list argument (cross, merge ...) whose order is unspecified
			}
		}
		return me.Fn(in, recv, args)
	case lang.KIf:
		c, err := in.Eval(e.X[0], env)
		if err != nil {
			return nil, err
		}
		cb, ok := c.(Bool)
		if !ok {
			return nil, Errf("if condition is not a bool")
		}
		if cb {
			return in.Eval(e.X[1], env)
		}
		return in.Eval(e.X[2], env)
	case lang.KSwitch:
		v, err := in.Eval(e.X[0], env)
		if err != nil {
			return nil, err
		}
		n := len(e.X)
		for i := 1; i+1 <= n-1; i += 2 {
			cv, err := in.Eval(e.X[i], env)
			if err != nil {
				return nil, err
			}
			eq, err := Equal(v, cv)
			if err != nil {
				return nil, err
			}
			if eq {
				return in.Eval(e.X[i+1], env)
			}
		}
		return in.Eval(e.X[n-1], env)
	case lang.KTry:
		v, err := in.Eval(e.X[0], env)
		if err == nil {
			return v, nil
		}
		if err == ErrBudget {
			return nil, err
		}
		cv, cerr := in.Eval(e.X[1], env)
		if cerr != nil {
			return nil, cerr
		}
		if clo, ok := cv.(*Closure); ok && clo.N == 1 {
			return in.Apply(clo, []Value{Str(err.Error())})
		}
		return cv, nil
	case lang.KList:
		items, err := in.evalArgs(e.X, env)
		if err != nil {
			return nil, err
		}
		return &List{Items: items}, nil
	case lang.KMap:
		m := &Map{}
		for i, k := range e.Names {
			v, err := in.Eval(e.X[i], env)
			if err != nil {
				return nil, err
			}
			m.Keys = append(m.Keys, k)
			m.Vals = append(m.Vals, v)
		}
		return m, nil
	case lang.KIndex:
		l, err := in.Eval(e.X[0], env)
		if err != nil {
			return nil, err
		}
		i, err := in.Eval(e.X[1], env)
		if err != nil {
			return nil, err
		}
		if ll, ok := l.(*List); ok && ll.Unordered && len(ll.Items) > 1 {
			in.OrderLeak = true
		}
		return IndexList(l, i)
	case lang.KMember:
		m, err := in.Eval(e.X[0], env)
		if err != nil {
			return nil, err
		}
		mm, ok := m.(*Map)
		if !ok {
			return nil, Errf("'.%s' not possible; %s is not a map", e.S, TypeName(m))
		}
		v, ok := mm.Get(e.S)
		if !ok {
			return nil, Errf("key '%s' not found in map", e.S)
		}
		return v, nil
	}
	return nil, Errf("unknown node kind %s", e.K)
}

func (in *Interp) evalArgs(xs []*lang.Expr, env *Env) ([]Value, error) {
	args := make([]Value, len(xs))
	for i, x := range xs {
		v, err := in.Eval(x, env)
		if err != nil {
			return nil, err
		}
		args[i] = v
	}
	return args, nil
}

func (in *Interp) makeCall(params []string, body *lang.Expr, env *Env) func([]Value) (Value, error) {
	return func(args []Value) (Value, error) {
		e := env
		for i, p := range params {
			e = e.Bind(p, args[i], true)
		}
		return in.Eval(body, e)
	}
}

// Apply calls a closure (arity is checked by the callers that the language makes
// check it; a mismatch here is a reference-library bug).
func (in *Interp) Apply(clo *Closure, args []Value) (Value, error) {
	if clo.N >= 0 && clo.N != len(args) {
		return nil, Errf("closure with %d parameters applied to %d arguments", clo.N, len(args))
	}
	in.Calls++
	in.Depth++
	if in.Depth > in.MaxDepth {
		in.MaxDepth = in.Depth
	}
	defer func() { in.Depth-- }()
	if in.Depth > 400 {
		in.BudgetHit = true
		return nil, ErrBudget
	}
	return clo.Call(args)
}

var orderInsensitive = map[string]bool{"size": true, "map": true, "accept": true, "sum": true, "mean": true, "min": true, "max": true,
	"order": true, "orderRev": true, "groupByString": true, "groupByInt": true, "groupByEqual": true, "uniqueString": true, "uniqueInt": true, "eval": true}

// IndexList is list[index].
func IndexList(l, i Value) (Value, error) {
	list, ok := l.(*List)
	if !ok {
		return nil, Errf("not a list: %s", TypeName(l))
	}
	idx, ok := i.(Int)
	if !ok {
		return nil, Errf("not an int: %s", TypeName(i))
	}
	if idx < 0 {
		return nil, Errf("negative list index")
	}
	// the whole list is materialised by an index access
	if list.Err != nil {
		return nil, list.Err
	}
	if int(idx) >= len(list.Items) {
		return nil, Errf("index out of bounds")
	}
	return list.Items[idx], nil
}
