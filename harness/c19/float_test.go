package c19

import (
	"fmt"
	"math"
	"math/big"
	"strconv"
	"strings"
	"testing"
	"unicode"

	"github.com/hneemann/parser2"
	"github.com/hneemann/parser2/example"
	"github.com/hneemann/parser2/funcGen"
	"pgregory.net/rapid"

	"verif/harness/evid"
)

var floatGrammar = Grammar{Bin: []string{"=", "<", ">", "+", "-", "*", "/", "^"}, UnaryAlsoBinary: map[string]bool{"-": true}}
var floatLeaves = []string{"x", "y", "0", "1", "2", "3", "0.5"}
var floatFuncs = []string{"sqr", "sqrt"}
var floatVars = map[string]bool{"x": true, "y": true}
var floatGrid = []float64{-2, -1, 0, 0.5, 1, 2, 3}

func fromBool(b bool) float64 {
	if b {
		return 1
	}
	return 0
}

// newFloat builds a fresh generator configured like example/minimal.go. Only '+' and
// '*' are commutative *and* associative (on the exact domain), so only their flags are
// permuted; '=' is declared non-commutative here because the optimizer regroups chains
// of a "commutative" operator, which is only sound for associative ones.
func newFloat(opt bool, commAdd, commMul bool) *funcGen.FunctionGenerator[float64] {
	g := funcGen.New[float64]().
		SetComfort(true).
		AddConstant("pi", math.Pi).
		AddSimpleOp("=", false, func(a, b float64) (float64, error) { return fromBool(a == b), nil }).
		AddSimpleOp("<", false, func(a, b float64) (float64, error) { return fromBool(a < b), nil }).
		AddSimpleOp(">", false, func(a, b float64) (float64, error) { return fromBool(a > b), nil }).
		AddSimpleOp("+", commAdd, func(a, b float64) (float64, error) { return a + b, nil }).
		AddSimpleOp("-", false, func(a, b float64) (float64, error) { return a - b, nil }).
		AddSimpleOp("*", commMul, func(a, b float64) (float64, error) { return a * b, nil }).
		AddSimpleOp("/", false, func(a, b float64) (float64, error) { return a / b, nil }).
		AddSimpleOp("^", false, func(a, b float64) (float64, error) { return math.Pow(a, b), nil }).
		AddUnaryFunc("-", func(a float64) (float64, error) { return -a, nil }).
		AddSimpleFunction("sin", math.Sin).
		AddSimpleFunction("cos", math.Cos).
		AddSimpleFunction("tan", math.Tan).
		AddSimpleFunction("exp", math.Exp).
		AddSimpleFunction("ln", math.Log).
		AddSimpleFunction("sqrt", math.Sqrt).
		AddSimpleFunction("sqr", func(x float64) float64 { return x * x }).
		SetToBool(func(c float64) (bool, bool) { return c != 0, true }).
		SetNumberParser(parser2.NumberParserFunc[float64](func(n string) (float64, error) { return strconv.ParseFloat(n, 64) }))
	if !opt {
		g.SetOptimizer(nil)
	}
	return g
}

type floatGen struct {
	name string
	g    *funcGen.FunctionGenerator[float64]
}

var floatGens []floatGen

func setupFloat() {
	if floatGens != nil {
		return
	}
	shard, _ := evid.Shard()
	on := shard%2 == 0
	s := example.VerifMinimal()
	if !on {
		s.SetOptimizer(nil)
	}
	floatGens = append(floatGens, floatGen{fmt.Sprintf("example.minimal(opt=%v)", on), s})
	for m := 0; m < 4; m++ {
		floatGens = append(floatGens, floatGen{fmt.Sprintf("rebuilt(opt=true,comm+=%v,comm*=%v)", m&1 != 0, m&2 != 0), newFloat(true, m&1 != 0, m&2 != 0)})
		floatGens = append(floatGens, floatGen{fmt.Sprintf("rebuilt(opt=false,comm+=%v,comm*=%v)", m&1 != 0, m&2 != 0), newFloat(false, m&1 != 0, m&2 != 0)})
	}
}

func floatGensFor(idx int64) []floatGen {
	m := int(idx % 4)
	return []floatGen{floatGens[0], floatGens[1+2*m], floatGens[2+2*m]}
}

// ---- exact oracle ----------------------------------------------------------------

var (
	limNum = new(big.Int).Lsh(big.NewInt(1), 12)
	limDen = new(big.Int).Lsh(big.NewInt(1), 12)
)

// inDomain: the value lies in the 12.12 fixed-point range. Every intermediate of the
// original tree must satisfy this; then each regrouping of '+'/'*' chains the optimizer
// may perform is exact in float64 as well (sums of such values need <= 26 bits,
// partial products of a product that is in range have smaller odd parts).
func inDomain(r *big.Rat) bool {
	if new(big.Int).Abs(r.Num()).Cmp(new(big.Int).Mul(limNum, r.Denom())) > 0 {
		return false
	}
	d := r.Denom()
	if d.Cmp(limDen) > 0 {
		return false
	}
	// dyadic?
	return new(big.Int).And(d, new(big.Int).Sub(d, big.NewInt(1))).Sign() == 0
}

var ratOne = big.NewRat(1, 1)
var ratZero = big.NewRat(0, 1)

// evalRat evaluates exactly; ok=false means "outside the exact domain" (skipped).
func evalRat(n *Node, env map[string]*big.Rat) (*big.Rat, bool) {
	var res *big.Rat
	switch n.Kind {
	case "leaf":
		if v, ok := env[n.Op]; ok {
			return v, true
		}
		r, ok := new(big.Rat).SetString(n.Op)
		if !ok {
			panic("bad leaf " + n.Op)
		}
		return r, true
	case "un":
		a, ok := evalRat(n.L, env)
		if !ok {
			return nil, false
		}
		res = new(big.Rat).Neg(a)
	case "call":
		a, ok := evalRat(n.L, env)
		if !ok {
			return nil, false
		}
		switch n.Op {
		case "sqr":
			res = new(big.Rat).Mul(a, a)
		case "sqrt":
			if a.Sign() < 0 {
				return nil, false
			}
			num := new(big.Int).Sqrt(a.Num())
			den := new(big.Int).Sqrt(a.Denom())
			if new(big.Int).Mul(num, num).Cmp(a.Num()) != 0 || new(big.Int).Mul(den, den).Cmp(a.Denom()) != 0 {
				return nil, false
			}
			res = new(big.Rat).SetFrac(num, den)
		default:
			panic("bad func")
		}
	case "bin":
		a, ok := evalRat(n.L, env)
		if !ok {
			return nil, false
		}
		b, ok := evalRat(n.R, env)
		if !ok {
			return nil, false
		}
		switch n.Op {
		case "=":
			res = boolRat(a.Cmp(b) == 0)
		case "<":
			res = boolRat(a.Cmp(b) < 0)
		case ">":
			res = boolRat(a.Cmp(b) > 0)
		case "+":
			res = new(big.Rat).Add(a, b)
		case "-":
			res = new(big.Rat).Sub(a, b)
		case "*":
			res = new(big.Rat).Mul(a, b)
		case "/":
			if b.Sign() == 0 {
				return nil, false
			}
			res = new(big.Rat).Quo(a, b)
		case "^":
			if !b.IsInt() {
				return nil, false
			}
			e := b.Num().Int64()
			if !b.Num().IsInt64() || e < -12 || e > 24 {
				return nil, false
			}
			if a.Sign() == 0 && e < 0 {
				return nil, false
			}
			res = new(big.Rat).Set(ratOne)
			base := a
			if e < 0 {
				base = new(big.Rat).Inv(a)
				e = -e
			}
			for i := int64(0); i < e; i++ {
				res.Mul(res, base)
				if !inDomain(res) {
					return nil, false
				}
			}
		default:
			panic("bad op")
		}
	case "let":
		v, ok := evalRat(n.L, env)
		if !ok {
			return nil, false
		}
		e2 := map[string]*big.Rat{}
		for k, x := range env {
			e2[k] = x
		}
		e2[n.Op] = v
		return evalRat(n.R, e2)
	case "if":
		c, ok := evalRat(n.C, env)
		if !ok {
			return nil, false
		}
		if c.Sign() != 0 {
			return evalRat(n.L, env)
		}
		return evalRat(n.R, env)
	default:
		panic("bad node " + n.Kind)
	}
	if !inDomain(res) {
		return nil, false
	}
	return res, true
}

func boolRat(b bool) *big.Rat {
	if b {
		return ratOne
	}
	return ratZero
}

// ---- rendering with implicit multiplication -------------------------------------

// applyJuxt decides for every '*' node marked Juxt whether juxtaposition is lexically
// possible (comfort mode rules of the tokenizer) and downgrades the mark otherwise.
// It returns the number of juxtapositions actually rendered.
func applyJuxt(g Grammar, n *Node) int {
	if n == nil || n.Kind == "leaf" {
		return 0
	}
	cnt := applyJuxt(g, n.L) + applyJuxt(g, n.R) + applyJuxt(g, n.C)
	if n.Kind != "bin" || n.Op != "*" || n.Juxt == 0 {
		return cnt
	}
	p := g.prio("*")
	ltxt := g.Render(n.L)
	if g.operandNeedsParens(n.L, p, false) || (g.endsOpen(n.L) > -1 && p > g.endsOpen(n.L)) {
		ltxt = "(" + ltxt + ")"
	}
	rtxt := g.Render(n.R)
	if g.operandNeedsParens(n.R, p, true) {
		rtxt = "(" + rtxt + ")"
	}
	lk := lastTokenKind(ltxt)
	rk := firstTokenKind(rtxt)
	ok := false
	tightOK := false
	switch rk {
	case '(':
		ok = lk == 'n' || lk == ')' || lk == 'i'
		tightOK = lk == 'n' || lk == ')'
	case 'n':
		ok = lk == 'n' || lk == ')' || lk == 'i'
		tightOK = lk == ')'
	case 'i':
		ok = lk == 'n' || lk == ')' || lk == 'i'
		tightOK = lk == ')' || (lk == 'n' && !strings.HasPrefix(rtxt, "e"))
	}
	if !ok {
		n.Juxt = 0
		return cnt
	}
	if n.Juxt == 2 && !tightOK {
		n.Juxt = 1
	}
	return cnt + 1
}

// lastTokenKind lexes s the way the tokenizer does (numbers: a digit followed by
// digits, '.', 'e' and a sign behind 'e'; identifiers: a letter or '_' followed by
// letters, digits, '_') and returns the kind of the last token: 'n', 'i', ')' or 0.
func lastTokenKind(s string) rune {
	var last rune
	rs := []rune(s)
	for i := 0; i < len(rs); {
		c := rs[i]
		switch {
		case unicode.IsDigit(c):
			i++
			var prev rune
			for i < len(rs) && (unicode.IsDigit(rs[i]) || rs[i] == '.' || rs[i] == 'e' || (prev == 'e' && (rs[i] == '-' || rs[i] == '+'))) {
				prev = rs[i]
				i++
			}
			last = 'n'
		case unicode.IsLetter(c) || c == '_':
			i++
			for i < len(rs) && (unicode.IsLetter(rs[i]) || unicode.IsDigit(rs[i]) || rs[i] == '_') {
				i++
			}
			last = 'i'
		case c == ')':
			last = ')'
			i++
		case c == ' ':
			i++
		default:
			last = 0
			i++
		}
	}
	return last
}

func firstTokenKind(s string) rune {
	if s == "" {
		return 0
	}
	c := rune(s[0])
	switch {
	case c == '(':
		return '('
	case unicode.IsDigit(c):
		return 'n'
	case unicode.IsLetter(c):
		return 'i'
	}
	return 0
}

func clearJuxt(n *Node) {
	if n == nil {
		return
	}
	n.Juxt = 0
	clearJuxt(n.L)
	clearJuxt(n.R)
	clearJuxt(n.C)
}

func markJuxt(n *Node, mode int) {
	if n == nil {
		return
	}
	if n.Kind == "bin" && n.Op == "*" {
		n.Juxt = mode
	}
	markJuxt(n.L, mode)
	markJuxt(n.R, mode)
	markJuxt(n.C, mode)
}

// ---- the check -------------------------------------------------------------------

type FloatCase struct {
	Tree *Node  `json:"tree"`
	Text string `json:"text"`
	// Order: the binary operators in ascending priority, if not the order of example/minimal.go
	// (any declared priorities: the prefix '-' may have its binary twin at the lowest priority)
	Order []string `json:"operator_order,omitempty"`
}

var floatOps = map[string]func(a, b float64) (float64, error){
	"=": func(a, b float64) (float64, error) { return fromBool(a == b), nil },
	"<": func(a, b float64) (float64, error) { return fromBool(a < b), nil },
	">": func(a, b float64) (float64, error) { return fromBool(a > b), nil },
	"+": func(a, b float64) (float64, error) { return a + b, nil },
	"-": func(a, b float64) (float64, error) { return a - b, nil },
	"*": func(a, b float64) (float64, error) { return a * b, nil },
	"/": func(a, b float64) (float64, error) { return a / b, nil },
	"^": func(a, b float64) (float64, error) { return math.Pow(a, b), nil },
}

// newFloatOrdered: the float configuration with the binary operators declared in the
// given order (ascending priority).
func newFloatOrdered(opt bool, order []string) *funcGen.FunctionGenerator[float64] {
	g := funcGen.New[float64]().SetComfort(true).AddConstant("pi", math.Pi)
	for _, op := range order {
		g.AddSimpleOp(op, false, floatOps[op])
	}
	g.AddUnaryFunc("-", func(a float64) (float64, error) { return -a, nil }).
		AddSimpleFunction("sqrt", math.Sqrt).
		AddSimpleFunction("sqr", func(x float64) float64 { return x * x }).
		SetToBool(func(c float64) (bool, bool) { return c != 0, true }).
		SetNumberParser(parser2.NumberParserFunc[float64](func(n string) (float64, error) { return strconv.ParseFloat(n, 64) }))
	if !opt {
		g.SetOptimizer(nil)
	}
	return g
}

func orderedGens(order []string) []floatGen {
	return []floatGen{{fmt.Sprintf("operators %v (opt=true)", order), newFloatOrdered(true, order)}, {fmt.Sprintf("operators %v (opt=false)", order), newFloatOrdered(false, order)}}
}

type floatStats struct{ evaluated, skipped int }

func checkFloat(c FloatCase, gens []floatGen, st *floatStats) string {
	type fn = funcGen.Func[float64]
	fs := make([]fn, len(gens))
	for i, fg := range gens {
		f, _, err := fg.g.Generate(c.Text, "x", "y")
		if err != nil {
			return fmt.Sprintf("%s: Generate(%q) failed: %v", fg.name, c.Text, err)
		}
		fs[i] = f
	}
	reused := funcGen.NewEmptyStack[float64]()
	usesY := c.Tree.HasVar(map[string]bool{"y": true})
	usesX := c.Tree.HasVar(map[string]bool{"x": true})
	for _, x := range floatGrid {
		for _, y := range floatGrid {
			if !usesY && y != floatGrid[0] {
				continue
			}
			if !usesX && x != floatGrid[0] {
				continue
			}
			want, ok := evalRat(c.Tree, map[string]*big.Rat{"x": new(big.Rat).SetFloat64(x), "y": new(big.Rat).SetFloat64(y)})
			if !ok {
				st.skipped++
				continue
			}
			w, exact := want.Float64()
			if !exact {
				panic("domain check is wrong: " + want.String())
			}
			st.evaluated++
			for i, f := range fs {
				got, err := f.Eval(x, y)
				if err != nil {
					return fmt.Sprintf("%s: %q with x=%v y=%v: error %v, want %v", gens[i].name, c.Text, x, y, err, w)
				}
				if got != w {
					return fmt.Sprintf("%s: %q with x=%v y=%v = %v, want %v", gens[i].name, c.Text, x, y, got, w)
				}
				// one stack for all assignments, initialised again for each
				reused = reused.Init(x, y)
				if got, err := f(reused); err != nil || got != w {
					return fmt.Sprintf("%s: %q with x=%v y=%v on a stack that was initialised again = %v (%v), want %v", gens[i].name, c.Text, x, y, got, err, w)
				}
			}
		}
	}
	return ""
}

var floatCount = map[int]int64{}

func fcount(n int) int64 {
	if n == 0 {
		return int64(len(floatLeaves))
	}
	if v, ok := floatCount[n]; ok {
		return v
	}
	var s int64
	for i := 0; i < n; i++ {
		s += fcount(i) * fcount(n-1-i)
	}
	v := int64(len(floatGrammar.Bin))*s + int64(1+len(floatFuncs))*fcount(n-1)
	floatCount[n] = v
	return v
}

func unrankFloat(n int, idx int64) *Node {
	if n == 0 {
		return leaf(floatLeaves[idx])
	}
	nu := int64(1 + len(floatFuncs))
	if idx < nu*fcount(n-1) {
		k := idx % nu
		sub := unrankFloat(n-1, idx/nu)
		if k == 0 {
			return un("-", sub)
		}
		return &Node{Kind: "call", Op: floatFuncs[k-1], L: sub}
	}
	idx -= nu * fcount(n-1)
	nb := int64(len(floatGrammar.Bin))
	for i := 0; i < n; i++ {
		block := nb * fcount(i) * fcount(n-1-i)
		if idx < block {
			op := floatGrammar.Bin[idx%nb]
			idx /= nb
			return bin(op, unrankFloat(i, idx%fcount(i)), unrankFloat(n-1-i, idx/fcount(i)))
		}
		idx -= block
	}
	panic("rank out of range")
}

func recordFloat(c FloatCase, st floatStats, class string) {
	nt := c.Tree.Ops() >= 1 && c.Tree.HasVar(floatVars) && st.evaluated > 0
	evid.R.Case(nt, "float:"+c.Text, func() any {
		return map[string]any{"type": "float", "exp": c.Text, "assignments_exact": st.evaluated, "assignments_skipped_inexact": st.skipped}
	}, class)
	evid.R.ClassN("float_assignments_checked", int64(st.evaluated))
	evid.R.ClassN("float_assignments_skipped_not_exact", int64(st.skipped))
	if st.evaluated == 0 {
		evid.R.Skip()
	}
}

// TestExhaustiveFloat enumerates every float expression with up to N operator nodes
// (N=2 quick, N=3 thorough) over {x,y,0,1,2,3,0.5}, the 8 binary operators, unary minus
// and sqr/sqrt, each in two renderings (explicit '*' and implicit multiplication where
// the lexer allows it), on all assignments of the grid for which the arithmetic is exact.
func TestExhaustiveFloat(t *testing.T) {
	setupFloat()
	defer evid.R.Flush()
	maxN := 2
	if evid.Thorough() {
		maxN = 3
	}
	if v := evid.EnvInt("VERIF_C19_FLOAT_N", 0); v > 0 {
		maxN = v
	}
	shard, shards := evid.Shard()
	classes := int64(shards / 2)
	if classes < 1 {
		classes = 1
	}
	class := int64(shard/2) % classes
	var space int64
	for n := 0; n <= maxN; n++ {
		space += fcount(n)
		for idx := class; idx < fcount(n); idx += classes {
			tree := unrankFloat(n, idx)
			c := FloatCase{Tree: tree, Text: floatGrammar.Render(tree)}
			var st floatStats
			if msg := checkFloat(c, floatGensFor(idx), &st); msg != "" {
				evid.Fail(t, prop, "float", "", c, "%s", msg)
			}
			recordFloat(c, st, fmt.Sprintf("float_exhaustive_%d_nodes", n))
			markJuxt(tree, 1+int(idx%2))
			if applyJuxt(floatGrammar, tree) > 0 {
				c2 := FloatCase{Tree: tree, Text: floatGrammar.Render(tree)}
				var st2 floatStats
				if msg := checkFloat(c2, floatGensFor(idx+1), &st2); msg != "" {
					evid.Fail(t, prop, "float", "", c2, "%s", msg)
				}
				recordFloat(c2, st2, "float_exhaustive_implicit_mul_rendering")
			}
		}
	}
	evid.R.SetExtra("float_exhaustive_max_nodes", maxN)
	evid.R.SetExtra("float_exhaustive_space", space)
}

func genFloat(t *rapid.T, depth int, leaves []string) *Node {
	if depth <= 0 || rapid.IntRange(0, 9).Draw(t, "leaf?") < 2 {
		return leaf(rapid.SampledFrom(leaves).Draw(t, "leaf"))
	}
	k := rapid.IntRange(0, 11).Draw(t, "kind")
	switch {
	case k < 8:
		op := rapid.SampledFrom([]string{"=", "<", ">", "+", "+", "-", "*", "*", "*", "/", "^"}).Draw(t, "op")
		n := bin(op, genFloat(t, depth-1, leaves), genFloat(t, depth-1, leaves))
		if op == "*" {
			n.Juxt = rapid.IntRange(0, 2).Draw(t, "juxt")
		}
		return n
	case k < 10:
		return un("-", genFloat(t, depth-1, leaves))
	default:
		return &Node{Kind: "call", Op: rapid.SampledFrom(floatFuncs).Draw(t, "fn"), L: genFloat(t, depth-1, leaves)}
	}
}

// TestPropFloatSampled samples trees with 4..~12 operator nodes.
func TestPropFloatSampled(t *testing.T) {
	setupFloat()
	defer evid.R.Flush()
	rapid.Check(t, func(t *rapid.T) {
		depth := rapid.IntRange(3, 5).Draw(t, "depth")
		if rapid.IntRange(0, 2).Draw(t, "otherOrder") == 0 {
			// the same operators under other declared priorities
			depth = rapid.IntRange(1, 4).Draw(t, "depthO")
			order := rapid.Permutation(floatGrammar.Bin).Draw(t, "order")
			if rapid.IntRange(0, 2).Draw(t, "minusFirst") == 0 {
				for i, op := range order {
					if op == "-" {
						order[0], order[i] = order[i], order[0]
					}
				}
			}
			gr := Grammar{Bin: order, UnaryAlsoBinary: floatGrammar.UnaryAlsoBinary}
			tree := genFloat(t, depth, floatLeaves)
			applyJuxt(gr, tree)
			c := FloatCase{Tree: tree, Text: gr.Render(tree), Order: order}
			var st floatStats
			if msg := checkFloat(c, orderedGens(order), &st); msg != "" {
				evid.Fail(t, prop, "float", "", c, "%s", msg)
			}
			recordFloat(c, st, "float_sampled_other_priorities")
			return
		}
		tree := genFloat(t, depth, floatLeaves)
		applyJuxt(floatGrammar, tree)
		c := FloatCase{Tree: tree, Text: floatGrammar.Render(tree)}
		m := rapid.IntRange(0, 3).Draw(t, "commMask")
		var st floatStats
		if msg := checkFloat(c, floatGensFor(int64(m)), &st); msg != "" {
			evid.Fail(t, prop, "float", "", c, "%s", msg)
		}
		recordFloat(c, st, "float_sampled")
	})
}

func TestReplayFloat(t *testing.T) {
	setupFloat()
	for _, path := range evid.ReplayFiles("float") {
		var c FloatCase
		if _, err := evid.ReadFailure(path, &c); err != nil {
			t.Fatalf("cannot read %s: %v", path, err)
		}
		var st floatStats
		gens := floatGens
		if len(c.Order) > 0 {
			gens = orderedGens(c.Order)
		}
		if msg := checkFloat(c, gens, &st); msg != "" {
			evid.ReplayFailed(t, path, msg)
		}
	}
}
