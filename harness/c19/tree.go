// Package c19 checks the generic generator on two minimal value types (bool, float64)
// by bounded-exhaustive enumeration and by sampling (DESIGN.md, C19).
package c19

import (
	"strings"
)

// Node is an expression tree. Kind: "leaf", "bin", "un" (prefix operator), "call"
// (one-argument function), "let" (let Name = L; R), "if" (if C then L else R).
type Node struct {
	Kind string `json:"k"`
	Op   string `json:"op,omitempty"` // operator, function name, leaf text or let name
	L    *Node  `json:"l,omitempty"`
	R    *Node  `json:"r,omitempty"`
	C    *Node  `json:"c,omitempty"`
	// Juxt: a '*' node rendered without operator sign (comfort mode), 1 = blank, 2 = nothing
	Juxt int `json:"j,omitempty"`
}

func leaf(s string) *Node             { return &Node{Kind: "leaf", Op: s} }
func bin(op string, l, r *Node) *Node { return &Node{Kind: "bin", Op: op, L: l, R: r} }
func un(op string, l *Node) *Node     { return &Node{Kind: "un", Op: op, L: l} }

// Grammar describes the operator table the tree is rendered for.
type Grammar struct {
	Bin []string // ascending priority
	// UnaryAlsoBinary: prefix operators that are also binary operators (operand =
	// maximal expression of strictly higher priority); other prefix operators take a
	// postfix expression.
	UnaryAlsoBinary map[string]bool
}

func (g Grammar) prio(op string) int {
	for i, o := range g.Bin {
		if o == op {
			return i
		}
	}
	return -1
}

// level returns the binding level of a node when it is used as an operand:
// the priority of a binary node, and for everything that the grammar parses as a
// unary or postfix/primary expression a level above all binary operators. A prefix
// operator that is also binary must not be followed... (see needParens).
const atomLevel = 1000

// Render writes the expression with the minimal parenthesisation that, by the
// specified grammar (priority by declaration order, left-associative, prefix operator
// that is also binary takes the maximal operand of strictly higher priority, pure
// prefix operator takes a postfix expression), parses back to the same tree.
func (g Grammar) Render(n *Node) string {
	var b strings.Builder
	g.render(&b, n, false)
	return b.String()
}

// RenderFull parenthesises every operand that is not a leaf.
func (g Grammar) RenderFull(n *Node) string {
	var b strings.Builder
	g.render(&b, n, true)
	return b.String()
}

func (g Grammar) wrap(b *strings.Builder, n *Node, parens, full bool) {
	if parens {
		b.WriteString("(")
		g.render(b, n, full)
		b.WriteString(")")
	} else {
		g.render(b, n, full)
	}
}

// operandNeedsParens decides whether child c, used as operand of a binary operator of
// priority p on the given side, has to be parenthesised.
func (g Grammar) operandNeedsParens(c *Node, p int, right bool) bool {
	switch c.Kind {
	case "leaf", "call":
		return false
	case "bin":
		cp := g.prio(c.Op)
		if right {
			return cp <= p
		}
		return cp < p
	case "un":
		// A unary expression is parsed at the innermost level. As a *left* operand it is
		// followed by the operator: a prefix operator that is also binary (priority q)
		// extends its operand over all operators of priority > q, so "-a*b" is -(a*b):
		// parentheses are needed if the following operator has priority > q.
		if g.UnaryAlsoBinary[c.Op] {
			if !right {
				return p > g.prio(c.Op)
			}
			// as right operand "a*-b": the operand of '-' extends to the right over
			// operators of priority > q, which are not part of this sub-tree's text, but
			// an enclosing chain "a*-b*c" would be regrouped; the caller handles that by
			// the rule for its own left operand. Within this operand nothing follows.
			return false
		}
		return false
	case "let", "if":
		return true
	}
	return true
}

func (g Grammar) render(b *strings.Builder, n *Node, full bool) {
	switch n.Kind {
	case "leaf":
		b.WriteString(n.Op)
	case "call":
		b.WriteString(n.Op)
		b.WriteString("(")
		g.render(b, n.L, full)
		b.WriteString(")")
	case "un":
		b.WriteString(n.Op)
		c := n.L
		var parens bool
		if g.UnaryAlsoBinary[n.Op] {
			// operand: maximal expression of priority > prio(op); another prefix operator
			// directly behind is fine ("--a" is lexed as two '-' only if "--" is no
			// operator, so keep parentheses for unary operands to stay clear of lexing).
			switch c.Kind {
			case "bin":
				parens = g.prio(c.Op) <= g.prio(n.Op)
			case "un", "let", "if":
				parens = true
			}
		} else {
			parens = c.Kind != "leaf" && c.Kind != "call"
		}
		if full && c.Kind != "leaf" {
			parens = true
		}
		g.wrap(b, c, parens, full)
	case "bin":
		p := g.prio(n.Op)
		lp := g.operandNeedsParens(n.L, p, false)
		rp := g.operandNeedsParens(n.R, p, true)
		// A unary-also-binary prefix expression as right operand swallows everything of
		// higher priority that follows; since this node's text ends with that operand,
		// what follows is decided by the ancestors: they see this node as a left operand
		// ending in a prefix expression. Handle it here conservatively: if the right
		// operand ends with such an open prefix expression, the ancestors are told via
		// endsOpen() and parenthesise this node when a higher priority operator follows.
		if full {
			lp = n.L.Kind != "leaf"
			rp = n.R.Kind != "leaf"
		}
		if !lp && g.endsOpen(n.L) > -1 && p > g.endsOpen(n.L) {
			lp = true
		}
		g.wrap(b, n.L, lp, full)
		switch n.Juxt {
		case 1:
			b.WriteString(" ")
		case 2:
		default:
			b.WriteString(n.Op)
		}
		g.wrap(b, n.R, rp, full)
	case "let":
		b.WriteString("let ")
		b.WriteString(n.Op)
		b.WriteString("=")
		g.render(b, n.L, full)
		b.WriteString(";")
		g.render(b, n.R, full)
	case "if":
		b.WriteString("if ")
		g.render(b, n.C, full)
		b.WriteString(" then ")
		g.render(b, n.L, full)
		b.WriteString(" else ")
		g.render(b, n.R, full)
	}
}

// endsOpen returns the priority q of a unary-also-binary prefix operator whose operand
// forms the right end of the unparenthesised text of n (so that a following operator of
// priority > q would be swallowed by it), or -1.
func (g Grammar) endsOpen(n *Node) int {
	switch n.Kind {
	case "un":
		if g.UnaryAlsoBinary[n.Op] {
			return g.prio(n.Op)
		}
		return -1
	case "bin":
		// right operand is rendered unparenthesised only if operandNeedsParens said so
		if g.operandNeedsParens(n.R, g.prio(n.Op), true) {
			return -1
		}
		return g.endsOpen(n.R)
	}
	return -1
}

func (n *Node) Ops() int {
	if n == nil {
		return 0
	}
	switch n.Kind {
	case "leaf":
		return 0
	default:
		return 1 + n.L.Ops() + n.R.Ops() + n.C.Ops()
	}
}

func (n *Node) HasVar(vars map[string]bool) bool {
	if n == nil {
		return false
	}
	if n.Kind == "leaf" {
		return vars[n.Op]
	}
	return n.L.HasVar(vars) || n.R.HasVar(vars) || n.C.HasVar(vars)
}
