package c19

import (
	"fmt"
	"os"
	"strings"
	"testing"

	"github.com/hneemann/parser2/example"
	"github.com/hneemann/parser2/funcGen"
	"pgregory.net/rapid"

	"verif/harness/evid"
)

const prop = "C19"

var boolGrammar = Grammar{Bin: []string{"^", "=", "|", "&"}}
var boolLeaves = []string{"a", "b", "c", "true", "false"}
var boolVars = map[string]bool{"a": true, "b": true, "c": true, "x": true}

// newBool builds a fresh generator configured like example/bool.go. comm gives the
// commutative flag per operator (all four operators are commutative and associative,
// so every subset is a legal declaration); opt switches the optimizer.
func newBool(opt bool, comm [4]bool, keywords bool) *funcGen.FunctionGenerator[bool] {
	g := funcGen.New[bool]().
		AddConstant("false", false).
		AddConstant("true", true).
		AddSimpleOp("^", comm[0], func(a, b bool) (bool, error) { return a != b, nil }).
		AddSimpleOp("=", comm[1], func(a, b bool) (bool, error) { return a == b, nil }).
		AddSimpleOp("|", comm[2], func(a, b bool) (bool, error) { return a || b, nil }).
		AddSimpleOp("&", comm[3], func(a, b bool) (bool, error) { return a && b, nil }).
		AddUnaryFunc("!", func(a bool) (bool, error) { return !a, nil }).
		SetToBool(func(c bool) (bool, bool) { return c, true })
	if keywords {
		g.SetKeyWords("let", "if", "then", "else")
	}
	if !opt {
		g.SetOptimizer(nil)
	}
	return g
}

type boolGen struct {
	name string
	opt  bool
	g    *funcGen.FunctionGenerator[bool]
}

var boolGens []boolGen
var singletonOpt bool

// setupBool creates the generators used by this process: the repository's own
// singleton (its optimizer mode is fixed per process: odd shards switch it off before
// first use; the keywords let/if/then/else are added before first use), and fresh
// re-constructions with the optimizer on and off for all 16 commutative-flag subsets.
func setupBool() {
	if boolGens != nil {
		return
	}
	shard, _ := evid.Shard()
	singletonOpt = shard%2 == 0
	s := example.VerifBoolParser()
	s.SetKeyWords("let", "if", "then", "else")
	if !singletonOpt {
		s.SetOptimizer(nil)
	}
	boolGens = append(boolGens, boolGen{fmt.Sprintf("example.boolParser(opt=%v)", singletonOpt), singletonOpt, s})
	for m := 0; m < 16; m++ {
		comm := [4]bool{m&1 != 0, m&2 != 0, m&4 != 0, m&8 != 0}
		boolGens = append(boolGens, boolGen{fmt.Sprintf("rebuilt(opt=true,comm=%v)", comm), true, newBool(true, comm, true)})
		boolGens = append(boolGens, boolGen{fmt.Sprintf("rebuilt(opt=false,comm=%v)", comm), false, newBool(false, comm, true)})
	}
}

func evalBool(n *Node, env map[string]bool) bool {
	switch n.Kind {
	case "leaf":
		switch n.Op {
		case "true":
			return true
		case "false":
			return false
		}
		v, ok := env[n.Op]
		if !ok {
			panic("unbound " + n.Op)
		}
		return v
	case "un":
		return !evalBool(n.L, env)
	case "bin":
		a, b := evalBool(n.L, env), evalBool(n.R, env)
		switch n.Op {
		case "^":
			return a != b
		case "=":
			return a == b
		case "|":
			return a || b
		case "&":
			return a && b
		}
	case "let":
		v := evalBool(n.L, env)
		e2 := map[string]bool{}
		for k, x := range env {
			e2[k] = x
		}
		e2[n.Op] = v
		return evalBool(n.R, e2)
	case "if":
		if evalBool(n.C, env) {
			return evalBool(n.L, env)
		}
		return evalBool(n.R, env)
	}
	panic("bad node " + n.Kind)
}

// BoolCase is the replayable unit: one expression, checked under all 8 assignments
// on every generator of the process.
type BoolCase struct {
	Tree *Node  `json:"tree"`
	Text string `json:"text"`
	Full bool   `json:"full_parens,omitempty"`
}

// checkBool returns "" or a description of the first disagreement.
func checkBool(c BoolCase, gens []boolGen) string {
	for _, bg := range gens {
		f, _, err := bg.g.Generate(c.Text, "a", "b", "c")
		if err != nil {
			return fmt.Sprintf("%s: Generate(%q) failed: %v", bg.name, c.Text, err)
		}
		// the host hands every assignment to the function on ONE stack that it initialises again
		st := funcGen.NewEmptyStack[bool]()
		for m := 0; m < 8; m++ {
			a, b, cc := m&1 != 0, m&2 != 0, m&4 != 0
			want := evalBool(c.Tree, map[string]bool{"a": a, "b": b, "c": cc})
			got, err := f.Eval(a, b, cc)
			if err != nil {
				return fmt.Sprintf("%s: %q with a=%v b=%v c=%v: error %v, want %v", bg.name, c.Text, a, b, cc, err, want)
			}
			if got != want {
				return fmt.Sprintf("%s: %q with a=%v b=%v c=%v = %v, want %v", bg.name, c.Text, a, b, cc, got, want)
			}
			st = st.Init(a, b, cc)
			if got, err := f(st); err != nil || got != want {
				return fmt.Sprintf("%s: %q with a=%v b=%v c=%v on a stack that was initialised again = %v (%v), want %v", bg.name, c.Text, a, b, cc, got, err, want)
			}
		}
	}
	return ""
}

// ---- enumeration by unranking -------------------------------------------------

var boolCount [8]int64 // number of trees with exactly n operator nodes

func init() {
	boolCount[0] = int64(len(boolLeaves))
	for n := 1; n < len(boolCount); n++ {
		var s int64
		for i := 0; i < n; i++ {
			s += boolCount[i] * boolCount[n-1-i]
		}
		boolCount[n] = 4*s + boolCount[n-1]
	}
}

// unrankBool builds the idx-th tree with exactly n operator nodes.
func unrankBool(n int, idx int64, leaves []string) *Node {
	if n == 0 {
		return leaf(leaves[idx])
	}
	cnt := func(k int) int64 {
		if len(leaves) == len(boolLeaves) {
			return boolCount[k]
		}
		return countWith(k, int64(len(leaves)))
	}
	if idx < cnt(n-1) {
		return un("!", unrankBool(n-1, idx, leaves))
	}
	idx -= cnt(n - 1)
	for i := 0; i < n; i++ {
		block := 4 * cnt(i) * cnt(n-1-i)
		if idx < block {
			op := boolGrammar.Bin[idx%4]
			idx /= 4
			li := idx % cnt(i)
			ri := idx / cnt(i)
			return bin(op, unrankBool(i, li, leaves), unrankBool(n-1-i, ri, leaves))
		}
		idx -= block
	}
	panic("rank out of range")
}

var countMemo = map[[2]int64]int64{}

func countWith(n int, leaves int64) int64 {
	if n == 0 {
		return leaves
	}
	key := [2]int64{int64(n), leaves}
	if v, ok := countMemo[key]; ok {
		return v
	}
	var s int64
	for i := 0; i < n; i++ {
		s += countWith(i, leaves) * countWith(n-1-i, leaves)
	}
	v := 4*s + countWith(n-1, leaves)
	countMemo[key] = v
	return v
}

func boolGensFor(idx int64) []boolGen {
	// the singleton plus one rebuilt pair; the commutative-flag subset rotates with the
	// index so that all 16 subsets are spread evenly over the enumeration.
	m := int(idx % 16)
	return []boolGen{boolGens[0], boolGens[1+2*m], boolGens[2+2*m]}
}

func recordBool(c BoolCase, class string) {
	nt := c.Tree.Ops() >= 1 && c.Tree.HasVar(boolVars)
	evid.R.Case(nt, "bool:"+c.Text, func() any { return map[string]any{"type": "bool", "exp": c.Text, "assignments": 8} }, class)
}

// TestExhaustiveBool enumerates every bool expression with up to N operator nodes
// (N=3 quick, N=4 thorough: 12 886 025 expressions). Shard pairs (2k,2k+1) cover the
// same residue class with the repository's singleton in optimizer-on resp. -off mode.
func TestExhaustiveBool(t *testing.T) {
	setupBool()
	defer evid.R.Flush()
	maxN := 3
	if evid.Thorough() {
		maxN = 4
	}
	if v := evid.EnvInt("VERIF_C19_BOOL_N", 0); v > 0 {
		maxN = v
	}
	shard, shards := evid.Shard()
	classes := int64(shards / 2)
	if classes < 1 {
		classes = 1
	}
	class := int64(shard / 2)
	var total int64
	for n := 0; n <= maxN; n++ {
		for idx := class % classes; idx < boolCount[n]; idx += classes {
			tree := unrankBool(n, idx, boolLeaves)
			c := BoolCase{Tree: tree, Text: boolGrammar.Render(tree)}
			if msg := checkBool(c, boolGensFor(idx)); msg != "" {
				evid.Fail(t, prop, "bool", "", c, "%s", msg)
			}
			recordBool(c, fmt.Sprintf("bool_exhaustive_%d_nodes", n))
			total++
		}
	}
	evid.R.SetExtra("bool_exhaustive_max_nodes", maxN)
	var space int64
	for n := 0; n <= maxN; n++ {
		space += boolCount[n]
	}
	evid.R.SetExtra("bool_exhaustive_space", space)
	evid.R.SetExtra("singleton_optimizer_on", singletonOpt)
}

// TestExhaustiveBoolLetIf enumerates "let x=E1;E2" and "if E1 then E2 else E3" with
// every slot holding up to 1 operator node (thorough) resp. let only (quick).
func TestExhaustiveBoolLetIf(t *testing.T) {
	setupBool()
	defer evid.R.Flush()
	shard, shards := evid.Shard()
	classes := int64(shards / 2)
	if classes < 1 {
		classes = 1
	}
	class := int64(shard/2) % classes
	withX := append(append([]string{}, boolLeaves...), "x")
	slot := func(i int64, leaves []string) *Node {
		if i < int64(len(leaves)) {
			return unrankBool(0, i, leaves)
		}
		return unrankBool(1, i-int64(len(leaves)), leaves)
	}
	n5 := countWith(0, 5) + countWith(1, 5)
	n6 := countWith(0, 6) + countWith(1, 6)
	var k int64
	for i := int64(0); i < n5; i++ {
		for j := int64(0); j < n6; j++ {
			k++
			if k%classes != class {
				continue
			}
			tree := &Node{Kind: "let", Op: "x", L: slot(i, boolLeaves), R: slot(j, withX)}
			c := BoolCase{Tree: tree, Text: boolGrammar.Render(tree)}
			if msg := checkBool(c, boolGensFor(k)); msg != "" {
				evid.Fail(t, prop, "bool", "", c, "%s", msg)
			}
			recordBool(c, "bool_exhaustive_let")
		}
	}
	evid.R.SetExtra("bool_let_space", n5*n6)
	// "let x=E1; let x=E2; E3": the same name declared again in the same function body.
	// The generator may reject that (the repository's does: redeclaration); if it accepts
	// it, the inner declaration is the one in scope - anything else is a wrong value.
	var rejected, accepted int64
	for i := int64(0); i < int64(len(boolLeaves)); i++ {
		for j := int64(0); j < n6; j++ {
			for l := int64(0); l < n6; l++ {
				k++
				if k%classes != class {
					continue
				}
				tree := &Node{Kind: "let", Op: "x", L: slot(i, boolLeaves), R: &Node{Kind: "let", Op: "x", L: slot(j, withX), R: slot(l, withX)}}
				c := BoolCase{Tree: tree, Text: boolGrammar.Render(tree)}
				gens := boolGensFor(k)
				var live []boolGen
				for _, bg := range gens {
					if _, _, err := bg.g.Generate(c.Text, "a", "b", "c"); err != nil {
						if !strings.Contains(err.Error(), "redeclar") {
							evid.Fail(t, prop, "bool", "", c, "%s: Generate(%q) failed: %v", bg.name, c.Text, err)
						}
						rejected++
						continue
					}
					accepted++
					live = append(live, bg)
				}
				if msg := checkBool(c, live); msg != "" {
					evid.Fail(t, prop, "bool", "", c, "the same name is declared twice and the program is accepted, but the inner declaration is not the one in scope: %s", msg)
				}
				recordBool(c, "bool_exhaustive_let_same_name_twice")
			}
		}
	}
	evid.R.SetExtra("bool_let_twice_rejected_as_redeclaration", rejected)
	evid.R.SetExtra("bool_let_twice_accepted", accepted)
	if !evid.Thorough() {
		return
	}
	for i := int64(0); i < n5; i++ {
		for j := int64(0); j < n5; j++ {
			for l := int64(0); l < n5; l++ {
				k++
				if k%classes != class {
					continue
				}
				tree := &Node{Kind: "if", C: slot(i, boolLeaves), L: slot(j, boolLeaves), R: slot(l, boolLeaves)}
				c := BoolCase{Tree: tree, Text: boolGrammar.Render(tree)}
				if msg := checkBool(c, boolGensFor(k)); msg != "" {
					evid.Fail(t, prop, "bool", "", c, "%s", msg)
				}
				recordBool(c, "bool_exhaustive_if")
			}
		}
	}
	evid.R.SetExtra("bool_if_space", n5*n5*n5)
}

// ---- sampling of larger expressions -------------------------------------------

func genBool(t *rapid.T, depth int, leaves []string, letOK bool, nextLet *int) *Node {
	if depth <= 0 || rapid.IntRange(0, 9).Draw(t, "leaf?") < 2 {
		return leaf(rapid.SampledFrom(leaves).Draw(t, "leaf"))
	}
	k := rapid.IntRange(0, 11).Draw(t, "kind")
	switch {
	case k < 7:
		op := rapid.SampledFrom(boolGrammar.Bin).Draw(t, "op")
		return bin(op, genBool(t, depth-1, leaves, false, nextLet), genBool(t, depth-1, leaves, false, nextLet))
	case k < 9:
		return un("!", genBool(t, depth-1, leaves, false, nextLet))
	case k < 11:
		// 'if' may stand anywhere (it is parenthesised as an operand); its branches are
		// let-positions.
		return &Node{Kind: "if", C: genBool(t, depth-1, leaves, false, nextLet),
			L: genBool(t, depth-1, leaves, true, nextLet), R: genBool(t, depth-1, leaves, true, nextLet)}
	default:
		if !letOK {
			return bin("&", genBool(t, depth-1, leaves, false, nextLet), genBool(t, depth-1, leaves, false, nextLet))
		}
		name := fmt.Sprintf("x%d", *nextLet)
		*nextLet++
		val := genBool(t, depth-1, leaves, false, nextLet)
		inner := append(append([]string{}, leaves...), name)
		return &Node{Kind: "let", Op: name, L: val, R: genBool(t, depth-1, inner, true, nextLet)}
	}
}

func TestPropBoolSampled(t *testing.T) {
	setupBool()
	defer evid.R.Flush()
	_ = os.Remove("testdata")
	rapid.Check(t, func(t *rapid.T) {
		n := 0
		depth := rapid.IntRange(3, 6).Draw(t, "depth")
		tree := genBool(t, depth, boolLeaves, true, &n)
		full := rapid.Bool().Draw(t, "full")
		c := BoolCase{Tree: tree, Full: full}
		if full {
			c.Text = boolGrammar.RenderFull(tree)
		} else {
			c.Text = boolGrammar.Render(tree)
		}
		m := rapid.IntRange(0, 15).Draw(t, "commMask")
		if msg := checkBool(c, boolGensFor(int64(m))); msg != "" {
			evid.Fail(t, prop, "bool", "", c, "%s", msg)
		}
		recordBool(c, "bool_sampled")
	})
}

func TestReplayBool(t *testing.T) {
	setupBool()
	for _, path := range evid.ReplayFiles("bool") {
		var c BoolCase
		if _, err := evid.ReadFailure(path, &c); err != nil {
			t.Fatalf("cannot read %s: %v", path, err)
		}
		if msg := checkBool(c, boolGens); msg != "" {
			evid.ReplayFailed(t, path, msg)
		}
	}
}
