// Package host provides the harness-registered static functions: counters that make
// evaluation observable (pk: declared pure, ik: declared impure, cnt: demand counter),
// cost profiles that steer the library's timing-based switch to parallel execution
// (slow, jitter), a goroutine probe and a panicking host function. Each function exists
// twice: registered on the implementation's generator and on the reference interpreter.
package host

import (
	"bytes"
	"errors"
	"runtime"
	"strconv"
	"sync"
	"sync/atomic"
	"time"

	"github.com/hneemann/parser2/funcGen"
	"github.com/hneemann/parser2/value"

	"verif/harness/ref"
)

// State is the observable state of the host functions of one generator.
type State struct {
	PK, IK, Cnt atomic.Int64
	// CntLimit aborts the evaluation when cnt was called more often (0 = no limit).
	CntLimit atomic.Int64
	// goroutines that executed a probe (gid) / cnt / slow call
	mu       sync.Mutex
	gids     map[uint64]int
	SlowFrom atomic.Int64 // slowFrom(e): sleep only for e >= SlowFrom
	SleepUs  atomic.Int64 // microseconds slept by slow()
}

func NewState() *State {
	s := &State{gids: map[uint64]int{}}
	s.SleepUs.Store(300)
	return s
}

func (s *State) Reset() {
	s.PK.Store(0)
	s.IK.Store(0)
	s.Cnt.Store(0)
	s.mu.Lock()
	s.gids = map[uint64]int{}
	s.mu.Unlock()
}

// Gid returns the id of the calling goroutine.
func Gid() uint64 {
	var buf [64]byte
	b := buf[:runtime.Stack(buf[:], false)]
	b = bytes.TrimPrefix(b, []byte("goroutine "))
	i := bytes.IndexByte(b, ' ')
	n, _ := strconv.ParseUint(string(b[:i]), 10, 64)
	return n
}

func (s *State) note() {
	g := Gid()
	s.mu.Lock()
	s.gids[g]++
	s.mu.Unlock()
}

// Goroutines returns the ids of the goroutines that ran a probing host function.
func (s *State) Goroutines() map[uint64]int {
	s.mu.Lock()
	defer s.mu.Unlock()
	out := map[uint64]int{}
	for k, v := range s.gids {
		out[k] = v
	}
	return out
}

// OffCaller reports whether a probing host function ran on a goroutine other than g.
func (s *State) OffCaller(g uint64) bool {
	s.mu.Lock()
	defer s.mu.Unlock()
	for k := range s.gids {
		if k != g {
			return true
		}
	}
	return false
}

type fn = func(st funcGen.Stack[value.Value], cs []value.Value) (value.Value, error)

func static(args int, pure bool, f fn) funcGen.Function[value.Value] {
	return funcGen.Function[value.Value]{Func: f, Args: args, IsPure: pure}.SetDescription(descr(args)...)
}

func descr(args int) []string {
	d := make([]string, 0, args+1)
	for i := 0; i < args; i++ {
		d = append(d, "a"+strconv.Itoa(i))
	}
	return append(d, "harness function")
}

// Register adds the host functions to an implementation generator (before its first use).
func Register(g *value.FunctionGenerator, s *State) {
	g.AddStaticFunction("pk", static(1, true, func(st funcGen.Stack[value.Value], cs []value.Value) (value.Value, error) {
		s.PK.Add(1)
		if i, ok := st.Get(0).(value.Int); ok {
			return i*2 + 1, nil
		}
		return nil, errors.New("pk needs an int")
	}))
	g.AddStaticFunction("ik", static(1, false, func(st funcGen.Stack[value.Value], cs []value.Value) (value.Value, error) {
		s.IK.Add(1)
		if i, ok := st.Get(0).(value.Int); ok {
			return i + 1, nil
		}
		return nil, errors.New("ik needs an int")
	}))
	// cnt(e): identity, counts the calls (demand) and notes the goroutine
	g.AddStaticFunction("cnt", static(1, false, func(st funcGen.Stack[value.Value], cs []value.Value) (value.Value, error) {
		n := s.Cnt.Add(1)
		s.note()
		if l := s.CntLimit.Load(); l > 0 && n > l {
			return nil, errors.New("cnt: demand limit exceeded")
		}
		return st.Get(0), nil
	}))
	// slow(e): identity after a sleep (forces the switch to parallel execution)
	g.AddStaticFunction("slow", static(1, false, func(st funcGen.Stack[value.Value], cs []value.Value) (value.Value, error) {
		s.note()
		time.Sleep(time.Duration(s.SleepUs.Load()) * time.Microsecond)
		return st.Get(0), nil
	}))
	// slowTo(e, k): sleeps only while e < k (cheap way to force the switch, which is decided at element 12)
	g.AddStaticFunction("slowTo", static(2, false, func(st funcGen.Stack[value.Value], cs []value.Value) (value.Value, error) {
		s.note()
		e, ok1 := st.Get(0).(value.Int)
		k, ok2 := st.Get(1).(value.Int)
		if ok1 && ok2 && e < k {
			time.Sleep(time.Duration(s.SleepUs.Load()) * time.Microsecond)
		}
		return st.Get(0), nil
	}))
	// jitter(e): identity after a value dependent sleep (workers finish out of order)
	g.AddStaticFunction("jitter", static(1, false, func(st funcGen.Stack[value.Value], cs []value.Value) (value.Value, error) {
		s.note()
		if e, ok := st.Get(0).(value.Int); ok {
			time.Sleep(time.Duration(int64((int(e)*7919)%5)*s.SleepUs.Load()) * time.Microsecond / 2)
		}
		return st.Get(0), nil
	}))
	// probe(e): identity, notes the goroutine
	g.AddStaticFunction("probe", static(1, false, func(st funcGen.Stack[value.Value], cs []value.Value) (value.Value, error) {
		s.note()
		return st.Get(0), nil
	}))
	// boom(k): panics like a faulty host function: 0 error value, 1 string, 2 nil dereference
	g.AddStaticFunction("boom", static(1, false, func(st funcGen.Stack[value.Value], cs []value.Value) (value.Value, error) {
		switch st.Get(0) {
		case value.Int(0):
			panic(errors.New("boom: error value"))
		case value.Int(1):
			panic("boom: string")
		default:
			var p *State
			return value.Int(p.SleepUs.Load()), nil
		}
	}))
}

// RegisterRef adds the reference versions (sequential semantics: sleeping is a no-op).
func RegisterRef(in *ref.Interp, s *State) {
	in.Statics["pk"] = func(in *ref.Interp, a []ref.Value) (ref.Value, error) {
		s.PK.Add(1)
		if i, ok := a[0].(ref.Int); ok {
			return i*2 + 1, nil
		}
		return nil, ref.Errf("pk needs an int")
	}
	in.Statics["ik"] = func(in *ref.Interp, a []ref.Value) (ref.Value, error) {
		s.IK.Add(1)
		if i, ok := a[0].(ref.Int); ok {
			return i + 1, nil
		}
		return nil, ref.Errf("ik needs an int")
	}
	id := func(in *ref.Interp, a []ref.Value) (ref.Value, error) { return a[0], nil }
	in.Statics["cnt"] = func(in *ref.Interp, a []ref.Value) (ref.Value, error) {
		s.Cnt.Add(1)
		return a[0], nil
	}
	in.Statics["slow"] = id
	in.Statics["slowTo"] = id
	in.Statics["jitter"] = id
	in.Statics["probe"] = id
	in.Statics["boom"] = func(in *ref.Interp, a []ref.Value) (ref.Value, error) {
		return nil, ref.Errf("boom: host function panics")
	}
}
