// Package pratt is the reference parser of the harness: precedence climbing over a
// token list, written from the grammar stated in properties C03/C15 (binding power =
// declaration index, left-associative, postfix forms tightest, a prefix operator that
// is also binary at index q takes the maximal operand built from operators of index
// > q, a pure prefix operator takes a postfix expression), plus the keyword forms of
// the value language. It shares no code with /repo. Trees are plain S-expression
// strings so that they can be compared with a structural dump of the implementation's
// AST.
package pratt

import (
	"fmt"
	"strings"
)

// Tok is a token. Kind: id, kw, num, str, op or one of ( ) [ ] { } . , : ;
type Tok struct {
	Kind string `json:"k"`
	Text string `json:"t,omitempty"`
	// Line is the 1-based line the token starts on (filled by layout engines).
	Line int `json:"l,omitempty"`
	// Alias: the operator is written with this text alias.
	Alias string `json:"a,omitempty"`
	// Quoted: the identifier is written as 'quoted identifier'.
	Quoted bool `json:"q,omitempty"`
}

func (t Tok) String() string {
	if t.Text != "" {
		return t.Text
	}
	return t.Kind
}

// Table is an operator table.
type Table struct {
	Bin    []string          `json:"bin"`    // ascending priority
	Prefix []string          `json:"prefix"` // prefix operators (may also occur in Bin)
	Alias  map[string]string `json:"alias,omitempty"`
	// Keywords enables the keyword grammar of the value language.
	Keywords bool `json:"keywords,omitempty"`
}

func (t Table) binIndex(op string) int {
	for i, o := range t.Bin {
		if o == op {
			return i
		}
	}
	return -1
}

func (t Table) isPrefix(op string) bool {
	for _, o := range t.Prefix {
		if o == op {
			return true
		}
	}
	return false
}

// Node is a node of the reference tree. String() gives the S-expression form.
type Node struct {
	Tag   string // id num str op un let lam call mcall dot idx list map entry if try switch case default
	Text  string
	Names []string
	Kids  []*Node
	// IsFunc: a let created by "func" (the name is visible inside the closure body).
	IsFunc bool
}

func (n *Node) String() string {
	var b strings.Builder
	n.write(&b)
	return b.String()
}

func (n *Node) write(b *strings.Builder) {
	switch n.Tag {
	case "id", "num", "str":
		text := n.Text
		if n.Tag == "num" {
			// the implementation's tree holds the value of a literal: 007 is the number 7
			if t := strings.TrimLeft(text, "0"); t != text && strings.Trim(text, "0123456789") == "" {
				if t == "" {
					t = "0"
				}
				text = t
			}
		}
		b.WriteString("(" + n.Tag + " " + q(text) + ")")
		return
	case "entry":
		b.WriteString("(" + q(n.Text) + " ")
		n.Kids[0].write(b)
		b.WriteString(")")
		return
	}
	b.WriteString("(" + n.Tag)
	switch n.Tag {
	case "op", "un", "let", "mcall", "dot":
		b.WriteString(" " + q(n.Text))
	case "lam":
		b.WriteString(" [")
		for i, p := range n.Names {
			if i > 0 {
				b.WriteString(" ")
			}
			b.WriteString(q(p))
		}
		b.WriteString("]")
	}
	for _, k := range n.Kids {
		b.WriteString(" ")
		k.write(b)
	}
	b.WriteString(")")
}

// InlineConstLets mirrors the parser's constant propagation, which happens even
// without an optimizer: "let n = <literal>; body" creates no Let node, n denotes the
// literal in body (transitively: a let whose value became a literal is inlined too).
func InlineConstLets(n *Node) *Node {
	return inline(n, nil)
}

type constEnv struct {
	name string
	val  *Node // nil: shadowed by a non-constant binding
	next *constEnv
}

func (e *constEnv) lookup(name string) *Node {
	for p := e; p != nil; p = p.next {
		if p.name == name {
			return p.val
		}
	}
	return nil
}

func inline(n *Node, env *constEnv) *Node {
	switch n.Tag {
	case "id":
		if v := env.lookup(n.Text); v != nil {
			return v
		}
		return n
	case "let":
		var val *Node
		if n.IsFunc {
			// the function name and the parameters are bound inside the closure
			val = inline(n.Kids[0], &constEnv{n.Text, nil, env})
		} else {
			val = inline(n.Kids[0], env)
		}
		if val.Tag == "num" || val.Tag == "str" {
			return inline(n.Kids[1], &constEnv{n.Text, val, env})
		}
		return &Node{Tag: "let", Text: n.Text, IsFunc: n.IsFunc, Kids: []*Node{val, inline(n.Kids[1], &constEnv{n.Text, nil, env})}}
	case "lam":
		e := env
		for _, p := range n.Names {
			e = &constEnv{p, nil, e}
		}
		return &Node{Tag: "lam", Names: n.Names, Kids: []*Node{inline(n.Kids[0], e)}}
	}
	c := &Node{Tag: n.Tag, Text: n.Text, Names: n.Names, IsFunc: n.IsFunc, Kids: make([]*Node, len(n.Kids))}
	for i, k := range n.Kids {
		c.Kids[i] = inline(k, env)
	}
	return c
}

// SyntaxError is returned for input the grammar rejects.
type SyntaxError struct {
	Msg string
	Pos int // token index
}

func (e *SyntaxError) Error() string { return fmt.Sprintf("%s at token %d", e.Msg, e.Pos) }

type parser struct {
	t    Table
	toks []Tok
	pos  int
	// LineOf records, per created node, the line the implementation is documented to
	// report for it (used by C15); key = node text, collected in order of creation.
	depth int
}

var eof = Tok{Kind: "eof"}

func (p *parser) peek() Tok {
	if p.pos < len(p.toks) {
		return p.toks[p.pos]
	}
	return eof
}

func (p *parser) peek2() Tok {
	if p.pos+1 < len(p.toks) {
		return p.toks[p.pos+1]
	}
	return eof
}

func (p *parser) next() Tok {
	t := p.peek()
	if p.pos < len(p.toks) {
		p.pos++
	}
	return t
}

func (p *parser) fail(format string, args ...any) error {
	return &SyntaxError{Msg: fmt.Sprintf(format, args...), Pos: p.pos}
}

func (p *parser) expect(kind, text string) error {
	t := p.next()
	if t.Kind != kind || (text != "" && t.Text != text) {
		return &SyntaxError{Msg: fmt.Sprintf("expected %s %s, found %v", kind, text, t), Pos: p.pos - 1}
	}
	return nil
}

// Parse parses a complete token list (trailing tokens are an error).
func Parse(t Table, toks []Tok) (string, error) {
	n, err := ParseTree(t, toks)
	if err != nil {
		return "", err
	}
	return n.String(), nil
}

// ParseTree parses a complete token list into a tree.
func ParseTree(t Table, toks []Tok) (*Node, error) {
	p := &parser{t: t, toks: toks}
	tree, err := p.parseLet()
	if err != nil {
		return nil, err
	}
	if p.peek().Kind != "eof" {
		return nil, p.fail("trailing token %v", p.peek())
	}
	return tree, nil
}

func isKw(t Tok, w string) bool { return t.Kind == "kw" && t.Text == w }

func q(s string) string { return fmt.Sprintf("%q", s) }

func (p *parser) enter() error {
	p.depth++
	if p.depth > 5000 {
		return p.fail("nesting too deep for the reference parser")
	}
	return nil
}

func (p *parser) parseLet() (*Node, error) {
	if err := p.enter(); err != nil {
		return nil, err
	}
	defer func() { p.depth-- }()
	if p.t.Keywords {
		switch {
		case isKw(p.peek(), "let"):
			p.next()
			name := p.next()
			if name.Kind != "id" {
				return nil, p.fail("no identifier behind let")
			}
			if err := p.expect("op", "="); err != nil {
				return nil, err
			}
			v, err := p.expr(0)
			if err != nil {
				return nil, err
			}
			if err := p.expect(";", ""); err != nil {
				return nil, err
			}
			inner, err := p.parseLet()
			if err != nil {
				return nil, err
			}
			return &Node{Tag: "let", Text: name.Text, Kids: []*Node{v, inner}}, nil
		case isKw(p.peek(), "func"):
			p.next()
			name := p.next()
			if name.Kind != "id" {
				return nil, p.fail("no identifier behind func")
			}
			if err := p.expect("(", ""); err != nil {
				return nil, err
			}
			names, err := p.identList()
			if err != nil {
				return nil, err
			}
			body, err := p.parseLet()
			if err != nil {
				return nil, err
			}
			if err := p.expect(";", ""); err != nil {
				return nil, err
			}
			inner, err := p.parseLet()
			if err != nil {
				return nil, err
			}
			return &Node{Tag: "let", Text: name.Text, IsFunc: true, Kids: []*Node{{Tag: "lam", Names: names, Kids: []*Node{body}}, inner}}, nil
		}
	}
	return p.expr(0)
}

// identList parses "a, b, c )" (the opening parenthesis is consumed already).
func (p *parser) identList() ([]string, error) {
	var names []string
	for {
		t := p.next()
		if t.Kind != "id" {
			return nil, p.fail("expected identifier in parameter list, found %v", t)
		}
		for _, n := range names {
			if n == t.Text {
				return nil, p.fail("parameter %s used twice", t.Text)
			}
		}
		names = append(names, t.Text)
		t = p.next()
		switch t.Kind {
		case ")":
			return names, nil
		case ",":
		default:
			return nil, p.fail("expected , or ) in parameter list, found %v", t)
		}
	}
}

// expr parses binary operators of index >= minPrec (precedence climbing).
func (p *parser) expr(minPrec int) (*Node, error) {
	if err := p.enter(); err != nil {
		return nil, err
	}
	defer func() { p.depth-- }()
	lhs, err := p.unary()
	if err != nil {
		return nil, err
	}
	for {
		t := p.peek()
		if t.Kind != "op" {
			return lhs, nil
		}
		prec := p.t.binIndex(t.Text)
		if prec < 0 || prec < minPrec {
			return lhs, nil
		}
		p.next()
		rhs, err := p.expr(prec + 1)
		if err != nil {
			return nil, err
		}
		lhs = &Node{Tag: "op", Text: t.Text, Kids: []*Node{lhs, rhs}}
	}
}

func (p *parser) unary() (*Node, error) {
	t := p.peek()
	if t.Kind == "op" && p.t.isPrefix(t.Text) {
		p.next()
		var operand *Node
		var err error
		if qi := p.t.binIndex(t.Text); qi >= 0 {
			operand, err = p.expr(qi + 1)
		} else {
			operand, err = p.postfix()
		}
		if err != nil {
			return nil, err
		}
		return &Node{Tag: "un", Text: t.Text, Kids: []*Node{operand}}, nil
	}
	return p.postfix()
}

func (p *parser) postfix() (*Node, error) {
	e, err := p.primary()
	if err != nil {
		return nil, err
	}
	for {
		switch p.peek().Kind {
		case ".":
			p.next()
			name := p.next()
			if name.Kind != "id" {
				return nil, p.fail("expected identifier behind '.', found %v", name)
			}
			if p.peek().Kind == "(" {
				p.next()
				args, err := p.args(")")
				if err != nil {
					return nil, err
				}
				e = &Node{Tag: "mcall", Text: name.Text, Kids: append([]*Node{e}, args...)}
			} else {
				e = &Node{Tag: "dot", Text: name.Text, Kids: []*Node{e}}
			}
		case "(":
			p.next()
			args, err := p.args(")")
			if err != nil {
				return nil, err
			}
			e = &Node{Tag: "call", Kids: append([]*Node{e}, args...)}
		case "[":
			p.next()
			idx, err := p.expr(0)
			if err != nil {
				return nil, err
			}
			if err := p.expect("]", ""); err != nil {
				return nil, err
			}
			e = &Node{Tag: "idx", Kids: []*Node{e, idx}}
		default:
			return e, nil
		}
	}
}

// args parses an argument list up to the closing token (a trailing comma is allowed).
func (p *parser) args(closer string) ([]*Node, error) {
	var out []*Node
	if p.peek().Kind == closer {
		p.next()
		return nil, nil
	}
	for {
		a, err := p.parseLet()
		if err != nil {
			return nil, err
		}
		out = append(out, a)
		t := p.next()
		if t.Kind == closer {
			return out, nil
		}
		if t.Kind != "," {
			return nil, &SyntaxError{Msg: fmt.Sprintf("expected , or %s, found %v", closer, t), Pos: p.pos - 1}
		}
		if p.peek().Kind == closer {
			p.next()
			return out, nil
		}
	}
}

func (p *parser) primary() (*Node, error) {
	t := p.next()
	switch t.Kind {
	case "id":
		if n := p.peek(); n.Kind == "op" && n.Text == "->" {
			p.next()
			body, err := p.parseLet()
			if err != nil {
				return nil, err
			}
			return &Node{Tag: "lam", Names: []string{t.Text}, Kids: []*Node{body}}, nil
		}
		return &Node{Tag: "id", Text: t.Text}, nil
	case "num":
		return &Node{Tag: "num", Text: t.Text}, nil
	case "str":
		return &Node{Tag: "str", Text: t.Text}, nil
	case "kw":
		if !p.t.Keywords {
			return nil, p.fail("keyword without keyword grammar")
		}
		switch t.Text {
		case "try":
			a, err := p.parseLet()
			if err != nil {
				return nil, err
			}
			if !isKw(p.next(), "catch") {
				return nil, p.fail("expected catch")
			}
			b, err := p.parseLet()
			if err != nil {
				return nil, err
			}
			return &Node{Tag: "try", Kids: []*Node{a, b}}, nil
		case "if":
			c, err := p.expr(0)
			if err != nil {
				return nil, err
			}
			if !isKw(p.next(), "then") {
				return nil, p.fail("expected then")
			}
			a, err := p.parseLet()
			if err != nil {
				return nil, err
			}
			if !isKw(p.next(), "else") {
				return nil, p.fail("expected else")
			}
			b, err := p.parseLet()
			if err != nil {
				return nil, err
			}
			return &Node{Tag: "if", Kids: []*Node{c, a, b}}, nil
		case "switch":
			v, err := p.expr(0)
			if err != nil {
				return nil, err
			}
			sw := &Node{Tag: "switch", Kids: []*Node{v}}
			for {
				k := p.next()
				switch {
				case isKw(k, "case"):
					c, err := p.expr(0)
					if err != nil {
						return nil, err
					}
					if err := p.expect(":", ""); err != nil {
						return nil, err
					}
					r, err := p.parseLet()
					if err != nil {
						return nil, err
					}
					sw.Kids = append(sw.Kids, &Node{Tag: "case", Kids: []*Node{c, r}})
				case isKw(k, "default"):
					d, err := p.parseLet()
					if err != nil {
						return nil, err
					}
					sw.Kids = append(sw.Kids, &Node{Tag: "default", Kids: []*Node{d}})
					return sw, nil
				default:
					return nil, p.fail("expected case or default, found %v", k)
				}
			}
		}
		return nil, p.fail("unexpected keyword %s", t.Text)
	case "{":
		mp := &Node{Tag: "map"}
		seen := map[string]bool{}
		for {
			k := p.next()
			switch k.Kind {
			case "}":
				return mp, nil
			case "id":
				if seen[k.Text] {
					return nil, p.fail("key %s used twice", k.Text)
				}
				seen[k.Text] = true
				if err := p.expect(":", ""); err != nil {
					return nil, err
				}
				v, err := p.parseLet()
				if err != nil {
					return nil, err
				}
				mp.Kids = append(mp.Kids, &Node{Tag: "entry", Text: k.Text, Kids: []*Node{v}})
				if p.peek().Kind == "," {
					p.next()
				} else if p.peek().Kind != "}" {
					return nil, p.fail("expected , or } in map literal, found %v", p.peek())
				}
			default:
				return nil, p.fail("expected key or } in map literal, found %v", k)
			}
		}
	case "[":
		args, err := p.args("]")
		if err != nil {
			return nil, err
		}
		return &Node{Tag: "list", Kids: args}, nil
	case "(":
		if p.peek().Kind == "id" && p.peek2().Kind == "," {
			names, err := p.identList()
			if err != nil {
				return nil, err
			}
			if n := p.next(); n.Kind != "op" || n.Text != "->" {
				return nil, p.fail("expected -> behind parameter list")
			}
			body, err := p.parseLet()
			if err != nil {
				return nil, err
			}
			return &Node{Tag: "lam", Names: names, Kids: []*Node{body}}, nil
		}
		e, err := p.expr(0)
		if err != nil {
			return nil, err
		}
		if err := p.expect(")", ""); err != nil {
			return nil, err
		}
		return e, nil
	}
	return nil, &SyntaxError{Msg: fmt.Sprintf("unexpected token %v", t), Pos: p.pos - 1}
}

// ---- lexical joining -------------------------------------------------------------

// OpSpellings returns every operator spelling the tokenizer of this table knows
// (binary, prefix, and the built-in '=' and '->').
func (t Table) OpSpellings() []string {
	out := append([]string{}, t.Bin...)
	out = append(out, t.Prefix...)
	return append(out, "=", "->")
}

func isWord(t Tok) bool {
	return (t.Kind == "id" && !t.Quoted) || t.Kind == "kw" || t.Kind == "num" || (t.Kind == "op" && t.Alias != "")
}

// NeedBlank reports whether a separator is required between two adjacent tokens so
// that a lexer cannot merge them: two word-like tokens; a number in front of '.'; two
// operator tokens whose concatenation has a prefix longer than the first token that
// is the beginning of some operator spelling (safe for greedy and for maximal-munch
// lexers alike).
func (t Table) NeedBlank(a, b Tok) bool {
	if isWord(a) && isWord(b) {
		return true
	}
	if a.Kind == "num" && b.Kind == "." {
		return true
	}
	if a.Kind == "." && b.Kind == "num" {
		return true
	}
	if a.Kind == "op" && b.Kind == "op" && a.Alias == "" && b.Alias == "" {
		cat := a.Text + b.Text
		for _, sp := range t.OpSpellings() {
			// can the lexer advance beyond a while reading cat?
			for l := len(a.Text) + 1; l <= len(cat) && l <= len(sp); l++ {
				if strings.HasPrefix(sp, cat[:l]) {
					return true
				}
			}
		}
	}
	return false
}

// TokText renders one token as source text.
func TokText(t Tok) string {
	switch t.Kind {
	case "str":
		var b strings.Builder
		b.WriteByte('"')
		for _, r := range t.Text {
			switch r {
			case '\\':
				b.WriteString(`\\`)
			case '"':
				b.WriteString(`\"`)
			case '\n':
				b.WriteString(`\n`)
			case '\r':
				b.WriteString(`\r`)
			case '\t':
				b.WriteString(`\t`)
			default:
				b.WriteRune(r)
			}
		}
		b.WriteByte('"')
		return b.String()
	case "op":
		if t.Alias != "" {
			return t.Alias
		}
		return t.Text
	case "id":
		if t.Quoted {
			return "'" + t.Text + "'"
		}
		return t.Text
	case "kw", "num":
		return t.Text
	}
	return t.Kind
}

// Join renders a token list; spaced: a blank between all tokens, otherwise only where
// NeedBlank demands one.
func (t Table) Join(toks []Tok, spaced bool) string {
	var b strings.Builder
	for i, tk := range toks {
		if i > 0 && (spaced || t.NeedBlank(toks[i-1], tk)) {
			b.WriteByte(' ')
		}
		b.WriteString(TokText(tk))
	}
	return b.String()
}
