// Package c10: a generated function is a pure function of its arguments across
// evaluations (histories of evaluations on one generator).
package c10

import (
	"fmt"
	"testing"

	"github.com/hneemann/parser2/funcGen"
	"github.com/hneemann/parser2/value"
	"pgregory.net/rapid"

	"verif/harness/evid"
	"verif/harness/lang"
	"verif/harness/obs"
	"verif/harness/progs"
	"verif/harness/ref"
)

const prop = "C10"

// Step of a history.
type Step struct {
	Op string `json:"op"` // eval | evalHold | consumeHeld | partial | generate
	F  int    `json:"f"`
	T  int    `json:"t"`
	K  int    `json:"k,omitempty"` // elements consumed by "partial"
}

// Case: programs with argument tuples and a history of operations on ONE generator.
type Case struct {
	Progs  []lang.Program   `json:"progs"`
	Texts  []string         `json:"texts"`
	Tuples [][][]*lang.Expr `json:"tuples"` // per program: tuples of argument literals
	Steps  []Step           `json:"steps"`
	Opt    bool             `json:"optimizer"`
	// ReuseArgs: the host builds the argument values of a tuple once and passes the very
	// same value objects to every evaluation with that tuple (values are immutable)
	ReuseArgs bool `json:"reuse_args,omitempty"`
}

func config() lang.Config {
	c := lang.Config{MaxDepth: 5, MaxNodes: 40, FailPercent: 35, ShadowStatics: true}
	if evid.Thorough() {
		c.MaxDepth, c.MaxNodes = 7, 90
	}
	return c
}

type info struct {
	nontrivial bool
	evals      int
	classes    []string
}

func check(c Case) (string, info) {
	var inf info
	g := progs.NewImpl(c.Opt)
	n := len(c.Progs)
	// expected outcomes from the reference, per (program, tuple)
	want := make([][]progs.Outcome, n)
	skip := make([][]bool, n)
	for i := range c.Progs {
		want[i] = make([]progs.Outcome, len(c.Tuples[i]))
		skip[i] = make([]bool, len(c.Tuples[i]))
		for j, tup := range c.Tuples[i] {
			in := progs.NewRef()
			pc := progs.Case{Prog: c.Progs[i], Args: tup, Text: c.Texts[i]}
			want[i][j] = progs.RefRun(in, pc)
			skip[i][j] = progs.OutOfDomain(in, want[i][j]) != ""
		}
	}
	funcs := make([]funcGen.Func[value.Value], n)
	generated := make([]bool, n)
	gen := func(i int) string {
		f, _, err := g.Generate(c.Texts[i], c.Progs[i].ArgNames...)
		if err != nil {
			return fmt.Sprintf("Generate rejected program %d: %v", i, err)
		}
		funcs[i] = f
		generated[i] = true
		return ""
	}
	// ReuseArgs: the host keeps the arguments of all tuples of a program in ONE table, row
	// after row, and passes the rows (sub-slices whose capacity reaches over the following
	// rows) to every evaluation with that tuple: an evaluation must not write to it
	argTables := map[int][]value.Value{}
	argsOf := func(i, j int, pc progs.Case) []value.Value {
		if !c.ReuseArgs {
			return progs.ImplArgs(pc, obs.RepListMap)
		}
		k := len(c.Progs[i].ArgNames)
		tab, ok := argTables[i]
		if !ok {
			for _, tup := range c.Tuples[i] {
				tab = append(tab, progs.ImplArgs(progs.Case{Prog: c.Progs[i], Args: tup}, obs.RepListMap)...)
			}
			argTables[i] = tab
		}
		return tab[j*k : (j+1)*k]
	}
	type held struct {
		f, t int
		v    value.Value
		err  error
	}
	var holds []held
	seen := map[[2]int]int{}
	afterDisturb := map[[2]int]bool{}
	disturbed := false
	cmp := func(i, j int, got progs.Outcome, stepNo int, what string) string {
		if skip[i][j] {
			return ""
		}
		if m := progs.Compare(want[i][j], got, 0); m != "" {
			return fmt.Sprintf("step %d (%s program %d tuple %d, evaluation #%d of this pair): %s", stepNo, what, i, j, seen[[2]int{i, j}], m)
		}
		return ""
	}
	for sn, s := range c.Steps {
		i := s.F % n
		if !generated[i] {
			if m := gen(i); m != "" {
				return m, inf
			}
		}
		j := s.T % len(c.Tuples[i])
		pc := progs.Case{Prog: c.Progs[i], Args: c.Tuples[i][j], Text: c.Texts[i]}
		key := [2]int{i, j}
		switch s.Op {
		case "generate":
			// a new Generate of a (possibly already generated) program in between
			if m := gen(i); m != "" {
				return m, inf
			}
			disturbed = true
		case "eval":
			seen[key]++
			inf.evals++
			got := progs.Observe(funcs[i].Eval(argsOf(i, j, pc)...))
			if m := cmp(i, j, got, sn, "evaluate"); m != "" {
				return m, inf
			}
			if disturbed && seen[key] > 1 {
				afterDisturb[key] = true
			}
			if want[i][j].Err != nil {
				disturbed = true
			}
		case "evalHold":
			// evaluate, keep the (possibly lazy) result unconsumed
			seen[key]++
			inf.evals++
			v, err := funcs[i].Eval(argsOf(i, j, pc)...)
			holds = append(holds, held{i, j, v, err})
			disturbed = true
		case "partial":
			// evaluate and consume only k elements of a lazy list result, then drop it
			seen[key]++
			inf.evals++
			v, err := funcs[i].Eval(argsOf(i, j, pc)...)
			if err == nil {
				if l, ok := v.(*value.List); ok {
					k := 0
					st := funcGen.NewEmptyStack[value.Value]()
					func() {
						defer func() { recover() }()
						for _, e := range l.Iterate(st) {
							if e != nil || k >= s.K {
								break
							}
							k++
						}
					}()
					inf.classes = append(inf.classes, "partially_consumed_list")
					disturbed = true
				}
			}
		case "consumeHeld":
			if len(holds) == 0 {
				continue
			}
			h := holds[len(holds)-1]
			holds = holds[:len(holds)-1]
			got := progs.Observe(h.v, h.err)
			if m := cmp(h.f, h.t, got, sn, "consume the held result of"); m != "" {
				return m, inf
			}
			inf.classes = append(inf.classes, "held_result_consumed_later")
		}
	}
	// everything still held must still denote its own outcome
	for _, h := range holds {
		got := progs.Observe(h.v, h.err)
		if m := cmp(h.f, h.t, got, len(c.Steps), "finally consume the held result of"); m != "" {
			return m, inf
		}
	}
	// non-trivial: some function saw >=2 distinct tuples and a repeat of a tuple after a
	// failing / partially consumed / held evaluation or an intervening Generate
	perF := map[int]map[int]bool{}
	for k := range seen {
		if perF[k[0]] == nil {
			perF[k[0]] = map[int]bool{}
		}
		perF[k[0]][k[1]] = true
	}
	two := false
	for _, m := range perF {
		if len(m) >= 2 {
			two = true
		}
	}
	inf.nontrivial = two && len(afterDisturb) > 0
	return "", inf
}

func TestPropC10(t *testing.T) {
	defer evid.R.Flush()
	cfg := config()
	maxSteps := 50
	rapid.Check(t, func(t *rapid.T) {
		np := rapid.IntRange(1, 3).Draw(t, "programs")
		c := Case{Opt: rapid.Bool().Draw(t, "optimizer"), ReuseArgs: rapid.Bool().Draw(t, "reuseArgs")}
		for i := 0; i < np; i++ {
			g := lang.NewGen(t, cfg)
			p := g.GenProgram()
			c.Progs = append(c.Progs, p)
			c.Texts = append(c.Texts, lang.Render(p.Body))
			nt := rapid.IntRange(2, 4).Draw(t, "tuples")
			var tups [][]*lang.Expr
			for j := 0; j < nt; j++ {
				tups = append(tups, progs.GenArgs(t, p.ArgTypes))
			}
			c.Tuples = append(c.Tuples, tups)
		}
		ns := rapid.IntRange(4, maxSteps).Draw(t, "steps")
		for i := 0; i < ns; i++ {
			op := rapid.SampledFrom([]string{"eval", "eval", "eval", "eval", "evalHold", "consumeHeld", "partial", "generate"}).Draw(t, "op")
			c.Steps = append(c.Steps, Step{Op: op, F: rapid.IntRange(0, np-1).Draw(t, "f"), T: rapid.IntRange(0, 3).Draw(t, "t"),
				K: rapid.IntRange(0, 3).Draw(t, "k")})
		}
		msg, inf := check(c)
		if msg != "" {
			evid.Fail(t, prop, "c10", "", c, "%s\nprograms: %q", msg, c.Texts)
		}
		if c.ReuseArgs {
			inf.classes = append(inf.classes, "same_argument_objects_reused")
		}
		key := fmt.Sprint(c.Texts, c.Steps, c.ReuseArgs)
		evid.R.Case(inf.nontrivial, key, func() any {
			return map[string]any{"programs": c.Texts, "steps": len(c.Steps), "first_steps": c.Steps[:min(6, len(c.Steps))], "optimizer": c.Opt}
		}, inf.classes...)
		evid.R.ClassN("evaluations_in_histories", int64(inf.evals))
	})
}

var _ = ref.Show

func TestReplay(t *testing.T) {
	replayLib(t)
	for _, path := range evid.ReplayFiles("c10") {
		var c Case
		if _, err := evid.ReadFailure(path, &c); err != nil {
			t.Fatalf("cannot read %s: %v", path, err)
		}
		if msg, _ := check(c); msg != "" {
			evid.ReplayFailed(t, path, msg)
		}
	}
}
