package c10

import (
	"os"
	"path/filepath"
	"testing"

	"verif/harness/evid"
	. "verif/harness/lang"
)

// TestMakeExemplars writes regression histories as replay files
// (VERIF_MAKE_EXEMPLARS=/verif/replay/C10 go test -run TestMakeExemplars).
func TestMakeExemplars(t *testing.T) {
	dir := os.Getenv("VERIF_MAKE_EXEMPLARS")
	if dir == "" {
		t.Skip("VERIF_MAKE_EXEMPLARS not set")
	}
	x, y := Var("x"), Var("y")
	ints := func(v ...int) *Expr {
		var it []*Expr
		for _, i := range v {
			it = append(it, Int(i))
		}
		return List(it...)
	}
	one := func(body *Expr, ty Ty) []Program {
		return []Program{{Body: body, ArgNames: []string{"x"}, ArgTypes: []Ty{ty}}}
	}
	ev := func(t int) Step { return Step{Op: "eval", T: t} }
	cases := map[string]Case{
		// a folded constant that is searched for must survive the search
		"constant-search-list-survives": {Progs: one(Bin("~", ints(1, 2, 3), x), TLInt), Tuples: [][][]*Expr{{{ints(1, 2, 3)}, {ints(3, 3, 3)}, {ints(3, 2, 1, 0)}}},
			Steps: []Step{ev(0), ev(1), ev(0), ev(2), ev(1)}, Opt: true},
		// the result of an earlier evaluation is still held when the constant is appended to again
		"append-to-lazy-constant-while-a-result-is-held": {Progs: one(MCall(SCall("numbers", Int(3)), "append", x), TInt), Tuples: [][][]*Expr{{{Int(100)}, {Int(200)}}},
			Steps: []Step{{Op: "evalHold", T: 0}, ev(1), {Op: "consumeHeld"}, ev(0)}, Opt: true},
		"set-on-one-element-constant-while-a-result-is-held": {Progs: one(MCall(ints(1), "set", Int(0), x), TInt), Tuples: [][][]*Expr{{{Int(7)}, {Int(8)}}},
			Steps: []Step{{Op: "evalHold", T: 0}, ev(1), {Op: "consumeHeld"}, ev(0)}, Opt: true},
		// the host passes the same argument objects again
		"same-argument-objects-again": {Progs: []Program{{Body: List(Bin("~", x, y), MCall(x, "string")), ArgNames: []string{"x", "y"}, ArgTypes: []Ty{TLInt, TLInt}}},
			Tuples: [][][]*Expr{{{ints(1, 2, 3), ints(1, 2, 3)}, {ints(3, 1), ints(1, 2, 3)}}}, Steps: []Step{ev(0), ev(0), ev(1), ev(0)}, ReuseArgs: true},
		// a shared lazy list with a failing item: forcing it fails every time, a prefix consumer succeeds every time
		"failing-item-in-a-shared-lazy-list": {Progs: one(Let("l", MCall(ints(4, 3, 0, 2), "map", Lam([]string{"e"}, Bin("%", Int(9), Var("e")))),
			If(Bin(">", x, Int(0)), MCall(Var("l"), "size"), MCall(Var("l"), "first"))), TInt), Tuples: [][][]*Expr{{{Int(1)}, {Int(0)}}},
			Steps: []Step{ev(0), ev(1), ev(0), ev(0), ev(1)}, Opt: true},
		// one call site sees a map without the closure field first, then one with it
		"call-site-sees-maps-with-and-without-the-closure-field": {Progs: one(MCall(If(Bin(">", x, Int(0)),
			Map([]string{"v", "get"}, []*Expr{Int(0), Lam([]string{"s"}, Bin("+", MCall(Var("s"), "len"), Int(10)))}), Map([]string{"v"}, []*Expr{Int(5)})), "get", Str("v")), TInt),
			Tuples: [][][]*Expr{{{Int(0)}, {Int(1)}}}, Steps: []Step{ev(0), ev(1), ev(0), ev(1)}, Opt: true},
		// a failing evaluation in between
		"failing-evaluation-in-between": {Progs: one(Let("a", MCall(SCall("numbers", Int(5)), "map", Lam([]string{"e"}, Bin("/", Int(12), Bin("-", x, Var("e"))))), MCall(Var("a"), "reduce", Lam([]string{"p", "q"}, Bin("+", Var("p"), Var("q"))))), TInt),
			Tuples: [][][]*Expr{{{Int(8)}, {Int(3)}}}, Steps: []Step{ev(0), ev(1), ev(0), {Op: "generate"}, ev(0)}, Opt: true},
	}
	for name, c := range cases {
		for _, p := range c.Progs {
			c.Texts = append(c.Texts, Render(p.Body))
		}
		os.Setenv("VERIF_FAILFILE", filepath.Join(dir, name+".json"))
		evid.WriteFailure(evid.Failure{Property: prop, Test: "c10", Message: "regression exemplar", Case: c})
	}
}
