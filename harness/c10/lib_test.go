package c10

import (
	"fmt"
	"testing"

	"pgregory.net/rapid"

	"verif/harness/evid"
	"verif/harness/progs"
	"verif/harness/ref"
)

// LibHistory: ONE function that uses a closure or map the library builds from constants
// (progs.LibTemplates) is evaluated one time after the other with the arguments
// Data[Order[0]], Data[Order[1]], ...; every outcome must equal the outcome of a freshly
// generated function evaluated once with the same argument.
type LibHistory struct {
	Template int         `json:"template"`
	Data     [][]float64 `json:"data"` // per argument: the sampling intervals of the signal
	Order    []int       `json:"order"`
	Opt      bool        `json:"optimizer"`
}

func checkLib(c LibHistory) string {
	text := progs.LibTemplates[c.Template%len(progs.LibTemplates)]
	want := make([]progs.Outcome, len(c.Data))
	for i, d := range c.Data {
		f, _, err := progs.NewImpl(c.Opt).Generate(text, "data")
		if err != nil {
			return "Generate rejected " + text + ": " + err.Error()
		}
		want[i] = progs.Observe(f.Eval(progs.LibArg(d)))
	}
	f, _, err := progs.NewImpl(c.Opt).Generate(text, "data")
	if err != nil {
		return "Generate rejected " + text + ": " + err.Error()
	}
	for step, i := range c.Order {
		i %= len(c.Data)
		got, w := progs.Observe(f.Eval(progs.LibArg(c.Data[i]))), want[i]
		if (w.Err != nil) != (got.Err != nil) || (w.Err == nil && !ref.Same(w.Val, got.Val, 0)) {
			return fmt.Sprintf("evaluation %d of the function (argument %d) returns %v, a fresh function evaluated once with the same argument %v\nprogram: %s\nintervals of the argument: %v, order of the arguments so far: %v",
				step+1, i, got, w, text, c.Data[i], c.Order[:step+1])
		}
	}
	return ""
}

func TestPropLibraryHistories(t *testing.T) {
	defer evid.R.Flush()
	rapid.Check(t, func(t *rapid.T) {
		c := LibHistory{Template: rapid.IntRange(0, len(progs.LibTemplates)-1).Draw(t, "template"), Opt: rapid.IntRange(0, 4).Draw(t, "opt") != 0}
		nd := rapid.IntRange(1, 4).Draw(t, "arguments")
		for i := 0; i < nd; i++ {
			n := rapid.IntRange(1, 30).Draw(t, "samples")
			steps := make([]float64, n)
			for j := range steps {
				steps[j] = rapid.SampledFrom(progs.LibSteps).Draw(t, "dt")
			}
			c.Data = append(c.Data, steps)
		}
		c.Order = rapid.SliceOfN(rapid.IntRange(0, nd-1), 2, 8).Draw(t, "order")
		if msg := checkLib(c); msg != "" {
			evid.Fail(t, prop, "libhistory", "", c, "%s", msg)
		}
		seen := map[int]bool{}
		again := false
		for k, i := range c.Order {
			if seen[i] && c.Order[k-1] != i {
				again = true
			}
			seen[i] = true
		}
		cls := []string{"library_built_constant", fmt.Sprintf("library_template_%d", c.Template)}
		if again {
			cls = append(cls, "argument_evaluated_again_after_another_one")
		}
		evid.R.Case(again, fmt.Sprint("libhistory", c), func() any {
			return map[string]any{"program": progs.LibTemplates[c.Template], "arguments": nd, "order": c.Order}
		}, cls...)
	})
}

func replayLib(t *testing.T) {
	for _, path := range evid.ReplayFiles("libhistory") {
		var c LibHistory
		if _, err := evid.ReadFailure(path, &c); err != nil {
			t.Fatalf("cannot read %s: %v", path, err)
		}
		if msg := checkLib(c); msg != "" {
			evid.ReplayFailed(t, path, msg)
		}
	}
}
