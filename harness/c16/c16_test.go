// Package c16: implicit-attribute mode equals explicit member access everywhere.
package c16

import (
	"fmt"
	"testing"

	"github.com/hneemann/parser2/value"
	"github.com/hneemann/parser2/value/export"
	"pgregory.net/rapid"

	"verif/harness/evid"
	"verif/harness/lang"
	"verif/harness/obs"
	"verif/harness/progs"
	"verif/harness/ref"
)

const prop = "C16"
const mapName = "rec0"

var impl = progs.NewImpl(true)
var implOff = progs.NewImpl(false)

// Case: a program whose arguments are the attributes of one map.
type Case struct {
	progs.Case
	Rep int `json:"map_rep"`
	// Decoys: extra keys of the map named like constants and static functions; they
	// must never be read through an implicit identifier.
	Decoys bool `json:"decoys"`
	// LateConst: this attribute name is registered as a constant AFTER the generator has
	// already generated a function with the same map name; constants shadow attributes
	LateConst string `json:"late_constant,omitempty"`
}

const lateValue = 4711

// declares reports whether the program binds the name somewhere (let, func, parameter).
func declares(e *lang.Expr, name string) bool {
	found := false
	e.Walk(func(x *lang.Expr) {
		if (x.K == lang.KLet || x.K == lang.KFunc) && x.S == name {
			found = true
		}
		if x.K == lang.KLam || x.K == lang.KFunc {
			for _, n := range x.Names {
				if n == name {
					found = true
				}
			}
		}
	})
	return found
}

func config() lang.Config {
	c := lang.Config{MaxDepth: 6, MaxNodes: 60, FailPercent: 15, ShadowStatics: true}
	if evid.Thorough() {
		c.MaxDepth, c.MaxNodes = 9, 150
	}
	return c
}

// buildMap returns the argument: a map in one of the storages of obs.BuildMap (0..3), or
// the map the implementation itself builds from a literal (4), also behind the wrappers of
// the export package, which are maps through ToMap (5: Format, 6: Link, 7: both).
func buildMap(c Case) value.Value {
	if c.Rep >= 4 {
		lit := lang.Map(append([]string{}, c.Prog.ArgNames...), append([]*lang.Expr{}, c.Args...))
		if c.Decoys {
			for _, k := range []string{"pi", "true", "false", "abs", "string", "numbers"} {
				lit = lang.MCall(lit, "put", lang.Str(k), lang.Str("decoy "+k))
			}
		}
		f, _, err := implOff.Generate(lang.Render(lit))
		if err != nil {
			panic("map literal rejected: " + err.Error())
		}
		m, err := f.Eval()
		if err != nil {
			panic("map literal fails: " + err.Error())
		}
		switch c.Rep {
		case 5:
			return export.Format{Value: m, Format: value.String("color:red")}
		case 6:
			return export.Link{Value: m, Link: "#top"}
		case 7:
			return export.Link{Value: export.Format{Value: m, Format: value.String("color:red")}, Link: "#top"}
		}
		return m
	}
	m := &ref.Map{}
	vals := progs.ArgValues(c.Args)
	for i, n := range c.Prog.ArgNames {
		m.Keys = append(m.Keys, n)
		m.Vals = append(m.Vals, vals[i])
	}
	if c.Decoys {
		for _, k := range []string{"pi", "true", "false", "abs", "string", "numbers"} {
			m.Keys = append(m.Keys, k)
			m.Vals = append(m.Vals, ref.Str("decoy "+k))
		}
	}
	return obs.BuildMap(m, obs.MapRep(c.Rep))
}

func check(c Case) (skip, msg string) {
	in := progs.NewRef()
	refCase := c.Case
	if c.LateConst != "" {
		// for the reference the name simply denotes the constant
		refCase.Args = append([]*lang.Expr{}, c.Args...)
		for i, n := range c.Prog.ArgNames {
			if n == c.LateConst {
				refCase.Args[i] = lang.Int(lateValue)
			}
		}
	}
	want := progs.RefRun(in, refCase)
	if why := progs.OutOfDomain(in, want); why != "" {
		return why, ""
	}
	attrs := map[string]bool{}
	for _, n := range c.Prog.ArgNames {
		if n != c.LateConst {
			attrs[n] = true
		}
	}
	explicitText := lang.Render(lang.RewriteAttrs(c.Prog.Body, mapName, attrs))
	for _, g := range []struct {
		name string
		g    *value.FunctionGenerator
	}{{"optimizer on", impl}, {"optimizer off", implOff}} {
		if c.LateConst != "" {
			// a generator of its own: a first function with this map name, then the constant
			g.g = progs.NewImpl(g.name == "optimizer on")
			if _, _, err := g.g.GenerateWithMap("0", mapName); err != nil {
				return "", "GenerateWithMap rejected \"0\": " + err.Error()
			}
			g.g.AddConstant(c.LateConst, value.Int(lateValue))
			g.name += ", constant " + c.LateConst + " registered after a first GenerateWithMap"
		}
		fi, _, err := g.g.GenerateWithMap(c.Text, mapName)
		if err != nil {
			return "", fmt.Sprintf("%s: GenerateWithMap rejected %q: %v", g.name, c.Text, err)
		}
		fe, _, err := g.g.Generate(explicitText, mapName)
		if err != nil {
			return "", fmt.Sprintf("%s: Generate rejected the explicit form %q: %v", g.name, explicitText, err)
		}
		gotI := progs.Observe(fi.Eval(buildMap(c)))
		gotE := progs.Observe(fe.Eval(buildMap(c)))
		if m := progs.Compare(want, gotE, 0); m != "" {
			return "", g.name + ": explicit form " + explicitText + ": " + m
		}
		if m := progs.Compare(want, gotI, 0); m != "" {
			return "", g.name + ": implicit form: " + m + " (explicit form " + explicitText + " agrees with the reference)"
		}
	}
	return "", ""
}

func TestPropC16(t *testing.T) {
	defer evid.R.Flush()
	cfg := config()
	rapid.Check(t, func(t *rapid.T) {
		cfg := cfg
		// attribute names that collide with local names elsewhere in the program
		if rapid.IntRange(0, 2).Draw(t, "collide") == 0 {
			cfg.ArgNames = []string{"a", "k", "v"}
		}
		rep := rapid.IntRange(0, 7).Draw(t, "rep")
		// attributes that hold closures, in the maps the implementation builds itself
		cfg.FnArgs = rep >= 4
		if cfg.FnArgs && cfg.ArgNames == nil && rapid.IntRange(0, 3).Draw(t, "methodNames") == 0 {
			// named like methods of maps
			cfg.ArgNames = []string{"get", "size", "isAvail"}
		}
		g := lang.NewGen(t, cfg)
		p := g.GenProgram()
		c := Case{Case: progs.Case{Prog: p, Args: progs.GenArgs(t, p.ArgTypes)}, Rep: rep,
			Decoys: rapid.Bool().Draw(t, "decoys")}
		c.Text = lang.Render(p.Body)
		if rapid.IntRange(0, 4).Draw(t, "lateConst") == 0 {
			for i, n := range p.ArgNames {
				if p.ArgTypes[i] == lang.TInt && !declares(p.Body, n) && p.Body.Mentions(n) {
					c.LateConst = n
					break
				}
			}
		}
		skip, msg := check(c)
		if skip != "" {
			evid.R.Skip()
			evid.R.Class("skipped_" + skip)
			return
		}
		if msg != "" {
			evid.Fail(t, prop, "c16", "", c, "%s\nprogram: %s\nmap: %v", msg, c.Text, c.Summary()["args"])
		}
		attrs := map[string]bool{}
		for _, n := range p.ArgNames {
			attrs[n] = true
		}
		nt := lang.AttrUseInClosure(p.Body, attrs)
		classes := []string{fmt.Sprintf("map_rep_%d", c.Rep)}
		if nt {
			classes = append(classes, "attribute_read_inside_closure_or_func")
		}
		if c.LateConst != "" {
			classes = append(classes, "constant_registered_after_first_GenerateWithMap")
		}
		for i, ty := range p.ArgTypes {
			if ty == lang.TFn1 && p.Body.Mentions(p.ArgNames[i]) {
				classes = append(classes, "attribute_holds_a_closure")
				if p.ArgNames[0] == "get" {
					classes = append(classes, "closure_attribute_named_like_a_map_method")
				}
				break
			}
		}
		if c.Rep >= 5 {
			classes = append(classes, "map_behind_a_wrapper_value")
		}
		if p.ArgNames[0] != "x" {
			classes = append(classes, "attribute_names_collide_with_locals")
		}
		evid.R.Case(nt, c.Text+"|"+c.Summary()["args"].(string), func() any { return c.Summary() }, classes...)
	})
}

func TestReplay(t *testing.T) {
	for _, path := range evid.ReplayFiles("c16") {
		var c Case
		if _, err := evid.ReadFailure(path, &c); err != nil {
			t.Fatalf("cannot read %s: %v", path, err)
		}
		if c.Text == "" {
			c.Text = lang.Render(c.Prog.Body)
		}
		if _, msg := check(c); msg != "" {
			evid.ReplayFailed(t, path, msg)
		}
	}
}
