package c16

import (
	"os"
	"path/filepath"
	"testing"

	"verif/harness/evid"
	. "verif/harness/lang"
	"verif/harness/progs"
)

func TestMakeExemplars(t *testing.T) {
	dir := os.Getenv("VERIF_MAKE_EXEMPLARS")
	if dir == "" {
		t.Skip("VERIF_MAKE_EXEMPLARS not set")
	}
	x := Var("x")
	exs := []progs.Exemplar{
		{"F19-attribute-in-closure", MCall(List(Int(1), Int(2)), "map", Lam([]string{"e"}, Bin("+", Var("e"), x))), []*Expr{Int(5)}},
		{"F19-attribute-in-func", Func("f", []string{"a"}, Bin("+", Var("a"), x), Call(Var("f"), Int(1))), []*Expr{Int(5)}},
		{"F19-attribute-in-nested-closure", Call(Call(Lam([]string{"a"}, Lam([]string{"b"}, Bin("+", Bin("*", Var("a"), Var("b")), x))), Int(2)), Int(3)), []*Expr{Int(5)}},
		{"local-shadows-attribute", MCall(List(Int(1), Int(2)), "map", Lam([]string{"x"}, Bin("+", x, Int(1)))), []*Expr{Int(5)}},
	}
	for _, e := range exs {
		p := Program{Body: e.Body, ArgNames: []string{"x"}, ArgTypes: []Ty{TInt}, ResType: TInt}
		c := Case{Case: progs.Case{Prog: p, Args: e.Args, Text: Render(e.Body)}, Decoys: true}
		os.Setenv("VERIF_FAILFILE", filepath.Join(dir, e.Name+".json"))
		evid.WriteFailure(evid.Failure{Property: prop, Test: "c16", Message: "regression exemplar: " + c.Text, Case: c})
	}
}
