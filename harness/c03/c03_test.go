// Package c03: operator priority, associativity and grouping for any operator table;
// structurally malformed input is rejected.
package c03

import (
	"fmt"
	"strings"
	"testing"
	"unicode/utf8"

	"github.com/hneemann/parser2"
	"github.com/hneemann/parser2/value"
	"pgregory.net/rapid"

	"verif/harness/astdump"
	"verif/harness/evid"
	"verif/harness/lang"
	"verif/harness/pratt"
)

const prop = "C03"

// ---- part A: generic operator tables -----------------------------------------------

// tnode is an expression tree over an operator table.
type tnode struct {
	kind string // id num bin un call idx dot mcall
	text string // identifier, number, operator, member name
	kids []*tnode
}

func (n *tnode) sexp() string {
	switch n.kind {
	case "id":
		return fmt.Sprintf("(id %q)", n.text)
	case "num":
		return fmt.Sprintf("(num %q)", n.text)
	case "bin":
		return fmt.Sprintf("(op %q %s %s)", n.text, n.kids[0].sexp(), n.kids[1].sexp())
	case "un":
		return fmt.Sprintf("(un %q %s)", n.text, n.kids[0].sexp())
	case "call":
		s := "(call " + n.kids[0].sexp()
		for _, k := range n.kids[1:] {
			s += " " + k.sexp()
		}
		return s + ")"
	case "idx":
		return "(idx " + n.kids[0].sexp() + " " + n.kids[1].sexp() + ")"
	case "dot":
		return fmt.Sprintf("(dot %q %s)", n.text, n.kids[0].sexp())
	case "mcall":
		s := fmt.Sprintf("(mcall %q %s", n.text, n.kids[0].sexp())
		for _, k := range n.kids[1:] {
			s += " " + k.sexp()
		}
		return s + ")"
	}
	panic("bad node")
}

// ptok is a token with the id of the parenthesis pair it belongs to (0 = none).
type ptok struct {
	pratt.Tok
	pair int
}

type renderer struct {
	toks  []ptok
	pairs int
	alias map[string]string // operator -> alias word (used for some occurrences)
	useAl func() bool
}

func (r *renderer) emit(k, t string) { r.toks = append(r.toks, ptok{Tok: pratt.Tok{Kind: k, Text: t}}) }

func (r *renderer) op(o string) {
	t := pratt.Tok{Kind: "op", Text: o}
	if a, ok := r.alias[o]; ok && r.useAl() {
		t.Alias = a
	}
	r.toks = append(r.toks, ptok{Tok: t})
}

// full renders with parentheses around every compound operand.
func (r *renderer) full(n *tnode, wrap bool) {
	compound := n.kind == "bin" || n.kind == "un"
	id := 0
	if wrap && compound {
		r.pairs++
		id = r.pairs
		r.toks = append(r.toks, ptok{Tok: pratt.Tok{Kind: "("}, pair: id})
	}
	switch n.kind {
	case "id":
		r.emit("id", n.text)
	case "num":
		r.emit("num", n.text)
	case "bin":
		r.full(n.kids[0], true)
		r.op(n.text)
		r.full(n.kids[1], true)
	case "un":
		r.op(n.text)
		r.full(n.kids[0], true)
	case "call":
		if n.kids[0].kind == "dot" {
			// "x.a()" would be a method call: these parentheses are part of the syntax
			r.emit("(", "")
			r.full(n.kids[0], false)
			r.emit(")", "")
		} else {
			r.full(n.kids[0], true)
		}
		r.emit("(", "")
		for i, k := range n.kids[1:] {
			if i > 0 {
				r.emit(",", "")
			}
			r.full(k, false)
		}
		r.emit(")", "")
	case "idx":
		r.full(n.kids[0], true)
		r.emit("[", "")
		r.full(n.kids[1], false)
		r.emit("]", "")
	case "dot":
		r.full(n.kids[0], true)
		r.emit(".", "")
		r.emit("id", n.text)
	case "mcall":
		r.full(n.kids[0], true)
		r.emit(".", "")
		r.emit("id", n.text)
		r.emit("(", "")
		for i, k := range n.kids[1:] {
			if i > 0 {
				r.emit(",", "")
			}
			r.full(k, false)
		}
		r.emit(")", "")
	}
	if id != 0 {
		r.toks = append(r.toks, ptok{Tok: pratt.Tok{Kind: ")"}, pair: id})
	}
}

func plain(toks []ptok, dropped map[int]bool) []pratt.Tok {
	out := make([]pratt.Tok, 0, len(toks))
	for _, t := range toks {
		if t.pair != 0 && dropped[t.pair] {
			continue
		}
		out = append(out, t.Tok)
	}
	return out
}

// TableCase is the replayable unit of part A.
type TableCase struct {
	Table pratt.Table `json:"table"`
	Toks  []pratt.Tok `json:"tokens"`
	Want  string      `json:"want_tree"`
	Text  string      `json:"text"`
	Mode  string      `json:"mode"`
}

func constString(s string) string {
	if strings.HasPrefix(s, "\x00") {
		return fmt.Sprintf("(str %q)", s[1:])
	}
	return fmt.Sprintf("(num %q)", s)
}

func newParser(t pratt.Table) *parser2.Parser[string] {
	p := parser2.NewParser[string]().
		SetNumberParser(parser2.NumberParserFunc[string](func(n string) (string, error) { return n, nil })).
		SetStringConverter(parser2.StringConverterFunc[string](func(s string) string { return "\x00" + s }))
	p.Op(t.Bin...)
	p.Unary(t.Prefix...)
	if len(t.Alias) > 0 {
		p.TextOperator(t.Alias)
	}
	return p
}

// parseImpl parses with the implementation; a panic is reported as a failure message.
func parseImpl(p *parser2.Parser[string], text string) (tree string, err error, panicked string) {
	defer func() {
		if r := recover(); r != nil {
			panicked = fmt.Sprint(r)
		}
	}()
	ast, err := p.Parse(text, astdump.AnyIdent[string]())
	if err != nil {
		return "", err, ""
	}
	return astdump.Dump[string](ast, constString), nil, ""
}

func checkTable(c TableCase) string {
	tree, err, pan := parseImpl(newParser(c.Table), c.Text)
	if pan != "" {
		return fmt.Sprintf("Parse(%q) panics: %s", c.Text, pan)
	}
	if err != nil {
		return fmt.Sprintf("Parse(%q) fails: %v; intended tree %s", c.Text, err, c.Want)
	}
	if tree != c.Want {
		return fmt.Sprintf("Parse(%q) = %s, intended tree %s", c.Text, tree, c.Want)
	}
	return ""
}

// (also symbols outside ASCII: an operator spelling is a sequence of characters, not of bytes)
var opChars = []string{"+", "-", "*", "/", "%", "^", "<", ">", "=", "!", "&", "|", "~", "?", "@", "#", "$", "≤", "∧", "¬", "≈", "⊕"}

func genSpelling(t *rapid.T, used map[string]bool, existing []string) string {
	for try := 0; try < 50; try++ {
		var s string
		if len(existing) > 0 && rapid.IntRange(0, 2).Draw(t, "extend") == 0 {
			// prefix-related spelling: extend an existing one
			base := existing[rapid.IntRange(0, len(existing)-1).Draw(t, "base")]
			s = base + opChars[rapid.IntRange(0, len(opChars)-1).Draw(t, "ext")]
		} else {
			l := rapid.IntRange(1, 2).Draw(t, "len")
			for i := 0; i < l; i++ {
				s += opChars[rapid.IntRange(0, len(opChars)-1).Draw(t, "ch")]
			}
		}
		if utf8.RuneCountInString(s) > 3 || used[s] || s == "->" || s == "=" && false {
			continue
		}
		// '->' is the closure arrow: an operator that ends with '-' in front of one that
		// begins with '>' is kept apart by the joiner; spellings containing "->" are avoided
		if strings.Contains(s, "->") {
			continue
		}
		used[s] = true
		return s
	}
	for i := 0; ; i++ {
		s := opChars[i%len(opChars)] + opChars[(i/len(opChars))%len(opChars)] + opChars[(i*7)%len(opChars)]
		if !used[s] && !strings.Contains(s, "->") {
			used[s] = true
			return s
		}
	}
}

func genTable(t *rapid.T) pratt.Table {
	var tab pratt.Table
	used := map[string]bool{}
	nb := rapid.IntRange(1, 16).Draw(t, "binOps")
	if rapid.IntRange(0, 3).Draw(t, "small") == 0 {
		nb = rapid.IntRange(1, 4).Draw(t, "binOpsSmall")
	}
	for i := 0; i < nb; i++ {
		tab.Bin = append(tab.Bin, genSpelling(t, used, tab.Bin))
	}
	np := rapid.IntRange(0, 3).Draw(t, "prefixOps")
	for i := 0; i < np; i++ {
		if rapid.Bool().Draw(t, "alsoBinary") {
			// at any priority, including the highest
			idx := rapid.IntRange(0, len(tab.Bin)-1).Draw(t, "prefixIdx")
			if rapid.IntRange(0, 3).Draw(t, "highest") == 0 {
				idx = len(tab.Bin) - 1
			}
			o := tab.Bin[idx]
			dup := false
			for _, p := range tab.Prefix {
				if p == o {
					dup = true
				}
			}
			if !dup {
				tab.Prefix = append(tab.Prefix, o)
			}
		} else {
			tab.Prefix = append(tab.Prefix, genSpelling(t, used, nil))
		}
	}
	if rapid.IntRange(0, 3).Draw(t, "aliases") == 0 {
		tab.Alias = map[string]string{}
		words := []string{"plus", "minus", "and", "or", "mod"}
		na := rapid.IntRange(1, 3).Draw(t, "nAlias")
		all := append(append([]string{}, tab.Bin...), tab.Prefix...)
		for i := 0; i < na && i < len(words); i++ {
			tab.Alias[words[i]] = all[rapid.IntRange(0, len(all)-1).Draw(t, "aliasOp")]
		}
	}
	return tab
}

var idents = []string{"a", "b", "c", "d", "f", "g", "x1", "_y"}

func genTree(t *rapid.T, tab pratt.Table, d int) *tnode {
	if d <= 0 || rapid.IntRange(0, 9).Draw(t, "leaf") < 2 {
		if rapid.IntRange(0, 3).Draw(t, "numLeaf") == 0 {
			return &tnode{kind: "num", text: fmt.Sprint(rapid.IntRange(0, 99).Draw(t, "num"))}
		}
		return &tnode{kind: "id", text: idents[rapid.IntRange(0, len(idents)-1).Draw(t, "id")]}
	}
	k := rapid.IntRange(0, 99).Draw(t, "kind")
	switch {
	case k < 55:
		op := tab.Bin[rapid.IntRange(0, len(tab.Bin)-1).Draw(t, "op")]
		return &tnode{kind: "bin", text: op, kids: []*tnode{genTree(t, tab, d-1), genTree(t, tab, d-1)}}
	case k < 72 && len(tab.Prefix) > 0:
		op := tab.Prefix[rapid.IntRange(0, len(tab.Prefix)-1).Draw(t, "pre")]
		return &tnode{kind: "un", text: op, kids: []*tnode{genTree(t, tab, d-1)}}
	case k < 80:
		n := rapid.IntRange(0, 3).Draw(t, "args")
		kids := []*tnode{genTree(t, tab, d-1)}
		for i := 0; i < n; i++ {
			kids = append(kids, genTree(t, tab, d-1))
		}
		return &tnode{kind: "call", kids: kids}
	case k < 87:
		return &tnode{kind: "idx", kids: []*tnode{genTree(t, tab, d-1), genTree(t, tab, d-1)}}
	case k < 93:
		return &tnode{kind: "dot", text: idents[rapid.IntRange(0, len(idents)-1).Draw(t, "member")], kids: []*tnode{genTree(t, tab, d-1)}}
	default:
		n := rapid.IntRange(0, 2).Draw(t, "margs")
		kids := []*tnode{genTree(t, tab, d-1)}
		for i := 0; i < n; i++ {
			kids = append(kids, genTree(t, tab, d-1))
		}
		return &tnode{kind: "mcall", text: idents[rapid.IntRange(0, len(idents)-1).Draw(t, "method")], kids: kids}
	}
}

// renderings produces the full, the minimal (derived with the reference parser: every
// parenthesis pair whose removal leaves the reference tree unchanged is dropped) and a
// random-redundant token list.
func renderings(tab pratt.Table, tree *tnode, keepSome func() bool, useAlias func() bool) (full, minimal, redundant []pratt.Tok, err error) {
	aliasOf := map[string]string{}
	for w, o := range tab.Alias {
		aliasOf[o] = w
	}
	r := &renderer{alias: aliasOf, useAl: useAlias}
	r.full(tree, false)
	want := tree.sexp()
	dropped := map[int]bool{}
	full = plain(r.toks, dropped)
	if got, perr := pratt.Parse(tab, full); perr != nil || got != want {
		return nil, nil, nil, fmt.Errorf("reference parser does not reproduce the fully parenthesised tree: %v / %s vs %s", perr, got, want)
	}
	droppedR := map[int]bool{}
	for id := 1; id <= r.pairs; id++ {
		dropped[id] = true
		if got, perr := pratt.Parse(tab, plain(r.toks, dropped)); perr != nil || got != want {
			dropped[id] = false
		}
	}
	minimal = plain(r.toks, dropped)
	for id := 1; id <= r.pairs; id++ {
		if dropped[id] && !keepSome() {
			droppedR[id] = true
			if got, perr := pratt.Parse(tab, plain(r.toks, droppedR)); perr != nil || got != want {
				droppedR[id] = false
			}
		}
	}
	redundant = plain(r.toks, droppedR)
	return
}

func countParens(toks []pratt.Tok) int {
	n := 0
	for _, t := range toks {
		if t.Kind == "(" {
			n++
		}
	}
	return n
}

func TestPropTables(t *testing.T) {
	defer evid.R.Flush()
	maxDepth := 5
	if evid.Thorough() {
		maxDepth = 7
	}
	rapid.Check(t, func(t *rapid.T) {
		tab := genTable(t)
		tree := genTree(t, tab, rapid.IntRange(1, maxDepth).Draw(t, "depth"))
		full, minimal, redundant, err := renderings(tab, tree,
			func() bool { return rapid.Bool().Draw(t, "keepParens") },
			func() bool { return rapid.IntRange(0, 2).Draw(t, "useAlias") == 0 })
		if err != nil {
			t.Fatalf("harness: %v", err)
		}
		want := tree.sexp()
		spaced := rapid.Bool().Draw(t, "spaced")
		for _, m := range []struct {
			name string
			toks []pratt.Tok
		}{{"full", full}, {"minimal", minimal}, {"redundant", redundant}} {
			c := TableCase{Table: tab, Toks: m.toks, Want: want, Text: tab.Join(m.toks, spaced), Mode: m.name}
			if msg := checkTable(c); msg != "" {
				evid.Fail(t, prop, "tables", "", c, "%s\ntable: bin=%q prefix=%q alias=%v", msg, tab.Bin, tab.Prefix, tab.Alias)
			}
		}
		// non-trivial: the minimal rendering has fewer parentheses than the full one and
		// contains two different binary operators or a prefix operator next to a binary one
		ops := map[string]bool{}
		hasUn, hasBin := false, false
		var walk func(n *tnode)
		walk = func(n *tnode) {
			if n.kind == "bin" {
				ops[n.text] = true
				hasBin = true
			}
			if n.kind == "un" {
				hasUn = true
			}
			for _, k := range n.kids {
				walk(k)
			}
		}
		walk(tree)
		nt := countParens(minimal) < countParens(full) && (len(ops) >= 2 || (hasUn && hasBin))
		classes := []string{}
		if len(tab.Prefix) > 0 {
			classes = append(classes, "table_with_prefix_ops")
			for _, p := range tab.Prefix {
				if len(tab.Bin) > 0 && p == tab.Bin[len(tab.Bin)-1] {
					classes = append(classes, "prefix_op_is_highest_binary")
				}
			}
		}
		if len(tab.Alias) > 0 {
			classes = append(classes, "table_with_text_aliases")
		}
		if !spaced {
			classes = append(classes, "tight_joining")
		}
		evid.R.Case(nt, fmt.Sprint(tab.Bin, tab.Prefix, tab.Alias, tab.Join(minimal, spaced)), func() any {
			return map[string]any{"bin": tab.Bin, "prefix": tab.Prefix, "alias": tab.Alias, "minimal": tab.Join(minimal, spaced), "full": tab.Join(full, spaced)}
		}, classes...)
	})
}

// ---- part B: mutations of value-language programs ---------------------------------------

var valueGen = func() *value.FunctionGenerator {
	g := value.New()
	g.SetOptimizer(nil)
	return g
}()

func valueConst(v value.Value) string {
	switch x := v.(type) {
	case value.Int:
		return fmt.Sprintf("(num %q)", fmt.Sprint(int(x)))
	case value.Float:
		return fmt.Sprintf("(num %q)", lang.FloatLit(float64(x)))
	case value.String:
		return fmt.Sprintf("(str %q)", string(x))
	}
	return fmt.Sprintf("(const %v)", v)
}

// MutCase: a token list over the value-language grammar (valid or mutated).
type MutCase struct {
	Toks []pratt.Tok `json:"tokens"`
	Text string      `json:"text"`
	Mut  string      `json:"mutation"`
}

func parseValue(text string) (tree string, err error, panicked string) {
	defer func() {
		if r := recover(); r != nil {
			panicked = fmt.Sprint(r)
		}
	}()
	ast, err := valueGen.CreateAst(text, astdump.AnyIdent[value.Value]())
	if err != nil {
		return "", err, ""
	}
	return astdump.Dump[value.Value](ast, valueConst), nil, ""
}

// checkMut returns (message, referenceAccepts).
func checkMut(c MutCase) (string, bool) {
	var want string
	wt, rerr := pratt.ParseTree(lang.ValueTable, c.Toks)
	if rerr == nil {
		// the parser propagates literal-valued lets even without an optimizer
		want = pratt.InlineConstLets(wt).String()
	}
	got, ierr, pan := parseValue(c.Text)
	if pan != "" {
		return fmt.Sprintf("parsing %q panics: %s", c.Text, pan), rerr == nil
	}
	if rerr != nil {
		if ierr == nil {
			return fmt.Sprintf("malformed input %q is accepted as %s; the grammar rejects it: %v", c.Text, got, rerr), false
		}
		return "", false
	}
	if ierr != nil {
		return fmt.Sprintf("well-formed input %q is rejected: %v; expected tree %s", c.Text, ierr, want), true
	}
	if got != want {
		return fmt.Sprintf("input %q parses to %s, expected %s", c.Text, got, want), true
	}
	return "", true
}

var insertable = []pratt.Tok{{Kind: "("}, {Kind: ")"}, {Kind: "["}, {Kind: "]"}, {Kind: "{"}, {Kind: "}"}, {Kind: ","}, {Kind: ";"}, {Kind: ":"},
	{Kind: "."}, {Kind: "kw", Text: "then"}, {Kind: "kw", Text: "else"}, {Kind: "kw", Text: "catch"}, {Kind: "kw", Text: "default"},
	{Kind: "kw", Text: "case"}, {Kind: "kw", Text: "if"}, {Kind: "kw", Text: "let"}, {Kind: "kw", Text: "try"}, {Kind: "op", Text: "+"},
	{Kind: "op", Text: "-"}, {Kind: "op", Text: "="}, {Kind: "op", Text: "->"}, {Kind: "op", Text: "!"}, {Kind: "id", Text: "q"}, {Kind: "num", Text: "7"}}

func TestPropMutations(t *testing.T) {
	defer evid.R.Flush()
	cfg := lang.Config{MaxDepth: 5, MaxNodes: 40, FailPercent: 10}
	if evid.Thorough() {
		cfg.MaxDepth, cfg.MaxNodes = 7, 80
	}
	rapid.Check(t, func(t *rapid.T) {
		g := lang.NewGen(t, cfg)
		p := g.GenProgram()
		toks := lang.Tokens(p.Body)
		// the valid program first
		valid := MutCase{Toks: toks, Text: lang.ValueTable.Join(toks, true), Mut: "none"}
		if msg, _ := checkMut(valid); msg != "" {
			evid.Fail(t, prop, "mutations", "", valid, "%s", msg)
		}
		evid.R.Case(false, "", nil, "valid_program")
		n := rapid.IntRange(1, 6).Draw(t, "mutations")
		for i := 0; i < n; i++ {
			mt := append([]pratt.Tok{}, toks...)
			pos := rapid.IntRange(0, len(mt)-1).Draw(t, "pos")
			kind := rapid.SampledFrom([]string{"delete", "delete", "insert", "insert", "duplicate", "truncate", "swap"}).Draw(t, "mutKind")
			switch kind {
			case "delete":
				mt = append(mt[:pos], mt[pos+1:]...)
			case "insert":
				ins := insertable[rapid.IntRange(0, len(insertable)-1).Draw(t, "ins")]
				mt = append(mt[:pos], append([]pratt.Tok{ins}, mt[pos:]...)...)
			case "duplicate":
				mt = append(mt[:pos], append([]pratt.Tok{mt[pos]}, mt[pos:]...)...)
			case "truncate":
				mt = mt[:pos]
			case "swap":
				if pos+1 < len(mt) {
					mt[pos], mt[pos+1] = mt[pos+1], mt[pos]
				}
			}
			if len(mt) == 0 {
				continue
			}
			c := MutCase{Toks: mt, Text: lang.ValueTable.Join(mt, true), Mut: kind}
			msg, accepts := checkMut(c)
			if msg != "" {
				evid.Fail(t, prop, "mutations", "", c, "%s\n(mutation %s at token %d of %q)", msg, kind, pos, valid.Text)
			}
			class := "mutant_rejected_by_grammar"
			if accepts {
				class = "mutant_still_well_formed"
			}
			evid.R.Case(true, c.Text, func() any { return map[string]any{"mutation": kind, "text": c.Text, "grammar_accepts": accepts} }, class, "mutation_"+kind)
		}
	})
}

func TestReplay(t *testing.T) {
	for _, path := range evid.ReplayFiles("tables") {
		var c TableCase
		if _, err := evid.ReadFailure(path, &c); err != nil {
			t.Fatalf("cannot read %s: %v", path, err)
		}
		if msg := checkTable(c); msg != "" {
			evid.ReplayFailed(t, path, msg)
		}
	}
	for _, path := range evid.ReplayFiles("mutations") {
		var c MutCase
		if _, err := evid.ReadFailure(path, &c); err != nil {
			t.Fatalf("cannot read %s: %v", path, err)
		}
		if msg, _ := checkMut(c); msg != "" {
			evid.ReplayFailed(t, path, msg)
		}
	}
}
