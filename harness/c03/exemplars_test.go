package c03

import (
	"os"
	"path/filepath"
	"testing"

	"verif/harness/evid"
	"verif/harness/pratt"
)

func TestMakeExemplars(t *testing.T) {
	dir := os.Getenv("VERIF_MAKE_EXEMPLARS")
	if dir == "" {
		t.Skip("VERIF_MAKE_EXEMPLARS not set")
	}
	tab := pratt.Table{Bin: []string{"+", "-"}, Prefix: []string{"-"}}
	cases := map[string]TableCase{
		"F4-prefix-operator-is-highest-binary": {Table: tab, Text: "a+-b", Want: `(op "+" (id "a") (un "-" (id "b")))`, Mode: "minimal"},
		"F4-nested-prefix-highest-binary":      {Table: tab, Text: "--a-b", Want: `(op "-" (un "-" (un "-" (id "a"))) (id "b"))`, Mode: "minimal"},
		"prefix-swallows-higher-priority": {Table: pratt.Table{Bin: []string{"+", "-", "*", "^"}, Prefix: []string{"-"}}, Text: "2^-a*b",
			Want: `(op "^" (num "2") (un "-" (op "*" (id "a") (id "b"))))`, Mode: "minimal"},
	}
	for name, c := range cases {
		os.Setenv("VERIF_FAILFILE", filepath.Join(dir, name+".json"))
		evid.WriteFailure(evid.Failure{Property: prop, Test: "tables", Message: "regression exemplar: " + c.Text, Case: c})
	}
	muts := map[string]MutCase{
		"missing-else":   {Text: "if a then b", Toks: []pratt.Tok{{Kind: "kw", Text: "if"}, {Kind: "id", Text: "a"}, {Kind: "kw", Text: "then"}, {Kind: "id", Text: "b"}}, Mut: "truncate"},
		"trailing-token": {Text: "a + b )", Toks: []pratt.Tok{{Kind: "id", Text: "a"}, {Kind: "op", Text: "+"}, {Kind: "id", Text: "b"}, {Kind: ")"}}, Mut: "insert"},
	}
	for name, c := range muts {
		os.Setenv("VERIF_FAILFILE", filepath.Join(dir, name+".json"))
		evid.WriteFailure(evid.Failure{Property: prop, Test: "mutations", Message: "regression exemplar: " + c.Text, Case: c})
	}
}
