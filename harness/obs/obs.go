// Package obs converts between implementation values (package value of /repo) and
// reference values (package ref): arguments go in, results are forced deeply and come
// back as reference values for comparison.
package obs

import (
	"fmt"
	"sort"

	"github.com/hneemann/parser2/funcGen"
	"github.com/hneemann/parser2/listMap"
	"github.com/hneemann/parser2/value"

	"verif/harness/ref"
)

// HostPanic reports a Go panic that reached the host while it consumed a result.
type HostPanic struct{ Val any }

func (h *HostPanic) Error() string { return fmt.Sprintf("panic in host while forcing a lazy result: %v", h.Val) }

// MapRep selects the storage used for maps handed to the implementation.
type MapRep int

const (
	RepListMap MapRep = iota
	RepRealMap
	RepAppend
	RepMerge
)

// ToImpl converts a reference value into an implementation value.
func ToImpl(v ref.Value) value.Value { return ToImplRep(v, RepListMap) }

func ToImplRep(v ref.Value, rep MapRep) value.Value {
	switch x := v.(type) {
	case ref.Int:
		return value.Int(x)
	case ref.Float:
		return value.Float(x)
	case ref.Str:
		return value.String(x)
	case ref.Bool:
		return value.Bool(x)
	case *ref.List:
		items := make([]value.Value, len(x.Items))
		for i, it := range x.Items {
			items[i] = ToImplRep(it, rep)
		}
		return value.NewList(items...)
	case *ref.Map:
		return buildMap(x, rep, rep)
	}
	panic(fmt.Sprintf("obs: cannot convert %T to an implementation value", v))
}

// BuildMap creates the implementation map in the requested representation; nested
// values are built in the ordered default representation.
func BuildMap(x *ref.Map, rep MapRep) value.Map {
	return buildMap(x, rep, RepListMap)
}

func buildMap(x *ref.Map, rep, inner MapRep) value.Map {
	lm := func(keys []string, vals []ref.Value) listMap.ListMap[value.Value] {
		m := listMap.New[value.Value](len(keys))
		for i, k := range keys {
			m = m.Append(k, ToImplRep(vals[i], inner))
		}
		return m
	}
	n := len(x.Keys)
	switch rep {
	case RepRealMap:
		rm := value.RealMap{}
		for i, k := range x.Keys {
			rm[k] = ToImplRep(x.Vals[i], inner)
		}
		return value.NewMap(rm)
	case RepAppend:
		if n == 0 {
			return value.NewMap(lm(nil, nil))
		}
		// build by put(): the implementation's AppendMap chain
		g := value.New()
		f, _, err := g.Generate("m.put(k,v)", "m", "k", "v")
		if err != nil {
			panic(err)
		}
		var cur value.Value = value.NewMap(lm(nil, nil))
		for i, k := range x.Keys {
			cur, err = f.Eval(cur, value.String(k), ToImplRep(x.Vals[i], inner))
			if err != nil {
				panic(err)
			}
		}
		return cur.(value.Map)
	case RepMerge:
		if n < 2 {
			return value.NewMap(lm(x.Keys, x.Vals))
		}
		h := n / 2
		a := value.NewMap(lm(x.Keys[:h], x.Vals[:h]))
		b := value.NewMap(lm(x.Keys[h:], x.Vals[h:]))
		mm, err := a.Merge(b)
		if err != nil {
			panic(err)
		}
		return mm
	}
	return value.NewMap(lm(x.Keys, x.Vals))
}

// FromImpl forces an implementation value deeply and returns it as a reference value.
// A lazy list that fails while being forced becomes a ref.List with Err set (prefix +
// failure). A Go panic during forcing is returned as *HostPanic.
func FromImpl(v value.Value) (res ref.Value, err error) {
	defer func() {
		if r := recover(); r != nil {
			res, err = nil, &HostPanic{Val: r}
		}
	}()
	return fromImpl(v)
}

func fromImpl(v value.Value) (ref.Value, error) {
	switch x := v.(type) {
	case nil:
		return nil, fmt.Errorf("nil value")
	case value.Int:
		return ref.Int(x), nil
	case value.Float:
		return ref.Float(x), nil
	case value.String:
		return ref.Str(x), nil
	case value.Bool:
		return ref.Bool(x), nil
	case *value.List:
		out := &ref.List{}
		st := funcGen.NewEmptyStack[value.Value]()
		for it, err := range x.Iterate(st) {
			if err != nil {
				out.Err = &ref.Error{Msg: err.Error()}
				return out, nil
			}
			c, cerr := fromImpl(it)
			if cerr != nil {
				return nil, cerr
			}
			out.Items = append(out.Items, c)
		}
		return out, nil
	case value.Map:
		out := &ref.Map{}
		var ierr error
		x.Iter(func(k string, it value.Value) bool {
			c, cerr := fromImpl(it)
			if cerr != nil {
				ierr = cerr
				return false
			}
			out.Keys = append(out.Keys, k)
			out.Vals = append(out.Vals, c)
			return true
		})
		if ierr != nil {
			return nil, ierr
		}
		return out, nil
	case value.Closure:
		return &ref.Closure{N: x.Args}, nil
	}
	return nil, fmt.Errorf("obs: unsupported implementation value %T", v)
}

// SortedKeys returns the keys of a reference map in sorted order.
func SortedKeys(m *ref.Map) []string {
	k := append([]string{}, m.Keys...)
	sort.Strings(k)
	return k
}
