package c07

import (
	"fmt"
	"sort"
	"testing"
	"time"

	"pgregory.net/rapid"

	"verif/harness/evid"
	"verif/harness/lang"
	"verif/harness/leak"
	"verif/harness/progs"
	"verif/harness/ref"
)

const prop = "C07"

var implOn = progs.NewImpl(true)
var implOff = progs.NewImpl(false)

type info struct {
	skip     string
	err      bool
	boundary bool
}

func check(c progs.Case) (string, info) {
	var inf info
	in := progs.NewRef()
	want := progs.RefRun(in, c)
	tol := 0.0
	why := progs.OutOfDomain(in, want)
	if why == "inexact_float_product" {
		why = ""
	}
	if why != "" {
		inf.skip = why
		return "", inf
	}
	if in.Rounded {
		tol = 1e-9
	}
	inf.err = want.Err != nil
	for _, g := range []struct {
		name string
		on   bool
	}{{"optimizer on", true}, {"optimizer off", false}} {
		impl := implOff
		if g.on {
			impl = implOn
		}
		got, again := progs.ImplRunTwice(impl, c)
		if msg := progs.Compare(want, got, tol); msg != "" {
			return g.name + ": " + msg, inf
		}
		if msg := progs.Compare(want, again, tol); msg != "" {
			return g.name + ", second evaluation of the same function with the same argument objects: " + msg, inf
		}
	}
	return "", inf
}

func TestPropC07(t *testing.T) {
	defer evid.R.Flush()
	defer evid.ClearPending()
	rapid.Check(t, func(t *rapid.T) {
		g := &G{T: t, Methods: map[string]bool{}}
		g.misuse = rapid.IntRange(0, 4).Draw(t, "misuse") == 0
		body := g.Expr()
		xs := progs.GenArg(t, lang.TLInt, "xs")
		c := progs.Case{Prog: lang.Program{Body: body, ArgNames: []string{"xs"}, ArgTypes: []lang.Ty{lang.TLInt}}, Args: []*lang.Expr{xs}}
		c.Text = lang.Render(body)
		evid.Pending(prop, "c07", c)
		msg, inf := check(c)
		if inf.skip != "" {
			evid.R.Skip()
			evid.R.Class("skipped_" + inf.skip)
			return
		}
		if msg != "" {
			evid.Fail(t, prop, "c07", "", c, "%s\nprogram: %s\nargs: %v", msg, c.Text, c.Summary()["args"])
		}
		var cls []string
		for m := range g.Methods {
			cls = append(cls, "m_"+m)
		}
		sort.Strings(cls)
		if g.Misused {
			cls = append(cls, "misuse")
		}
		if g.Deferred {
			cls = append(cls, "pipeline_read_behind_later_lets")
		}
		if g.LazyOperand {
			cls = append(cls, "lazy_pipeline_as_list_argument")
		}
		if inf.err {
			cls = append(cls, "error_outcome")
		}
		evid.R.Case(true, c.Text+"|"+c.Summary()["args"].(string), func() any { return c.Summary() }, cls...)
	})
}

var _ = ref.Show
var _ = fmt.Sprint

func TestReplay(t *testing.T) {
	for _, path := range evid.ReplayFiles("c07") {
		var c progs.Case
		if _, err := evid.ReadFailure(path, &c); err != nil {
			t.Fatalf("cannot read %s: %v", path, err)
		}
		if c.Text == "" {
			c.Text = lang.Render(c.Prog.Body)
		}
		msg, _ := check(c)
		// goroutines the case may have left behind get the chance to fail now (a panic
		// there kills this process, which the isolated replay counts as a failure)
		leak.Settle(2*time.Second, 200*time.Millisecond)
		if msg != "" {
			evid.ReplayFailed(t, path, msg)
		} else {
			evid.ReplayPassed(path)
		}
	}
}

// OrderCase: a list of records and a key with ties: the result must be a sorted
// permutation (both directions); stability is not asserted.
type OrderCase struct {
	Items  []*lang.Expr `json:"items"`
	Method string       `json:"method"`
	Key    *lang.Expr   `json:"key"` // closure literal
}

func checkOrder(c OrderCase) string {
	list := lang.List(c.Items...)
	var prog *lang.Expr
	if c.Method == "orderLess" {
		// a<b on the keys
		prog = lang.MCall(list, "orderLess", lang.Lam([]string{"p", "q"}, lang.Bin("<", lang.Call(c.Key, lang.Var("p")), lang.Call(c.Key, lang.Var("q")))))
	} else {
		prog = lang.MCall(list, c.Method, c.Key)
	}
	pc := progs.Case{Prog: lang.Program{Body: prog}, Text: lang.Render(prog)}
	in := progs.NewRef()
	src, err := in.Eval(list, ref.Globals())
	if err != nil {
		return "harness: " + err.Error()
	}
	for _, impl := range []*struct {
		name string
		on   bool
	}{{"optimizer on", true}, {"optimizer off", false}} {
		g := implOff
		if impl.on {
			g = implOn
		}
		got := progs.ImplRun(g, pc)
		if got.GenErr != nil || got.Err != nil {
			return fmt.Sprintf("%s: %s fails: %v", impl.name, pc.Text, got)
		}
		res, ok := got.Val.(*ref.List)
		if !ok || res.Err != nil {
			return fmt.Sprintf("%s: %s = %v", impl.name, pc.Text, got)
		}
		perm := &ref.List{Items: src.(*ref.List).Items, Unordered: true}
		if !ref.Same(perm, res, 0) {
			return fmt.Sprintf("%s: %s = %s is not a permutation of the input", impl.name, pc.Text, ref.Show(res))
		}
		var keys []ref.Value
		for _, it := range res.Items {
			k, err := progs.NewRef().Eval(lang.Call(c.Key, lang.Var("it")), ref.Globals().Bind("it", it, false))
			if err != nil {
				return "harness: key fails: " + err.Error()
			}
			keys = append(keys, k)
		}
		for i := 0; i+1 < len(keys); i++ {
			x, y := keys[i], keys[i+1]
			if c.Method == "orderRev" {
				x, y = y, x
			}
			if l, _ := ref.Less(y, x); l {
				return fmt.Sprintf("%s: %s = %s is not sorted: keys %s", impl.name, pc.Text, ref.Show(res), ref.Show(&ref.List{Items: keys}))
			}
		}
	}
	return ""
}

func TestPropOrder(t *testing.T) {
	defer evid.R.Flush()
	rapid.Check(t, func(t *rapid.T) {
		n := rapid.IntRange(0, 14).Draw(t, "n")
		c := OrderCase{Method: rapid.SampledFrom([]string{"order", "orderRev", "orderLess"}).Draw(t, "method")}
		for i := 0; i < n; i++ {
			c.Items = append(c.Items, lang.Map([]string{"k", "id"}, []*lang.Expr{lang.Int(rapid.IntRange(0, 3).Draw(t, "k")), lang.Int(i)}))
		}
		e := lang.Var("e")
		c.Key = []*lang.Expr{lang.Lam([]string{"e"}, lang.Member(e, "k")), lang.Lam([]string{"e"}, lang.Bin("/", lang.Member(e, "k"), lang.Int(2))),
			lang.Lam([]string{"e"}, lang.MCall(lang.Bin("%", lang.Member(e, "k"), lang.Int(2)), "string"))}[rapid.IntRange(0, 2).Draw(t, "key")]
		if msg := checkOrder(c); msg != "" {
			evid.Fail(t, prop, "order", "", c, "%s", msg)
		}
		evid.R.Case(n >= 2, fmt.Sprint(lang.Render(lang.List(c.Items...)), c.Method, lang.Render(c.Key)), func() any {
			return map[string]any{"list": lang.Render(lang.List(c.Items...)), "method": c.Method, "key": lang.Render(c.Key)}
		}, "m_"+c.Method+"_with_ties")
	})
}

func TestReplayOrder(t *testing.T) {
	for _, path := range evid.ReplayFiles("order") {
		var c OrderCase
		if _, err := evid.ReadFailure(path, &c); err != nil {
			t.Fatalf("cannot read %s: %v", path, err)
		}
		if msg := checkOrder(c); msg != "" {
			evid.ReplayFailed(t, path, msg)
		}
	}
}
