package c07

import (
	"os"
	"path/filepath"
	"testing"

	"verif/harness/evid"
	. "verif/harness/lang"
	"verif/harness/progs"
)

func TestMakeExemplars(t *testing.T) {
	dir := os.Getenv("VERIF_MAKE_EXEMPLARS")
	if dir == "" {
		t.Skip("VERIF_MAKE_EXEMPLARS not set")
	}
	l5 := List(Int(1), Int(2), Int(3), Int(4), Int(5))
	exs := []progs.Exemplar{
		{Name: "F9-combineN-window-order", Body: MCall(l5, "combineN", Int(3), lam("l", MCall(l, "string")))},
		{Name: "F8-cut-on-empty-string", Body: MCall(MCall(Str(" "), "trim"), "cut", Int(0), Int(1))},
		{Name: "F5a-merge-operand-continues-behind-its-error", Body: MCall(MCall(List(Int(1), Int(2), Int(3)), "merge",
			MCall(List(Str("a"), Int(1), Int(2), Int(3)), "iir", lam("e", e), lam("a,b", Bin("+", a, b))), lam("a,b", Bin("<", a, b))), "first")},
		{Name: "cross-replays-a-lazy-stateful-operand", Body: MCall(List(Int(10), Int(20), Int(30)), "cross",
			MCall(MCall(List(Int(5), Int(6)), "number", lam("a,b", Bin("+", Bin("*", a, Int(100)), b))), "iir", lam("e", e), lam("a,b", Bin("+", a, b))), lam("a,b", Bin("+", a, b)))},
		{Name: "F25-groupByEqual-on-list-keys", Body: MCall(List(List(Int(1)), List(Int(2)), List(Int(1))), "groupByEqual", lam("e", e))},
	}
	for _, ex := range exs {
		p := Program{Body: ex.Body, ArgNames: []string{"xs"}, ArgTypes: []Ty{TLInt}}
		c := progs.Case{Prog: p, Args: []*Expr{List(Int(1), Int(2))}, Text: Render(ex.Body)}
		os.Setenv("VERIF_FAILFILE", filepath.Join(dir, ex.Name+".json"))
		evid.WriteFailure(evid.Failure{Property: prop, Test: "c07", Message: "regression exemplar: " + c.Text, Case: c})
	}
}
