// Package c07: the built-in list, map, string and numeric library matches its
// documented model.
package c07

import (
	"fmt"

	"pgregory.net/rapid"

	. "verif/harness/lang"
)

// G generates library calls. Kinds of values: "il" (list of ints, possibly mixed with
// floats), "sl" (list of strings), "rl" (list of records {k:int, s:str, v:float}),
// "ll" (list of int lists), "m" (map of ints), "s" (string), "i" (int), "any".
type G struct {
	T       *rapid.T
	Methods map[string]bool // methods used by the generated expression
	misuse  bool
	Misused bool
	// LazyOperand: a list argument of a built-in is a lazy pipeline
	LazyOperand bool
	// Deferred: the pipeline is bound to a local and read behind further lets
	Deferred bool
}

func (g *G) n(max int, label string) int {
	if max <= 1 {
		return 0
	}
	return rapid.IntRange(0, max-1).Draw(g.T, label)
}

func (g *G) use(m string) { g.Methods[m] = true }

func (g *G) int(lo, hi int, label string) *Expr { return Int(rapid.IntRange(lo, hi).Draw(g.T, label)) }

var words = []string{"", "a", "ab", "abc", "b", "Hello World", "äöü", "x,y,z", "  pad  ", "MiXed", "line1\nkey: val\nrest", "10", "-7", "2.5", "€uro", "a,b", "zz top"}

func (g *G) str(label string) *Expr { return Str(words[g.n(len(words), label)]) }

func lam(params string, body *Expr) *Expr {
	var ps []string
	cur := ""
	for _, c := range params {
		if c == ',' {
			ps = append(ps, cur)
			cur = ""
		} else {
			cur += string(c)
		}
	}
	ps = append(ps, cur)
	return Lam(ps, body)
}

var (
	e = Var("e")
	a = Var("a")
	b = Var("b")
	c = Var("c")
	l = Var("l")
)

// intList draws a source list of ints: literal (empty, singleton, duplicates, sorted,
// reversed, mixed int/float), numbers(n), or a list argument.
func (g *G) intList(d int) *Expr {
	switch g.n(10, "ilSrc") {
	case 0:
		return List()
	case 1:
		return List(g.int(-3, 9, "single"))
	case 2:
		return SCall("numbers", g.int(0, 8, "numbers"))
	case 3:
		// duplicates
		x := g.int(-2, 5, "dup")
		return List(x, x, g.int(-2, 5, "dup2"), x)
	case 4:
		// mixed int/float (dyadic)
		return List(g.int(-3, 9, "m1"), Float(float64(rapid.IntRange(-8, 20).Draw(g.T, "mf"))/4), g.int(-3, 9, "m2"), Float(1.5))
	case 5:
		return Var("xs")
	}
	n := g.n(7, "ilLen")
	items := make([]*Expr, n)
	for i := range items {
		items[i] = g.int(-4, 12, "item")
	}
	switch g.n(3, "ilOrder") {
	case 0:
		return MCall(List(items...), "order", lam("e", e))
	case 1:
		return MCall(List(items...), "orderRev", lam("e", e))
	}
	return List(items...)
}

// operandList draws a list that is handed to a built-in as an argument (the other list
// of cross, merge, +): half of them are lazy pipelines, so that the built-in consumes -
// cross: repeatedly - a list whose stages carry state (number, iir, combine, fsm ...).
func (g *G) operandList(d int) *Expr {
	cur := g.intList(d)
	if d <= 0 || g.n(2, "lazyOperand") == 0 {
		return cur
	}
	g.LazyOperand = true
	for i, n := 0, 1+g.n(2, "operandStages"); i < n; i++ {
		cur = g.listStage(cur, d-1)
	}
	return cur
}

func (g *G) strList() *Expr {
	if g.n(4, "slSrc") == 0 {
		g.use("split")
		return MCall(Str("b,a,,c,a"), "split", Str(","))
	}
	n := g.n(5, "slLen")
	items := make([]*Expr, n)
	for i := range items {
		items[i] = g.str("sitem")
	}
	return List(items...)
}

func (g *G) recList() *Expr {
	n := g.n(6, "rlLen")
	items := make([]*Expr, n)
	for i := range items {
		items[i] = Map([]string{"k", "s", "v"}, []*Expr{g.int(0, 4, "rk"), Str([]string{"a", "b", "c"}[g.n(3, "rs")]),
			Float(float64(rapid.IntRange(0, 40).Draw(g.T, "rv")) / 4)})
	}
	return List(items...)
}

// intFn draws an int -> int callback (total, partial or failing at some element).
func (g *G) intFn() *Expr {
	switch g.n(8, "intFn") {
	case 0:
		return lam("e", Bin("+", Bin("*", e, Int(2)), Int(1)))
	case 1:
		return lam("e", Bin("-", Int(10), e))
	case 2:
		return lam("e", Bin("%", e, Int(3)))
	case 3:
		return lam("e", SCall("abs", e))
	case 4:
		return lam("e", Bin("*", e, e))
	case 5:
		// partial: fails for one value
		return lam("e", If(Bin("=", e, g.int(0, 6, "failAt")), SCall("throw", Str("T#0#")), e))
	case 6:
		return lam("e", Bin("/", e, Int(2))) // ints become floats
	}
	return lam("e", e)
}

func (g *G) boolFn() *Expr {
	switch g.n(6, "boolFn") {
	case 0:
		return lam("e", Bin("=", Bin("%", e, Int(2)), Int(0)))
	case 1:
		return lam("e", Bin(">", e, g.int(-1, 6, "gt")))
	case 2:
		return lam("e", Bool(true))
	case 3:
		return lam("e", Bool(false))
	case 4:
		return lam("e", Bin("=", e, g.int(-1, 8, "eq")))
	}
	return lam("e", Bin("<", e, g.int(0, 5, "lt")))
}

// bad returns a wrong argument for misuse cases.
func (g *G) bad() *Expr {
	g.Misused = true
	switch g.n(6, "bad") {
	case 0:
		return Int(3)
	case 1:
		return Str("x")
	case 2:
		return lam("p,q,r,s", Var("p")) // wrong arity
	case 3:
		return lam("e", Str("notbool"))
	case 4:
		return List()
	}
	return Bool(true)
}

// maybeBad replaces an argument by a wrong one in misuse mode.
func (g *G) mb(arg *Expr) *Expr {
	if g.misuse && g.n(6, "misuseHere") == 0 {
		return g.bad()
	}
	return arg
}

// listStage applies one lazy or eager list -> list method to an int list.
func (g *G) listStage(recv *Expr, d int) *Expr {
	k := g.n(30, "stage")
	m := func(name string, args ...*Expr) *Expr {
		g.use(name)
		if g.misuse && g.n(10, "arity") == 0 && len(args) > 0 {
			g.Misused = true
			args = args[:len(args)-1] // one argument missing
		}
		return MCall(recv, name, args...)
	}
	switch k {
	case 0, 1:
		return m("map", g.mb(g.intFn()))
	case 2, 3:
		return m("accept", g.mb(g.boolFn()))
	case 4:
		return m("top", g.mb(g.int(-1, 9, "top")))
	case 5:
		return m("skip", g.mb(g.int(-1, 9, "skip")))
	case 6:
		return m("reverse")
	case 7:
		return m("append", g.int(-3, 9, "app"))
	case 8:
		return m("combine", g.mb(lam("a,b", Bin("-", b, a))))
	case 9:
		return m("combine3", g.mb(lam("a,b,c", Bin("+", Bin("*", a, Int(100)), Bin("+", Bin("*", b, Int(10)), c)))))
	case 10:
		return m("combineN", g.mb(g.int(0, 5, "n")), g.mb(lam("l", MCall(l, "reduce", lam("a,b", Bin("+", Bin("*", a, Int(10)), b))))))
	case 11:
		return m("number", g.mb(lam("a,b", Bin("+", Bin("*", a, Int(100)), b))))
	case 12:
		return m("compact", g.mb(lam("a,b", Bin("=", a, b))))
	case 13:
		return m("cross", g.mb(g.operandList(d-1)), g.mb(lam("a,b", Bin("+", Bin("*", a, Int(10)), b))))
	case 14:
		// merge of two ordered lists
		g.use("order")
		other := MCall(g.intList(d-1), "order", lam("e", e))
		switch g.n(4, "mergeOperand") {
		case 0:
			// lazy stages that keep the order
			g.LazyOperand = true
			other = MCall(other, "number", lam("a,b", b))
		case 1:
			g.LazyOperand = true
			other = MCall(MCall(other, "map", lam("e", Bin("*", e, Int(2)))), "accept", lam("e", Bin(">", e, Int(-5))))
		}
		return m("merge", g.mb(other), g.mb(lam("a,b", Bin("<", a, b))))
	case 15:
		return m("iir", g.mb(lam("e", e)), g.mb(lam("a,b", Bin("+", a, b))))
	case 16:
		return m("iirCombine", g.mb(lam("e", e)), g.mb(lam("a,b,c", Bin("+", Bin("-", b, a), c))))
	case 17:
		return m("iirApply", g.mb(Map([]string{"initial", "filter"}, []*Expr{lam("e", e), lam("a,b,c", Bin("+", Bin("-", b, a), c))})))
	case 18:
		return m("set", g.mb(g.int(-1, 6, "setIdx")), g.int(-3, 9, "setVal"))
	case 19:
		return m("eval")
	case 20:
		g.use("+")
		return Bin("+", recv, g.operandList(d-1))
	case 21:
		return m("order", g.mb(lam("e", e)))
	case 22:
		return m("orderRev", g.mb(lam("e", e)))
	case 23:
		return m("orderLess", g.mb(lam("a,b", Bin("<", a, b))))
	case 24:
		return m("uniqueInt", g.mb(lam("e", Bin("%", e, Int(3)))))
	case 25:
		// fsm: the state counts the items greater than the threshold
		g.use("goto")
		return MCall(m("fsm", g.mb(lam("a,b", If(Bin(">", b, Int(2)), SCall("goto", Bin("+", Member(a, "state"), Int(1))), a)))), "map", lam("e", Member(e, "state")))
	case 26:
		return MCall(m("movingWindowRemove", g.mb(lam("l", Bin(">", MCall(l, "size"), Int(2))))), "map", g.windowUse())
	case 27:
		// movingWindow: keys with a spacing of 0.75 (never exactly 1 apart)
		return MCall(m("movingWindow", g.mb(lam("e", Bin("*", e, Float(0.75))))), "map", g.windowUse())
	case 28:
		return MCall(m("groupByInt", g.mb(lam("e", Bin("%", e, Int(3))))), "map", lam("e", Bin("+", Bin("*", Member(e, "key"), Int(1000)), MCall(Member(e, "values"), "size"))))
	default:
		return m("replaceList", g.mb(lam("l", MCall(MCall(l, "reverse"), "top", Int(3)))))
	}
}

// windowUse: what is done with each window (a sub-list the built-in hands out): it is
// a list of its own, appending to it or changing it concerns no other window.
func (g *G) windowUse() *Expr {
	switch g.n(5, "windowUse") {
	case 0:
		return lam("l", MCall(l, "size"))
	case 1:
		return lam("l", MCall(l, "sum"))
	case 2:
		g.use("append")
		return lam("l", MCall(MCall(l, "append", Int(1000)), "sum"))
	case 3:
		g.use("append")
		return lam("l", MCall(MCall(MCall(l, "append", Int(100)), "append", Int(200)), "reduce", lam("a,b", Bin("+", Bin("*", a, Int(3)), b))))
	}
	g.use("set")
	return lam("l", MCall(MCall(l, "set", Int(0), Int(-7)), "sum"))
}

// listTerminal applies a consuming method to an int list.
func (g *G) listTerminal(recv *Expr, d int) *Expr {
	m := func(name string, args ...*Expr) *Expr {
		g.use(name)
		if g.misuse && g.n(10, "arityT") == 0 {
			g.Misused = true
			if len(args) > 0 {
				args = args[:len(args)-1]
			} else {
				args = append(args, Int(1)) // one argument too many
			}
		}
		return MCall(recv, name, args...)
	}
	switch g.n(26, "terminal") {
	case 0:
		return m("reduce", g.mb(lam("a,b", Bin("+", a, b))))
	case 1:
		return m("reduce", g.mb(lam("a,b", Bin("-", Bin("*", a, Int(2)), b))))
	case 2:
		return m("sum")
	case 3:
		return m("mapReduce", g.int(-2, 5, "init"), g.mb(lam("a,b", Bin("+", Bin("*", a, Int(3)), b))))
	case 4:
		return m("mean")
	case 5:
		return m("min")
	case 6:
		return m("max")
	case 7:
		return m("minMax", g.mb(g.intFn()))
	case 8:
		return m("size")
	case 9:
		return m("first")
	case 10:
		return m("last")
	case 11:
		return m("single")
	case 12:
		return m("indexWhere", g.mb(g.boolFn()))
	case 13:
		return m("present", g.mb(g.boolFn()))
	case 14:
		return m("string")
	case 15:
		return m("visit", List(), g.mb(lam("a,b", MCall(a, "append", Bin("*", b, Int(2))))))
	case 16:
		g.use("~")
		return Bin("~", g.int(-2, 9, "needle"), recv)
	case 17:
		g.use("~")
		return Bin("~", List(g.int(0, 5, "n1"), g.int(0, 5, "n2")), recv)
	case 18:
		g.use("index")
		return Index(recv, g.mb(g.int(-1, 7, "idx")))
	case 19:
		return m("multiUse", g.mb(Map([]string{"n", "s", "f"}, []*Expr{lam("l", MCall(l, "size")), lam("l", MCall(MCall(l, "map", lam("e", Bin("*", e, Int(2)))), "sum")),
			lam("l", MCall(MCall(l, "accept", lam("e", Bin(">", e, Int(1)))), "top", Int(2)))})))
	case 20:
		// groupByString / groupByEqual: partitions (any group order)
		name := []string{"groupByString", "groupByEqual", "groupByInt"}[g.n(3, "groupBy")]
		return m(name, g.mb(lam("e", Bin("%", e, Int(2)))))
	case 21:
		return m("uniqueString", g.mb(lam("e", Bin("%", e, Int(3)))))
	case 22:
		// linear regression through the points (i, item): slope and offset
		g.use("number")
		pts := MCall(recv, "number", lam("a,b", Map([]string{"x", "y"}, []*Expr{a, b})))
		g.use("linearReg")
		return Let("r", MCall(pts, "linearReg", lam("e", Member(e, "x")), lam("e", Member(e, "y"))), List(Member(Var("r"), "a"), Member(Var("r"), "b"), Call(Member(Var("r"), "lineFunc"), Int(2))))
	case 23:
		g.use("number")
		g.use("createInterpolation")
		pts := MCall(recv, "number", lam("a,b", Map([]string{"x", "y"}, []*Expr{a, b})))
		return Let("f", MCall(pts, "createInterpolation", lam("e", Member(e, "x")), lam("e", Member(e, "y"))),
			List(Call(Var("f"), Float(0.5)), Call(Var("f"), Int(-3)), Call(Var("f"), Float(2.25)), Call(Var("f"), Int(100))))
	case 24:
		g.use("static_min_max")
		return SCall([]string{"min", "max"}[g.n(2, "mm")], MCall(recv, "size"), g.int(-2, 5, "mm1"), Float(2.5))
	default:
		return m("mapReduce", Str(""), g.mb(lam("a,b", Bin("+", a, b))))
	}
}

// strCall draws a string method call.
func (g *G) strCall() *Expr {
	recv := g.str("recv")
	m := func(name string, args ...*Expr) *Expr {
		g.use("str." + name)
		if g.misuse && g.n(8, "arityS") == 0 {
			g.Misused = true
			if len(args) > 0 {
				args = args[:len(args)-1]
			} else {
				args = append(args, Int(1))
			}
		}
		return MCall(recv, name, args...)
	}
	switch g.n(16, "strMethod") {
	case 0:
		return m("len")
	case 1:
		return m("trim")
	case 2:
		return m("toLower")
	case 3:
		return m("toUpper")
	case 4:
		return m("contains", g.mb(g.str("sub")))
	case 5:
		return m("indexOf", g.mb(g.str("sub")))
	case 6:
		return m("split", g.mb(Str([]string{",", " ", "a", "\n", "ä"}[g.n(5, "sep")])))
	case 7:
		return m("cut", g.mb(g.int(-1, 8, "pos")), g.mb(g.int(-2, 8, "len")))
	case 8:
		return m("behind", g.mb(Str([]string{"key:", "line1", "zz", "a"}[g.n(4, "prefix")])))
	case 9:
		return MCall(Str("head\n a\nb \n\nc"), "behindList", g.mb(Str([]string{"head", " head ", "b", "nope"}[g.n(4, "header")])))
	case 10:
		return m("replace", g.mb(Str([]string{"a", "ab", "l", " ", "ä"}[g.n(5, "old")])), g.mb(g.str("new")))
	case 11:
		return m("toFloat")
	case 12:
		return m("toInt")
	case 13:
		return m("string")
	case 14:
		g.use("str.+")
		return Bin("+", recv, []*Expr{Int(3), Float(1.5), Bool(true), List(Int(1), Str("x")), g.str("cat")}[g.n(5, "catArg")])
	default:
		g.use("str.~")
		return Bin("~", g.str("needle"), recv)
	}
}

// mapCall draws a map method call on a small int map.
func (g *G) mapCall() *Expr {
	keys := []string{"a", "b", "c", "d"}[:g.n(5, "mkeys")]
	vals := make([]*Expr, len(keys))
	for i := range vals {
		vals[i] = g.int(-3, 9, "mval")
	}
	recv := Map(keys, vals)
	if g.n(3, "mput") == 0 {
		g.use("map.put")
		recv = MCall(recv, "put", Str("z"), g.int(0, 5, "zval"))
	}
	m := func(name string, args ...*Expr) *Expr {
		g.use("map." + name)
		if g.misuse && g.n(8, "arityM") == 0 && len(args) > 0 {
			g.Misused = true
			args = args[:len(args)-1]
		}
		return MCall(recv, name, args...)
	}
	key := Str([]string{"a", "b", "c", "d", "z", "q"}[g.n(6, "key")])
	switch g.n(16, "mapMethod") {
	case 14, 15:
		// a chain of 8..13 replace calls (it is flattened at depth 10), then a replacement map
		// of 1..4 keys inside and outside the key set - sometimes as large as the map itself
		g.use("replace")
		g.use("mapReduce")
		chain := MCall(SCall("numbers", g.int(8, 13, "chain")), "mapReduce", recv, lam("a,b", MCall(a, "replace", lam("e", Map([]string{"a"}, []*Expr{Bin("+", b, Int(100))})))))
		keys := []string{"a", "b", "zz", "yy", "c"}
		n := 1 + g.n(4, "repKeys")
		start := g.n(len(keys), "repStart")
		var ks []string
		var vs []*Expr
		for i := 0; i < n; i++ {
			ks = append(ks, keys[(start+i)%len(keys)])
			vs = append(vs, Int(i))
		}
		return MCall(MCall(chain, "replace", lam("e", Map(ks, vs))), "string")
	case 0:
		return m("accept", g.mb(lam("a,b", Bin(">", b, Int(1)))))
	case 1:
		return m("map", g.mb(lam("a,b", Bin("+", a, Bin("*", b, Int(2))))))
	case 2:
		return m("replaceMap", g.mb(lam("e", MCall(e, "size"))))
	case 3:
		return m("list")
	case 4:
		return m("size")
	case 5:
		return m("string")
	case 6:
		return m("isAvail", g.mb(key), key)
	case 7:
		return m("get", g.mb(key))
	case 8:
		return m("put", g.mb(key), Int(7))
	case 9:
		return m("replace", g.mb(lam("e", Map([]string{"a", "q"}, []*Expr{Bin("+", MCall(e, "size"), Int(100)), Int(5)}))))
	case 10:
		return m("combine", g.mb(Map([]string{"a", "b", "c", "d", "z"}, []*Expr{Int(10), Int(20), Int(30), Int(40), Int(50)})), g.mb(lam("a,b", Bin("+", a, b))))
	case 11:
		g.use("map.+")
		return Bin("+", recv, Map([]string{"q", "r"}, []*Expr{Int(1), Int(2)}))
	case 12:
		g.use("map.~")
		return Bin("~", key, recv)
	default:
		return MCall(m("eval"), "size")
	}
}

// numCall draws a numeric static function call.
func (g *G) numCall() *Expr {
	arg := []*Expr{g.int(-9, 9, "na"), Float(float64(rapid.IntRange(-40, 40).Draw(g.T, "nf")) / 8), Float(2.5), Float(-0.5), Int(0)}[g.n(5, "numArg")]
	if g.misuse && g.n(4, "numBad") == 0 {
		arg = g.bad()
	}
	name := []string{"abs", "sign", "sqr", "round", "int", "float", "sqrt", "ln", "log10", "trunc", "floor", "ceil", "exp", "sin", "cos", "tan", "asin", "acos", "atan",
		"isInt", "isFloat", "string"}[g.n(22, "numFn")]
	g.use("static." + name)
	switch g.n(8, "numShape") {
	case 0:
		g.use("static.binAnd")
		return SCall([]string{"binAnd", "binOr"}[g.n(2, "bin")], arg, g.int(0, 15, "bb"))
	case 1:
		g.use("closure.invoke")
		return MCall(lam("a,b", Bin("-", a, b)), "invoke", g.mb(List(arg, Int(2))))
	case 2:
		g.use("closure.args")
		return MCall(lam("a,b", a), "args")
	case 3:
		g.use("static.numbers")
		return MCall(SCall("numbers", arg), "size")
	}
	return SCall(name, arg)
}

// Expr draws one library expression (a composition of up to 4 built-ins).
func (g *G) Expr() *Expr {
	switch g.n(10, "family") {
	case 0, 1:
		return g.strCall()
	case 2:
		return g.mapCall()
	case 3:
		return g.numCall()
	case 4:
		// string lists
		sl := g.strList()
		switch g.n(5, "slOp") {
		case 0:
			g.use("groupByString")
			return MCall(sl, "groupByString", lam("e", e))
		case 1:
			g.use("uniqueString")
			return MCall(sl, "uniqueString", lam("e", MCall(e, "toUpper")))
		case 2:
			g.use("order")
			return MCall(MCall(sl, "order", lam("e", e)), "string")
		case 3:
			g.use("mapReduce")
			return MCall(sl, "mapReduce", Str(">"), lam("a,b", Bin("+", Bin("+", a, b), Str("|"))))
		}
		g.use("accept")
		return MCall(sl, "accept", lam("e", Bin("<", MCall(e, "len"), Int(3))))
	case 5:
		// record lists
		rl := g.recList()
		switch g.n(5, "rlOp") {
		case 0:
			g.use("groupByString")
			return MCall(rl, "groupByString", lam("e", Member(e, "s")))
		case 1:
			g.use("minMax")
			return MCall(rl, "minMax", lam("e", Member(e, "v")))
		case 2:
			g.use("groupByEqual")
			return MCall(rl, "groupByEqual", lam("e", List(Member(e, "k"), Member(e, "s"))))
		case 3:
			g.use("order")
			return MCall(MCall(rl, "order", lam("e", Bin("+", Bin("*", Member(e, "k"), Int(1000)), Member(e, "v")))), "map", lam("e", Member(e, "k")))
		}
		g.use("mean")
		return MCall(MCall(rl, "map", lam("e", Member(e, "v"))), "mean")
	}
	cur := g.intList(2)
	stages := g.n(4, "stages")
	for i := 0; i < stages; i++ {
		cur = g.listStage(cur, 2)
	}
	if stages > 0 && g.n(6, "deferred") == 0 {
		// the pipeline is bound to a local, more locals are declared behind it, and only
		// then it is read: let lz=...; let p0=1; let p1=p0+1; ...; [terminal(lz), p<last>]
		g.Deferred = true
		k := 2 + g.n(4, "laterLets")
		var res *Expr = Var("lz")
		if g.n(5, "noTerminal") != 0 {
			res = g.listTerminal(res, 2)
		}
		out := List(res, Var(fmt.Sprintf("p%d", k-1)))
		for i := k - 1; i >= 0; i-- {
			val := Int(1)
			if i > 0 {
				val = Bin("+", Var(fmt.Sprintf("p%d", i-1)), Int(1))
			}
			out = Let(fmt.Sprintf("p%d", i), val, out)
		}
		return Let("lz", cur, out)
	}
	if g.n(5, "noTerminal") == 0 {
		return cur
	}
	return g.listTerminal(cur, 2)
}
