"""Per-property configuration of the driver (./check). One entry per claimed property."""

PROPS = {}

PROPS["C19"] = dict(
    pkg="c19",
    rule=("bool: every expression tree with <=3 (quick) / <=4 (thorough) operator nodes over {a,b,c,true,false} and the operators "
          "^ = | & ! is enumerated by unranking, rendered with minimal parentheses and evaluated under all 8 assignments on the "
          "repository's example.boolParser (optimizer on and off) and on re-built configurations with all 16 commutative-flag "
          "subsets (optimizer on and off); let/if forms enumerated with <=1 operator node per slot; larger trees (depth<=6, with "
          "let/if anywhere the grammar allows) sampled by rapid. float: every tree with <=2 (quick) / <=3 (thorough) operator nodes over {x,y,0,1,2,3,0.5}, the operators = < > + - * / ^, unary minus, sqr, sqrt, rendered with minimal parentheses and a second time with implicit multiplication (comfort mode), on example.minimal and re-built configurations (optimizer on/off, commutative flags of + and * permuted), for every assignment of a 7x7 dyadic grid whose exact (big.Rat) evaluation stays inside 12.12 fixed point at every intermediate - others are outside the quantifier and counted as skipped; trees of depth 3..5 sampled. A case is one expression (all assignments, "
          "all generators); it is non-trivial if it has >=1 operator node and >=1 variable; distinct = rendered text."),
    assumptions=["the oracle is direct evaluation of the tree with the operators' own Go definitions",
                 "the renderer's minimal parenthesisation follows the grammar stated in C03/C19 (priority by declaration order, "
                 "left-associative, pure prefix operator takes a postfix expression)"],
    jobs=[
        dict(name="bool_exhaustive", run="^TestExhaustiveBool$", kind="plain", shards=16, exhaustive=True,
             guard={"quick": 600, "thorough": 3000}),
        dict(name="bool_letif_exhaustive", run="^TestExhaustiveBoolLetIf$", kind="plain", shards=16, exhaustive=True,
             guard={"quick": 600, "thorough": 3000}),
        dict(name="bool_sampled", run="^TestPropBoolSampled$", kind="rapid", shards=16,
             checks={"quick": 40000, "thorough": 2000000}, guard={"quick": 600, "thorough": 3000}),
        dict(name="float_exhaustive", run="^TestExhaustiveFloat$", kind="plain", shards=16, exhaustive=True,
             guard={"quick": 600, "thorough": 3000}),
        dict(name="float_sampled", run="^TestPropFloatSampled$", kind="rapid", shards=16,
             checks={"quick": 40000, "thorough": 2000000}, guard={"quick": 600, "thorough": 3000}),
    ],
    exhaustive_claim={"quick": ["bool_exhaustive", "bool_letif_exhaustive", "float_exhaustive"],
                      "thorough": ["bool_exhaustive", "bool_letif_exhaustive", "float_exhaustive"]},
    exhaustive_scope={"quick": "bool expressions with <=3 operator nodes x 8 assignments; let forms with <=1 node per slot; float expressions with <=2 operator nodes (47 915) x the assignments of a 7x7 grid that keep the arithmetic exact",
                      "thorough": "bool expressions with <=4 operator nodes (12 886 025) x 8 assignments; let and if forms with <=1 node per slot; float expressions with <=3 operator nodes (6 874 392) x the exact assignments of a 7x7 grid"},
)


PROG_ASSUMPTIONS = [
    "the reference interpreter (harness/ref) is an independent second implementation written from the method descriptions, the property texts and the expectations of the repository's tests; edges they leave open are excluded (counted as skipped_*), not guessed",
    "generated recursion always carries a decreasing counter; float products that are rounded are skipped (regrouping may change the last bit)",
]

PROPS["C01"] = dict(
    pkg="c01",
    rule=("programs are drawn from a typed grammar generator (harness/lang): literals, argument reads, unary/binary operators, let, func "
          "(recursion with a decreasing counter), closures with 1..3 parameters, currying, closures returned from functions and stored in "
          "maps, if, switch, try/catch (value and closure form, thrown tokens), list/map literals, index, member access, method calls, "
          "static functions; binding constructs are placed in every let-position (call/method/static arguments, list items, map values, "
          "branches); local names are reused across sibling scopes, shadow static function names, and with 15% a declared name (let, func, parameter) is one that is visible from an enclosing function - an argument, an outer let, func or parameter (legal shadowing across function bodies, incl. 'let y = y*10' inside a closure and nested closures that capture the redeclared name); the list form of membership (list ~ list) is generated; closures stored in maps under field names that are also map methods with the same signature (get, isAvail: the closure field has precedence); ~20% of the programs "
          "may contain failing or ill-typed sub-terms. Each program is rendered to text, evaluated on value.New() with the default "
          "optimizer and with SetOptimizer(nil), and compared deeply with the reference interpreter's outcome for 1..3 generated "
          "arguments. A case is non-trivial if the reference run read at least one let/func/parameter binding and the program mentions "
          "an argument; distinct = program text + arguments."),
    assumptions=PROG_ASSUMPTIONS,
    jobs=[
        dict(name="c01", run="^TestPropC01$", kind="rapid", shards=16,
             checks={"quick": 160000, "thorough": 4000000}, guard={"quick": 900, "thorough": 7200}),
    ],
    min_class_fraction={"binding_in_later_call_arg": 0.01, "binding_in_method_arg": 0.01, "binding_in_first_static_arg": 0.005,
                        "closure_depth_2": 0.01, "recursion": 0.01, "currying": 0.01, "closure_in_map_call": 0.005},
)


PROPS["C02"] = dict(
    pkg="c02",
    rule=("programs from the C01 generator with a constant-rich profile (literal-heavy sub-terms, constant closures applied to constants, "
          "constant lists/maps with index/member access, if/switch on constant conditions, chains of the regroupable operator '*' mixing "
          "constants and variables in every position, '&'/'|' on booleans and ints, string '+' chains, throw in taken and untaken "
          "branches, calls of the host functions pk (declared pure) and ik (declared impure) with call counters; closures that capture nothing, applied to argument-independent values, with host calls inside; templates of nested closures and recursive funcs that capture nothing from the program, where the inner closure captures a parameter of the outer one and calls ik - only the impure call keeps the optimizer from folding the whole expression). Three-way oracle: "
          "optimizer on vs optimizer off vs reference interpreter (values; exact, 1e-9 relative only when a float product was rounded); "
          "ik is never executed during Generate and runs equally often on both sides and - when it does not sit inside a closure body - "
          "as often as the reference demands. The float and bool instantiations are covered by the sampled jobs of package c19 "
          "(large random expressions, optimizer on/off). A case is non-trivial if the optimized AST differs from the unoptimized AST "
          "and the program reads an argument or contains ik/throw; distinct = program text + arguments."),
    assumptions=PROG_ASSUMPTIONS,
    jobs=[
        dict(name="c02", run="^TestPropC02$", kind="rapid", shards=16,
             checks={"quick": 100000, "thorough": 3000000}, guard={"quick": 900, "thorough": 7200}),
        dict(name="bool_sampled", pkg="c19", run="^TestPropBoolSampled$", kind="rapid", shards=4,
             checks={"quick": 20000, "thorough": 500000}, guard={"quick": 600, "thorough": 3000}),
        dict(name="float_sampled", pkg="c19", run="^TestPropFloatSampled$", kind="rapid", shards=4,
             checks={"quick": 20000, "thorough": 500000}, guard={"quick": 600, "thorough": 3000}),
    ],
    min_class_fraction={"ast_changed_by_optimizer": 0.2, "impure_calls_executed": 0.01},
)


PROPS["C16"] = dict(
    pkg="c16",
    rule=("programs from the C01 generator whose top-level arguments are taken as attributes of ONE argument map: exp is generated with "
          "GenerateWithMap(exp, m); exp' is derived by rewriting exactly the free occurrences of the attribute names into m.x with the "
          "generator's knowledge of the binding structure (lets, func names, parameters shadow; constants and static functions are never "
          "attributes) and generated with Generate(exp', m); both are evaluated on the same map (ListMap, RealMap, put-chain and merged "
          "representations, optionally with decoy keys named like constants and static functions) and compared with each other and with "
          "the reference interpreter, optimizer on and off. In a third of the cases the attribute names collide with names used for "
          "locals elsewhere (a, k, v). Non-trivial: at least one free attribute occurrence lies inside a closure or func body; distinct = "
          "program text + map."),
    assumptions=PROG_ASSUMPTIONS,
    jobs=[dict(name="c16", run="^TestPropC16$", kind="rapid", shards=16, checks={"quick": 100000, "thorough": 3000000},
               guard={"quick": 900, "thorough": 7200})],
    min_class_fraction={"attribute_read_inside_closure_or_func": 0.2, "attribute_names_collide_with_locals": 0.1,
                        "attribute_holds_a_closure": 0.01, "map_behind_a_wrapper_value": 0.15},
)

PROPS["C10"] = dict(
    pkg="c10",
    rule=("histories on ONE generator: 1..3 generated programs (35% with failing paths), 2..4 argument tuples each, and 4..50 steps drawn "
          "from: evaluate (f,t); evaluate and hold the possibly lazy result unconsumed; consume a held result later; evaluate and consume "
          "only k elements of a lazy list; Generate a program again in between; in half of the histories the host builds the argument values of a tuple once and passes the very same objects to every evaluation with that tuple. The programs include lazy lists over constants whose closure fails at one item (shared by all evaluations: forcing them fails every time, prefix consumers succeed every time). Every outcome - including results consumed many steps "
          "after their evaluation - must equal the reference interpreter's outcome for its own arguments (hence the first outcome for the "
          "same pair). Non-trivial: a function saw >=2 distinct tuples and a tuple was re-evaluated after a failing, held or partially "
          "consumed evaluation or an intervening Generate; distinct = program texts + step sequence."),
    assumptions=PROG_ASSUMPTIONS,
    jobs=[dict(name="c10", run="^TestPropC10$", kind="rapid", shards=16, checks={"quick": 100000, "thorough": 1500000},
               guard={"quick": 900, "thorough": 7200}),
          dict(name="library_histories", run="^TestPropLibraryHistories$", kind="rapid", shards=8, checks={"quick": 16000, "thorough": 400000},
               guard={"quick": 900, "thorough": 3600})],
)


PROPS["C03"] = dict(
    pkg="c03",
    rule=("part A: random operator tables (1..16 binary operators, spellings of 1..3 characters from an operator alphabet, deliberately "
          "prefix-related; 0..3 prefix operators, each either also binary - at any priority including the highest - or pure; optional "
          "text aliases) x random expression trees (binary, prefix, call, index, member, method call, identifiers, numbers; depth <=5 quick, "
          "<=7 thorough) x three renderings: fully parenthesised, minimal (derived with the independent reference parser: every pair of "
          "parentheses whose removal leaves the reference tree unchanged is dropped) and random-redundant x tight or spaced joining (a "
          "blank only where a lexer could merge adjacent tokens). Oracle: structural dump of the implementation AST == intended tree. "
          "part B: valid value-language programs (C01 generator) as token lists and 1..6 single mutations each (delete, insert, duplicate, "
          "swap, truncate); oracle: the reference parser (harness/pratt, precedence climbing + keyword grammar): it rejects => the "
          "implementation must return an error; it accepts => identical tree (never truncated or regrouped). Non-trivial (A): the minimal "
          "rendering has fewer parentheses than the full one and the tree has >=2 different binary operators or a prefix operator next to "
          "a binary one; (B): every mutant; distinct = table + text."),
    assumptions=["the reference parser (harness/pratt) implements the grammar as stated in the property: priority = declaration index, left-associative, postfix tightest, prefix-also-binary operator takes the maximal operand of higher-priority operators, pure prefix operator takes a postfix expression",
                 "the parser's propagation of literal-valued lets (which happens without an optimizer too) is mirrored on the reference tree"],
    jobs=[
        dict(name="tables", run="^TestPropTables$", kind="rapid", shards=16, checks={"quick": 160000, "thorough": 4000000},
             guard={"quick": 900, "thorough": 7200}),
        dict(name="mutations", run="^TestPropMutations$", kind="rapid", shards=16, checks={"quick": 60000, "thorough": 1500000},
             guard={"quick": 900, "thorough": 7200}),
    ],
    min_class_fraction={"prefix_op_is_highest_binary": 0.02, "table_with_text_aliases": 0.05, "mutant_rejected_by_grammar": 0.2, "mutant_still_well_formed": 0.01},
)


PROPS["C15"] = dict(
    pkg="c15",
    rule=("layout: token lists of valid value-language programs (C01 generator) x one generated separator per gap: nothing (only where no "
          "lexer could merge the neighbours), blank, tab, CR, LF, CRLF, // and /* */ comments (tight against both neighbours or set off by "
          "blanks; containing quotes, stars, slashes, keywords, alias characters and - in block comments - line ends of every convention (LF, CR LF, CR: only the line feed counts as a line break); two comments in a "
          "row; comment at end of input) x comments enabled/disabled. Oracle (metamorphic): structural AST dump of the variant == dump of "
          "the single-blank layout; every Ident/Const node reports the line on which its token starts according to the layout engine (the "
          "token a node refers to is learnt from a one-token-per-line layout); a stray ')' appended on a known line is rejected with that "
          "line in the message. strings: random valid-UTF-8 strings without NUL, weighted to backslash, quotes, line breaks, tabs, control "
          "characters, the alias characters, superscripts, // and /*: the literal with the escapes \\\\ \\\" \\n \\r \\t evaluates to exactly "
          "the string; {'k':1} has exactly the key k. aliases: programs with typographic spellings (incl. superscript digits for ^n) parse "
          "to the AST of the ASCII spelling. juxtaposition: comfort-mode parser and example.minimal: every omitted '*' between "
          "number/identifier/')' and number/identifier/'(' (with and without a blank where the lexer allows) equals the explicit form. "
          "Non-trivial: a gap with a comment, without separator or with a line break; a string with an escape/alias/control character; "
          ">=1 alias spelling; >=1 omitted '*'. distinct = source text."),
    assumptions=["the canonical single-blank layout is the meaning of a token list (its agreement with the reference parser is checked by C03)",
                 "a line break is '\\n' (CR alone is white space)"],
    jobs=[
        dict(name="layout", run="^TestPropLayout$", kind="rapid", shards=16, checks={"quick": 100000, "thorough": 3000000},
             guard={"quick": 900, "thorough": 7200}),
        dict(name="strings", run="^TestPropStrings$", kind="rapid", shards=8, checks={"quick": 80000, "thorough": 3000000},
             guard={"quick": 900, "thorough": 7200}),
        dict(name="aliases", run="^TestPropAliases$", kind="rapid", shards=8, checks={"quick": 40000, "thorough": 1000000},
             guard={"quick": 900, "thorough": 7200}),
        dict(name="juxtaposition", run="^TestPropJuxtaposition$", kind="rapid", shards=8, checks={"quick": 80000, "thorough": 2000000},
             guard={"quick": 900, "thorough": 7200}),
    ],
    min_class_fraction={"gap_with_comment": 0.1, "comment_tight_on_both_sides": 0.03, "two_comments_in_a_gap": 0.02},
)


PROPS["C04"] = dict(
    pkg="c04",
    replay_isolated=True,
    rule=("byte strings up to 64 KiB from (a) raw random bytes, (b) token soups over the language alphabet incl. unterminated quotes/comments, "
          "NUL, invalid/overlong UTF-8, alias characters and superscripts, (c) byte- and chunk-level mutations (delete, insert token, "
          "duplicate, swap, truncate, overwrite, hostile byte) of valid programs (typed generator and every expression harvested from the "
          "repository's tests), (d) hostile templates: nesting of every bracket, keyword, prefix and closure form and every unterminated "
          "construct, as random sizes and deterministically at 64 B, 1 KiB, 8 KiB and 64 KiB; x 10 parser configurations (value generator "
          "with/without comments and optimizer, GenerateWithMap, float generator with comfort on/off, bool generator, generic parsers with "
          "prefix-related operator tables, text aliases, without identifier table). Oracle: totality - the call returns an error value or a "
          "result; a panic (also on the tokenizer goroutine: the process dies and the recorded pending case is confirmed in isolation) is a "
          "violation; an input slower than 5 s is re-measured at n, n/2, n/4 bytes and only >60 s or a super-quadratic trend is a violation. "
          "thorough adds a native coverage-guided fuzz campaign. Non-trivial: the input has >=3 rough tokens; distinct = configuration + input."),
    assumptions=["a wall-clock limit is never a verdict by itself: slow inputs are re-measured for their scaling trend",
                 "process death without a reproducing pending case is reported as inconclusive, not as a violation"],
    jobs=[
        dict(name="inputs", run="^TestPropInputs$", kind="rapid", shards=16, checks={"quick": 400000, "thorough": 8000000},
             guard={"quick": 900, "thorough": 7200}),
        dict(name="templates", run="^TestTemplates$", kind="plain", shards=16, guard={"quick": 900, "thorough": 3600}),
        dict(name="native_fuzz", kind="fuzz", fuzz="^FuzzParse$", shards=1, tiers=("thorough",), fuzztime={"thorough": "600s"},
             guard={"thorough": 1200}),
        dict(name="known_F33", run="^TestKnownF33$", kind="plain", shards=1, guard={"quick": 300, "thorough": 300}),
    ],
    min_class_fraction={"accepted": 0.03, "invalid_utf8": 0.03, "contains_nul": 0.01, "unterminated_string_or_comment": 0.02},
)


PROPS["C12"] = dict(
    pkg="c12",
    rule=("parse part: 1..6 inputs from the C04 generators (token soups, valid programs followed by unread tokens, mutated valid programs: "
          "weighted toward inputs where parsing stops with tokens unread) are parsed 1..20 times each in one process (value generator "
          "Generate / GenerateWithMap, generic parser). pipeline part: pipelines from the C06 generator (sources up to 1500 elements, up to 4 "
          "stages, cost profiles that force parallel execution, merge, multiUse, the error paths of multiUse (consumers that are fine followed by an entry that is rejected; a consumer that fails at once), 25% with a failing element) weighted toward consumers that "
          "stop early (first, top(n).size(), present, indexWhere) and toward lazy results that the host forces, drops or consumes for 3 "
          "elements only, evaluated 1..3 times. Invariant over the runtime goroutine profile: after a grace period (poll up to 3 s; what is "
          "left must be present with the same goroutine id in a confirmation snapshot, or be blocked and unchanged for 400 ms) no goroutine "
          "that was started during the case has a frame in github.com/hneemann/parser2/... or github.com/hneemann/iterator; a leak is "
          "identified by the entry function of the leaked goroutine: iterator.initParallel/MapParallel workers are attributed to the open "
          "finding F11, iterator.ToChan producers to F12 (both in the dependency), anything else is a violation. error path part: five fixed shapes in which a merge operand or receiver (iterated by a goroutine of its own) "
          "fails at its 3rd/4th item and has 4 000 000 items behind it, three evaluations each: 150 ms after the failed evaluation returned the "
          "counting closure of that operand must have stopped (no background CPU work). The long-source exemplar "
          "of F12 runs once per tier in a short-lived process of its own. Non-trivial: (parse) an input was rejected, parsing stopped "
          "early; (pipeline) a goroutine-backed stage and a consumer that stops early or an error path; distinct = inputs / pipeline text."),
    assumptions=["goroutines are attributed to the library by their stack frames; goroutines left by earlier cases of the same process are excluded by id",
                 "background CPU work is visible as goroutines that are still running"],
    jobs=[
        dict(name="parse", run="^TestPropParse$", kind="rapid", shards=16, checks={"quick": 50000, "thorough": 2000000},
             guard={"quick": 900, "thorough": 7200}),
        dict(name="pipelines", run="^TestPropPipelines$", kind="rapid", shards=16, checks={"quick": 3200, "thorough": 60000},
             guard={"quick": 900, "thorough": 7200}),
        dict(name="known_F12", run="^TestKnownF12$", kind="plain", shards=1, guard={"quick": 300, "thorough": 300}),
        dict(name="error_path", run="^TestErrorPathStopsBackgroundWork$", kind="plain", shards=1, guard={"quick": 900, "thorough": 900}),
    ],
    min_class_fraction={"parse_some_input_rejected": 0.3, "pipeline_goroutine_backed_stage": 0.005},
)


PROPS["C14"] = dict(
    pkg="c14",
    rule=("triples (a, b, c) of values: ints (dense around 0 and around 2^52 / 2^53-1), floats (quarters, +-0, +-Inf, NaN, neighbours of ints one "
          "ulp away), strings (empty, unicode, common prefixes), bools, closures, nested lists (slice-backed, lazy, lazy-then-evaluated) and "
          "maps (list map, hash map, put chain, merged) to depth 2; b and c are derived from their predecessor (same value in another "
          "representation, numeric neighbour, int<->float twin, one element changed, key order rotated) or drawn fresh. Every ordered pair "
          "is evaluated under = != < > <= >= ~ on the run-time path (operands as arguments) and on the constant-folding path (operands as "
          "literals). Every value is also compared with ITSELF as the very same object (a op a with one argument, [1,a] op [1,a], {k:a} op {k:a}, let l=[a,1]; l op l, let m={k:a}; m op m, on both paths): the outcome must be the one of two separately built copies (element-wise: NaN makes = false, a closure makes it fail). Oracle: the laws themselves (symmetry and reflexivity of =, irreflexivity, asymmetry and transitivity of <, != is the "
          "negation of =, > is swapped <, <= is < or =, >= is swapped <=, x~l is 'some element equals x', incomparable operands fail in all "
          "six operators) plus a model comparator; containers holding both an unequal and an incomparable pair are order dependent: false or "
          "error accepted, never true. min/max/list.min/list.max/minMax/order/switch must agree with < and =. Non-trivial: operands of "
          "different kind or representation, containers of depth >=2, or adjacent ints; distinct = rendered triple."),
    assumptions=["the model comparator is derived from the property text (ints and floats by numeric value, lists element-wise, maps key-wise)"],
    jobs=[dict(name="c14", run="^TestPropC14$", kind="rapid", shards=16, checks={"quick": 100000, "thorough": 3000000},
               guard={"quick": 900, "thorough": 7200})],
    min_class_fraction={"container_depth_2plus": 0.03, "incomparable_pair": 0.1},
)


PROPS["C13"] = dict(
    pkg="c13",
    rule=("rapid histories of 2..15 operations over a pool of <=6 map handles and a key pool of 8 (collisions likely): create (map literal "
          "through the language, host-built list map, hash map, NewToMap struct wrapper with generated attribute sets, "
          "NewToMapReflection on a fixed struct, NewFuncMapFactory map, the description maps of binning's bins; optionally with 25 extra "
          "keys to reach the >20-key branch of the flattening), put, + (merge of two handles, and merge with a one-entry map whose key is new - always disjoint, so that chains of merges and several merges with the same left operand are frequent; a third of the steps derives again from the operand of the previous step), replace with another handle as replacement map (keys "
          "inside and outside the original key set), replace chains of 1..13 steps (crossing the flatten threshold at depth 10), eval, map, "
          "accept, combine. After EVERY step EVERY live handle is observed against a Go-map model: m.k, get, isAvail and ~ for every pool "
          "key, one present extra key and one absent key; size(); list(); map/accept/eval copies; string() parsed back as a set; = against a "
          "list-map and a hash-map built from the model in both operand orders, and inequality against the model with one value changed / "
          "one key more; JSON export decoded with encoding/json. put of an existing key and + of overlapping maps must fail. Non-trivial: "
          "nested storage wrappers or replace depth >=10; distinct = operation sequence."),
    assumptions=["combine is only applied when the second map holds every key of the first (the description and the code differ otherwise)",
                 "FuncMapFactory maps are consistent: the function knows exactly its declared keys"],
    jobs=[dict(name="c13", run="^TestPropC13$", kind="rapid", shards=16, checks={"quick": 40000, "thorough": 1000000},
               guard={"quick": 900, "thorough": 7200})],
    min_class_fraction={"replace_depth_10plus": 0.03, "nested_storage_wrappers": 0.3, "more_than_20_keys": 0.05},
)


PROPS["C09"] = dict(
    pkg="c09",
    rule=("histories of 2..12 (thorough: ..30) operations over a pool of <=8 handles holding real implementation values. Initial handles are "
          "produced by the implementation (list literals, lists with spare capacity built by append, lazily produced lists, concatenations, "
          "evaluated lists, map literals, put chains). Steps derive a new handle from existing ones through compiled one-operation functions "
          "that are reused across steps (append of an int or of another handle, set, reverse, order, +, top, skip, map, accept, eval, "
          "combineN(n,l->l) with and without eval, iir building lists by append, number, put, replace, map +, map eval, list(), map map) or "
          "further derivations (orderRev, orderLess, combine, combine3, compact, cross, merge, iir, uniqueInt, groupByInt, replaceList, map combine, map accept) or only observe one or two handles (first, size, sum, last, string, minMax, max, mean, reduce, mapReduce, indexWhere, present, visit, x ~ a, a ~ b as lists, a = b, map get): an operation never changes its operands; a third of the steps derives again from the parent of the previous step (branching). Oracle: a "
          "purely functional model (the reference library); after EVERY step EVERY live handle must still have the model's element "
          "sequence / key-value set, size(), string() and be = to a freshly built literal of the model in both operand orders. In a third "
          "of the cases the whole history is rendered as ONE program of lets (constant-folded parents, compile-time appends) and evaluated "
          "three times. Non-trivial: two derivations from the same parent followed by observation of all handles; distinct = initial "
          "values + step sequence."),
    assumptions=["values whose order is documented as unspecified (evaluated maps and what is listed from them) are compared as sets and not used for order-sensitive derivations"],
    jobs=[dict(name="c09", run="^TestPropC09$", kind="rapid", shards=16, checks={"quick": 60000, "thorough": 1500000},
               guard={"quick": 900, "thorough": 7200})],
    min_class_fraction={"two_derivations_from_one_parent": 0.3, "history_as_one_program": 0.15, "op_combineNeval": 0.02, "op_append": 0.3},
)


PROPS["C20"] = dict(
    pkg="c20",
    rule=("lists of 0..12 records {x,y,w} (ints and floats) whose coordinates are drawn relative to the axis: on a bin edge, 1/1024 below or "
          "above an edge, far outside (+-1e19, +-1e30, +-1e300, MaxFloat64, 9.3e18), zero, negative, anywhere on an 1/8 grid; weights "
          "dyadic or the constant 1; axes: start on a 1/4 grid, size from {1/8,1/4,1/2,1,2,4,3,5,10}, count 0..64 (2d: 0..12), rarely "
          "negative; one and two dimensions; slice-backed and lazy source lists; 0..4 consecutive parts for the additivity law. Oracle: "
          "exact rational arithmetic (math/big): every element lands in exactly the bin given by the stated inequalities, each bin holds "
          "the exact sum of its elements, the bins sum to the sum of all weights, descr/xd/yDescr have min/max equal to the bin's interval "
          "with only one bound for the outer bins, collectBinning over the binnings of the parts equals the binning of the whole list "
          "(values and descriptions) - once over rebuilt copies of the parts and twice over the binning values the implementation itself returned, which must not be changed by being collected -, a negative count is rejected. Non-trivial: an element on an edge or far outside, or >=2 parts; "
          "distinct = the whole input."),
    assumptions=["all generated coordinates, weights and axis parameters are exactly representable; sums are exact"],
    jobs=[dict(name="c20", run="^TestPropC20$", kind="rapid", shards=16, checks={"quick": 100000, "thorough": 3000000},
               guard={"quick": 900, "thorough": 7200})],
    min_class_fraction={"x_on_edge": 0.3, "x_far_outside": 0.1, "two_dimensional": 0.3, "additivity_over_2plus_parts": 0.2},
)


PROPS["C17"] = dict(
    pkg="c17",
    rule=("value trees to container depth 5: eager and lazy lists, maps (list map, hash map, merged), ints, floats, bools, strings and keys "
          "over all valid UTF-8 text, weighted to backslash, quote, U+0000-U+001F, U+007F, U+0085, U+2028/2029, U+D7FF/U+E000, U+FFFD..U+FFFF, "
          "astral planes, markup/entity look-alikes, empty strings. Oracle: encoding/json accepts the document; token-level decoding (so "
          "that duplicate keys are seen) yields arrays in order, objects with exactly the key set, every scalar as the JSON string of its "
          "string form. The thorough tier adds a native byte-level fuzz target on single strings/keys. Non-trivial: a string or key needs "
          "an escape, or depth >=3; distinct = exported document."),
    assumptions=["strings are valid UTF-8 text (the property's domain)"],
    jobs=[
        dict(name="c17", run="^TestPropC17$", kind="rapid", shards=16, checks={"quick": 400000, "thorough": 8000000},
             guard={"quick": 900, "thorough": 7200}),
        dict(name="native_fuzz", kind="fuzz", fuzz="^FuzzStrings$", shards=1, tiers=("thorough",), fuzztime={"thorough": "300s"},
             guard={"thorough": 900}),
    ],
    min_class_fraction={"string_or_key_needs_escape": 0.3, "depth_3plus": 0.05},
)

PROPS["C18"] = dict(
    pkg="c18",
    rule=("value trees as in C17 restricted to legal XML characters (incl. CR, TAB, LF, leading/trailing blanks), keys of any spelling, "
          "comment/CDATA/entity/attribute look-alikes, plus Format (style strings, style maps, colspan), Link and File wrappers, http://, "
          "https://, host: strings, lists of n-1..n+2 items around maxListSize (plain and rows), inline/class styling, custom renderers "
          "that panic, fail or return markup. XML oracle: encoding/xml (strict) accepts the document; the inverse mapping of the element "
          "tree equals the source (lists in order, maps with exactly the key set in attribute or entry form, every leaf text / attribute "
          "value decodes to exactly the source string); no comment, directive or processing instruction appears; no raw TAB/LF/CR inside an "
          "attribute value and no raw CR anywhere (an XML processor would normalise them). HTML oracle (metamorphic): the export of the "
          "tree and the export of a neutral twin (every string replaced by a harmless placeholder that keeps only the http/https/host "
          "prefix) have the same element skeleton (names, nesting, attribute names, only table/tr/td/a/span/b), and every text / attribute "
          "value equals the twin's after substituting the originals back; ToHtml returns failures as err, never panics. Non-trivial: a "
          "markup-significant character, CR/TAB/LF or edge blanks in a string or key, or a list at/over the cut-off; distinct = case."),
    assumptions=["the inverse XML mapping follows the documented shapes <list><entry>, <map k=v/> and <map><entry key=k>",
                 "string forms of scalars are taken as given (ToString)"],
    jobs=[dict(name="c18", run="^TestPropC18$", kind="rapid", shards=16, checks={"quick": 300000, "thorough": 6000000},
               guard={"quick": 900, "thorough": 7200})],
    min_class_fraction={"markup_significant_string_or_key": 0.3, "list_crosses_cutoff": 0.1, "xml_checked": 0.4},
)


PROPS["C07"] = dict(
    pkg="c07",
    replay="^TestReplay",
    replay_isolated=True,
    rule=("library expressions drawn from a table generator covering every list method (map accept reduce sum mapReduce mean min max minMax "
          "replaceList combine combine3 combineN multiUse indexWhere groupByString groupByInt groupByEqual uniqueString uniqueInt compact "
          "cross merge order orderRev orderLess reverse append iir iirCombine iirApply visit fsm top skip number present set size first "
          "single last eval string movingWindow movingWindowRemove createInterpolation linearReg, ~, +, index), every map method, every "
          "string method, the closure methods and the numeric static functions: receivers are empty, singleton, with duplicates, "
          "sorted/reversed, mixed int/float, numbers(n), string lists (unicode), record lists, a generated list argument; the list arguments of cross, merge and + are lazy pipelines of 1..2 further stages in half of the cases (cross replays its second operand); callbacks are "
          "total, partial (throw at one element) or type-changing; numeric arguments include 0, negatives and values beyond the list size; "
          "up to 4 stages are composed before a terminal. In 20% of the cases misuse is injected: wrong argument type, callback of wrong "
          "arity or result type, a missing or surplus argument. Oracle: the eager reference library (harness/ref) - exact value, lists of "
          "unspecified order (groupBy*, unique*) as multisets, linearReg/createInterpolation with 1e-9 relative tolerance, misuse => error "
          "on both sides; undocumented edges (top/skip with n<0, behind in mid-line, all-of on a shorter list, ...) are skipped. A second "
          "property checks order/orderRev/orderLess with tied keys as 'sorted permutation' in both directions (stability not asserted). "
          "Every executed case is non-trivial (it reaches a built-in with a definite reference verdict); distinct = program text + argument."),
    assumptions=["the reference library is written from the method descriptions and the expectations of the repository's tests; where they are silent the edge is excluded, not guessed"],
    jobs=[
        dict(name="c07", run="^TestPropC07$", kind="rapid", shards=16, checks={"quick": 300000, "thorough": 8000000},
             guard={"quick": 900, "thorough": 7200}),
        dict(name="order_ties", run="^TestPropOrder$", kind="rapid", shards=8, checks={"quick": 20000, "thorough": 500000},
             guard={"quick": 900, "thorough": 7200}),
    ],
    min_class_fraction={"misuse": 0.03, "error_outcome": 0.07, "m_merge": 0.0007, "m_multiUse": 0.0007, "m_fsm": 0.0007, "m_iirApply": 0.0007,
                        "m_str.cut": 0.0007, "m_map.replace": 0.0007, "m_linearReg": 0.0007, "m_createInterpolation": 0.0007, "m_combineN": 0.0007,
                        "m_movingWindow": 0.0007, "m_groupByEqual": 0.0007, "m_cross": 0.0007, "m_compact": 0.0007},
)


PROPS["C06"] = dict(
    pkg="c06",
    replay_race=True,
    replay_isolated=True,
    rule=("pipelines numbers(N), N in 0..2000 -> 0..6 lazy stages drawn from map, accept, combine, combine3, combineN, iir, iirCombine, number, "
          "compact, cross, merge (with a generated sub-pipeline as second operand), fsm, top, skip, + (concatenation with a sub-pipeline) -> a "
          "terminal from reduce, mapReduce, sum, size, string, first, last, minMax, visit, order, orderRev+top, groupByInt, multiUse, the lazy "
          "list itself (forced by the host), eval; every closure gets a cost profile: fast, probe, slow (sleeps 250-400 us per element: "
          "forces the timing-based switch to parallel execution), slowTo (slow only for small elements: forces the switch cheaply or delays "
          "it to a later stage), jitter (value dependent sleeps: workers finish out of order); 15% of the pipelines contain one closure that "
          "throws at some element (only in front of completely consuming terminals). Every pipeline is evaluated under two (thorough: all "
          "four) GOMAXPROCS values from {1,2,4,16}, thorough three times each, in a binary built with the race detector "
          "(GORACE=halt_on_error=1: a reported race kills the process, the recorded pending case is confirmed in isolation). Oracle: the "
          "reference interpreter's strictly sequential eager result (element sequence, or 'fails'). Non-trivial: a goroutine probe saw a "
          "stage closure on a goroutine other than the caller's and the pipeline has at least two closure-calling stages/terminal; distinct "
          "= pipeline text + sleep."),
    assumptions=["schedules are sampled (GOMAXPROCS x repetitions x jitter), not enumerated; the race detector reports only races that happen in a sampled run",
                 "closures do not capture lists that are still lazy (that hazard is finding F18, tracked under C11)"],
    jobs=[dict(name="c06", run="^TestPropC06$", kind="rapid", race=True, shards=16, checks={"quick": 3200, "thorough": 60000},
               env={"GORACE": "halt_on_error=1"}, guard={"quick": 1200, "thorough": 10800}, shrinktime="60s")],
    min_class_fraction={"stage_closure_ran_on_another_goroutine": 0.12, "failing_element": 0.03, "stage_merge": 0.05, "terminal_multiUse": 0.02},
)


PROPS["C08"] = dict(
    pkg="c08",
    rule=("pipelines numbers(N) with N from {1e11, 5e9, 1e9, 100, 20, 3, 1, 0} -> map(e->cnt(e)) (cnt is a counting host function; in 1/8 of the "
          "cases it is slow for the first 14 elements, which forces the switch to parallel execution) -> 0..4 lazy stages from accept, skip, "
          "top, map, combine, number, iir, + -> a short-circuit consumer from first, top(n).size(), top(n).mapReduce, present, indexWhere, "
          "top(1).single(), single() on lists with more than one item (an error that is decided by the second item), membership (x ~ list and the list form [a,b] ~ list), multiUse({first, top(n).size()}), with the decisive element at every position k in 0..64 and "
          "around 12 and the CPU count; in a third of the cases the counting closure throws at one source index: in half of them at D..D+5, directly behind the decisive prefix (an evaluation may read that element ahead but must not report its error), otherwise at the first index behind the read-ahead window; in 1/6 of the cases the pipeline is only built (bound by let, or returned lazily) and not consumed. Oracle: a pull-based "
          "Go model of every stage with the same value semantics computes D, the exact number of source elements a demand-driven "
          "evaluation needs, and D_hi, the demand when every point that may read one element ahead does so (each top, the multiUse "
          "distributor); while no closure ran on a goroutine other than the caller's (every map/accept closure carries a goroutine probe) "
          "calls <= D_hi+1 is required, the value equals the model's, the error of a failing element behind the decisive one is not reported, and an "
          "unconsumed pipeline makes 0 calls. Cases whose decisive demand exceeds 200 000 are skipped (not short-circuit). Non-trivial: "
          "N >= 1e9 or a failing element is present, and D < N; distinct = the whole case."),
    assumptions=["the counting function aborts the evaluation 100 000 calls behind the bound, so that a non-lazy implementation fails fast instead of hanging",
                 "once any map/accept stage ran on worker goroutines the read-ahead is timing dependent: see finding F27"],
    jobs=[dict(name="c08", run="^TestPropC08$", kind="rapid", shards=16, checks={"quick": 40000, "thorough": 2000000},
               guard={"quick": 1200, "thorough": 10800})],
    min_class_fraction={"pipeline_not_consumed": 0.08, "failing_element_behind_window": 0.1, "failing_element_directly_behind_decisive_prefix": 0.1, "counter_ran_on_worker_goroutines": 0.02, "demand_exact": 0.3},
)


PROPS["C05"] = dict(
    pkg="c05",
    replay_isolated=True,
    level="fault_enumeration",
    rule=("fault matrix: a fault source is placed into a context and optionally wrapped in try .. catch 77. Sources: every binary operator on "
          "every ordered pair of 34 boundary values (0, +-1, 2, 63, 64, -64, min/max int, +-0.0, 1.5, -2.5, +-Inf, NaN, 1e300, '', 'a', '12', "
          "true, false, [], [1], [1,'a'], [[1]], a lazy list, {}, {a:1}, a map holding a closure, closures of 1, 2 and 3 parameters, a "
          "closure that fails) - exhaustively (TestMatrix, 8 cheap contexts x try/no try) and sampled in all contexts; unary operators; "
          "every static function with 0..4 boundary arguments (incl. random(0), min(), sprintf, bisection, createLowPass); every list, map, "
          "string and closure method name on every receiver with 0..3 boundary arguments (misuse of every kind); index, member access and "
          "calls on every value; the host function boom() that panics with an error value, a string or a nil dereference; runaway recursion "
          "that grows the value stack. Contexts: top level, inside a closure, a sequential map/accept, a forced-parallel map/accept (fault "
          "at element 20, workers from element 12), the stage behind a parallel map (collector goroutine), a merge operand, the merge "
          "comparator, a multiUse consumer and its source, the key/compare closures of order and orderLess, reduce, a map literal, a switch "
          "case, nested try, and a lazy result that the host forces after Eval returned; in a third of the sampled cases the fault is raised by the closure of a list stage of any kind (map accept number iir iir-initial iirCombine combine combine3 combineN compact cross fsm) placed as merge operand, merge receiver, merge operand behind a consumer that stops at once, multiUse source, inside a multiUse consumer, behind a parallel map (collector goroutine), consumed sequentially, or returned lazily; GOMAXPROCS from {1,2,4,16}; optimizer on/off. "
          "Oracle: the process survives (a death is attributed through the pending-case file and confirmed in isolation), the evaluation "
          "call does not panic, forcing a lazy result delivers language-level faults as errors, and the outcome equals the reference "
          "interpreter's: an error when the sub-term faults, the catch value when wrapped in try. Non-trivial: the reference raised the "
          "fault (or the try wrapper caught it); distinct = case."),
    assumptions=["a panic of the host's own function boom() inside a lazily returned stage that the host forces after Eval is outside 'during evaluation'",
                 "lists of 2^63 elements that get materialised exhaust the memory: kept out by construction, not a fault the property speaks about",
                 "sprintf, bisection, createLowPass, binning and random are checked for crash freedom only"],
    jobs=[
        dict(name="c05", run="^TestPropC05$", kind="rapid", shards=16, checks={"quick": 80000, "thorough": 2000000}, mem_gb=16,
             guard={"quick": 1200, "thorough": 10800}),
        dict(name="matrix", run="^TestMatrix$", kind="plain", shards=16, exhaustive=True, mem_gb=16, guard={"quick": 1200, "thorough": 3600}),
        dict(name="known_F6", run="^TestKnownF6$", kind="plain", shards=1, expect_known="F6", death_signature="stack overflow",
             guard={"quick": 300, "thorough": 300}),
    ],
    min_class_fraction={"fault_raised": 0.3, "closure_ran_on_another_goroutine": 0.01, "context_parMap": 0.003, "context_mergeOperand": 0.02,
                        "context_multiUseConsumer": 0.02, "wrapped_in_try": 0.3},
    exhaustive_claim={"quick": ["matrix"], "thorough": ["matrix"]},
    exhaustive_scope={"quick": "every binary operator x every ordered pair of 34 boundary values, every unary operator and every fixed-arity static function x every boundary value, each in 8 contexts with and without try",
                      "thorough": "every binary operator x every ordered pair of 34 boundary values, every unary operator and every fixed-arity static function x every boundary value, each in 8 contexts with and without try"},
)


PROPS["C11"] = dict(
    pkg="c11",
    replay_race=True,
    rule=("programs from the C01/C10 generator with a constant-rich profile (constant lists, maps and closures that the optimizer folds and that "
          "are therefore shared between evaluations; lazily produced constant lists, appends to constants) x 2..16 goroutines that are "
          "released by a barrier and evaluate the SAME generated function, with equal or different argument tuples, GOMAXPROCS from "
          "{1,2,4,16}, two repetitions, each repetition on a freshly generated function (nothing is warmed up: the first touch of every "
          "constant happens under concurrency), in a binary built with the race detector (GORACE=halt_on_error=0; every case is announced "
          "on stderr so that each race report is attributed to the case that was running). Oracle: every goroutine's outcome equals the "
          "reference interpreter's outcome for its own arguments; every race report is a violation unless it matches the open finding "
          "F18. Non-trivial: at least two evaluations overlapped in time (measured) on a program with an argument independent list, map "
          "or closure; distinct = program text + concurrency shape."),
    assumptions=["schedules are sampled; the race detector reports only races that happen in a sampled run",
                 "race reports are attributed to the case announced last before the report"],
    jobs=[dict(name="c11", run="^TestPropC11$", kind="rapid", race=True, shards=16, checks={"quick": 80000, "thorough": 1500000},
               env={"GORACE": "halt_on_error=0"}, race_reports=True,
               race_known=[{"finding": "F18", "one_side_matches": r"parser2/value\.\(\*List\)\.(Eval|Append)(\(|-|\.)"}],
               guard={"quick": 1200, "thorough": 10800}),
          dict(name="library_closures", run="^TestPropLibraryClosures$", kind="rapid", race=True, shards=8, checks={"quick": 1600, "thorough": 40000},
               env={"GORACE": "halt_on_error=0"}, race_reports=True,
               race_known=[{"finding": "F18", "one_side_matches": r"parser2/value\.\(\*List\)\.(Eval|Append)(\(|-|\.)"}],
               guard={"quick": 1200, "thorough": 7200})],
    min_class_fraction={"evaluations_overlapped": 0.1, "constant_list": 0.15, "different_arguments": 0.3},
)


# ---- rule amendments (the rule strings above are concatenated literals; amendments made while
# ---- the checks were strengthened are applied to the evaluated strings) ----
def _amend(pid, old, new):
    assert old in PROPS[pid]["rule"], (pid, old[:60])
    PROPS[pid]["rule"] = PROPS[pid]["rule"].replace(old, new, 1)


_amend("C06", "Oracle: the reference interpreter's strictly sequential eager result (element sequence, or 'fails'). Non-trivial: a goroutine probe",
    "The terminal multiUseNested lets the consumers return lazy lists inside maps and lists ({x: list}, {k:1, m:{x: list}}, [{x: list}, 7]) which "
    "multiUse has to force while it feeds them. Oracle: the reference interpreter's strictly sequential eager result (element sequence, or 'fails'). "
    "Non-trivial: a goroutine probe")
_amend("C11", "Oracle: every goroutine's outcome equals the reference interpreter's outcome for its own arguments;",
    "In a third of the cases the arguments of all goroutines are rows of ONE argument table and every goroutine passes its row (a sub-slice whose "
    "capacity reaches over the following rows). Oracle: every goroutine's outcome equals the reference interpreter's outcome for its own arguments;")
_amend("C16", "Non-trivial: at least one free attribute occurrence lies inside a closure or func body; distinct = program text + map.",
    "In a fifth of the cases a generator of its own first generates a function with the same map name, THEN an int attribute name that the program "
    "uses (and does not bind) is registered as a constant: constants shadow attributes, so the reference, the explicit form and the implicit form "
    "must all read the constant. Non-trivial: at least one free attribute occurrence lies inside a closure or func body; distinct = program text + map.")
_amend("C17", "every scalar as the JSON string of its string form.",
    "every scalar as the JSON string of its string form; a second export of the same value yields the same document.")
_amend("C19", "larger trees (depth<=6, with let/if anywhere the grammar allows) sampled by rapid.",
    "the forms let x=E1; let x=E2; E3 (the same name declared twice in one body) enumerated with <=1 node per slot: every generator either rejects "
    "them as a redeclaration or the inner declaration is the one in scope; larger trees (depth<=6, with let/if anywhere the grammar allows) sampled by rapid.")
_amend("C07", "Oracle: the eager reference library (harness/ref)",
       "Windows and groups a built-in hands out (movingWindow, movingWindowRemove) are also appended to and changed (they are lists of their own). Every "
       "program is evaluated twice on the same generated function with the same argument objects. Oracle: the eager reference library (harness/ref)")
_amend("C09", "a third of the steps derives again from the parent",
       "operations on the sub-lists a built-in hands out (movingWindow/movingWindowRemove/combineN windows and groupByInt values with an append applied to "
       "each); merges with a one-entry map literal whose key is new; a third of the steps derives again from the parent")
_amend("C10", "passes the very same objects to every evaluation with that tuple.",
       "keeps the tuples of a program as rows of ONE table and passes the rows (sub-slices whose capacity reaches over the following rows) to every "
       "evaluation with that tuple: an evaluation must not write to it.")
_amend("C13", "NewToMap struct wrapper with generated attribute sets",
       "NewToMap struct wrapper with generated attribute sets (registered as drawn: a name registered again overrides the earlier registration)")
_amend("C15", "(with and without a blank where the lexer allows) equals the explicit form.",
       "(without separator where the lexer allows, or set off by any white space: blank, LF, LF LF, tab, CR LF, CR, mixed) equals the explicit form.")
_amend("C18", "ToHtml returns failures as err, never panics.",
       "ToHtml returns failures as err, never panics; a second XML export of the same value yields the same document.")
_amend("C20", "axes: start on a 1/4 grid, size from {1/8,1/4,1/2,1,2,4,3,5,10},",
       "axes: start on a 1/4 grid, size from {1/8,1/4,1/2,1,2,4,3,5,10}, a quarter of them fine grids (start on a 1/1024 grid, size from {1/64,1/256,1/1024,1,1/4,3}: "
       "bounds with many exactly representable decimals),")
_amend("C04", "thorough adds a native coverage-guided fuzz campaign.",
       "An input that is slow only because the optimizer evaluates a long-running argument-independent sub-expression while Generate runs (it is parsed at once "
       "without optimizer and the evaluation of the unoptimized function is what takes the time) is attributed to the open finding F33; its exemplar "
       "(Generate time of numbers(N).map(i->i).sum() grows with N at constant input length) runs in every tier. thorough adds a native coverage-guided "
       "fuzz campaign; an input on which the fuzzer loses a worker is judged by an isolated replay.")
_amend("C11", "Oracle: every goroutine's outcome equals the reference interpreter's outcome for its own arguments;",
       "A second job (library_closures) evaluates five fixed programs that use a closure or map the LIBRARY builds from constants (createLowPass, "
       "createInterpolation, linearReg, a constant iirApply filter - folded into the function and shared by all evaluations) from 2..12 goroutines on 1..4 "
       "different irregularly sampled signals; its oracle is the function itself: every concurrent outcome equals an isolated evaluation of a freshly "
       "generated function with the same argument. Oracle: every goroutine's outcome equals the reference interpreter's outcome for its own arguments;")
_amend("C16", "representations, optionally with decoy keys",
       "representations, in half of the cases the map the implementation itself builds from a literal, bare or behind the wrapper "
       "values export.Format / export.Link / both, which are maps through ToMap; in these cases attributes may hold closures int -> int "
       "that the program calls, a quarter of them with attribute names get, size, isAvail; optionally with decoy keys")

_amend("C10", "Non-trivial: a function saw >=2 distinct tuples",
       "Second job (library_histories): ONE function that uses a closure or map the library builds from constants (createLowPass, "
       "createInterpolation - also queried in falling order and outside of its table -, linearReg, a constant iirApply filter map; the "
       "optimizer folds them into the function) is evaluated 2..8 times in sequence with 1..4 different irregularly sampled signals in a "
       "drawn order; every outcome must equal the outcome of a freshly generated function evaluated once with the same signal. "
       "Non-trivial: a function saw >=2 distinct tuples")

# generators and oracles widened after the fourth and fifth round of seeded changes
_amend("C01", "~20% of the programs may contain failing or ill-typed sub-terms.",
       "6% of the non-negative int literals are spelled with one or two leading zeros (they stay decimal); 5% of the lets use the template 'a lazy "
       "list (map, accept, iir, number, combine) is bound first, 2..5 further locals are declared behind it, and only then the list is read for the "
       "first time'; ~20% of the programs may contain failing or ill-typed sub-terms.")
_amend("C02", "closures that capture nothing, applied to argument-independent values, with host calls inside;",
       "closures that capture nothing, applied to argument-independent values, with host calls inside - there 40% of the int case labels of a "
       "switch are host calls ik(c)/pk(c);")
_amend("C03", "spellings of 1..3 characters from an operator alphabet,",
       "spellings of 1..3 characters from an operator alphabet that also holds symbols outside ASCII (U+2264 U+2227 U+00AC U+2248 U+2295),")
_amend("C05", "nested try, and a lazy result that the host forces after Eval returned;",
       "nested try, the body of a func statement (called, never called, nested in another func), the closures of the methods map, accept, replace "
       "and combine of a MAP, and a lazy result that the host forces after Eval returned;")
_amend("C05", "consumed sequentially, or returned lazily;",
       "consumed sequentially, returned lazily, or as the SOURCE of a sequential map, of an accept, of a parallel map, or of the map/accept stages "
       "inside two multiUse consumers (the fault has to pass through that stage);")
_amend("C06", "15% of the pipelines contain one closure",
       "a sixth of the closures read their element through an index into a lazy list they build themselves (numbers(3).number((i,k)->k+e)[0]); "
       "15% of the pipelines contain one closure")
_amend("C07", "up to 4 stages are composed before a terminal.",
       "up to 4 stages are composed before a terminal; a sixth of the pipelines are bound to a local, 2..5 further locals are declared behind it and "
       "only then the terminal reads it (the last local is returned with the result); map replace chains of 14 and 15 steps (beyond the flatten threshold) are generated.")
_amend("C08", "in 1/6 of the cases the pipeline is only built",
       "in 1/8 of the cases the counted list is the SECOND operand of a cross with 2..5 rows (run once per row, lazily); in 1/8 of the cases the "
       "counted pipeline is the ITEM of an outer list numbers(R).map(r -> pipeline) and the consumer is applied to the rows an outer lazy consumer "
       "selects (first; top(K).map; multiUse of {first row, top(K) rows}): demand = consumed rows x the demand of one consumption, rows nobody "
       "consumes cost nothing; in 1/6 of the cases the pipeline is only built")
_amend("C09", "size(), string() and be = to a freshly built literal of the model in both operand orders.",
       "size(), string() and be = to a freshly built literal of the model in both operand orders; which of these observers sees a handle first - "
       "before anything has iterated it - rotates from step to step, and all of them run again behind the full read.")
_amend("C12", "a consumer that fails at once), 25% with a failing element)",
       "a consumer that fails at once; a consumer that uses its list twice), 25% with a failing element, a third of them a host function that "
       "panics, a sixth of the closures indexing a lazy list of their own)")
_amend("C12", "error path part: five fixed shapes in which a merge operand or receiver (iterated by a goroutine of its own) fails at its 3rd/4th item "
       "and has 4 000 000 items behind it, three evaluations each: 150 ms after the failed evaluation returned the counting closure of that operand "
       "must have stopped (no background CPU work).",
       "error path part: seven fixed shapes, three evaluations each - a merge operand or receiver (iterated by a goroutine of its own) fails at its "
       "3rd/4th item and has 4 000 000 items behind it; a multiUse consumer uses its list twice while the other consumer still has 200 000 "
       "counted calls to make behind the end of the list: once the failed evaluation has returned, the counting closure must stand still "
       "(sampled 150 ms and 250 ms later: no background CPU work).")
_amend("C13", "NewFuncMapFactory map,",
       "NewFuncMapFactory map (with declared keys that are not available; also several maps of ONE shared factory whose available keys depend on the wrapped value),")
_amend("C13", "m.k, get, isAvail and ~ for every pool key,",
       "m.k, get, isAvail (also with 2..5 keys, repeated ones included) and ~ for every pool key,")
_amend("C14", "min/max/list.min/list.max/minMax/order/switch must agree with < and =.",
       "min/max/list.min/list.max/minMax/order/switch must agree with < and =; the list form a ~ b follows the model (every element of a is in b); "
       "order and orderRev must fail in all six arrangements of three elements of which one is incomparable with both others.")
_amend("C17", "a second export of the same value yields the same document.",
       "a second export of the same value yields the same document, and the first document (and the document of the previous case) is unchanged afterwards.")
_amend("C18", "lists of n-1..n+2 items around maxListSize (plain and rows),",
       "lists of n-1..n+2 items around maxListSize (plain and rows; the limit is drawn from -1..5, a limit below one shows one entry),")
_amend("C18", "ToHtml returns failures as err, never panics;",
       "the texts and attribute values of the first max(limit,1) entries of every list are present in the HTML, in order; ToHtml returns failures as err, never panics;")
_amend("C19", "A case is one expression (all assignments, all generators);",
       "In a third of the sampled float cases the eight binary operators are declared in a permuted priority order (generators rebuilt per case). "
       "Every assignment is evaluated a second time through f(st) on ONE stack that is initialised again with st.Init(...) for every evaluation. "
       "A case is one expression (all assignments, all generators);")
_amend("C02", "closures that capture nothing, applied to argument-independent values, with host calls inside",
       "binary operators (& | + * -, and & | on booleans) with a host call ik(c)/pk(c) as ONE operand and a constant as the other one, in either "
       "order; closures that capture nothing, applied to argument-independent values, with host calls inside")
_amend("C04", "An input that is slow only because the optimizer",
       "A slow input counts as scaling worse than quadratically only if the factor exceeds 5 at both halvings in the minimum of three "
       "measurements per size. An input that is slow only because the optimizer")
# verdicts of C04 that rest on wall-clock measurements are confirmed by an isolated replay
PROPS["C04"]["confirm_timing"] = ["scales worse than quadratically", "does not return within"]
